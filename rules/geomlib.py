"""Exact formula rules for the box geometry (P12, rules/poly.py): the formula the code computes, read as a rational
function of the box fields, is compared with the formula the property states.  A verdict is given only when the code
is straight-line arithmetic over the fields (today's tree is); any other shape is recorded as "not evaluated" and
decided by the dependency-set rules that were there before (R08.1/R08.4/R08.5/R19.2/R19.4), never reported.

  polygon_rule      vertices of Polygon::from(&Universal2DBox) = corners (+-hw, +-hh) rotated by +angle about (xc, yc),
                    listed in boundary order (any start, either orientation)
  measures_rule     Universal2DBox::area() = (2 hw)(2 hh);  get_radius() = sqrt(hw^2 + hh^2)
  roundtrip_rule    BoundingBox -> Universal2DBox -> BoundingBox is the identity on left/top/width/height/confidence
  iou_rule          calculate_metric_object = I / (A_l + A_r - I), I the one intersection value, A_k the area of box k
  extent_rule       BoundingBox::intersection = (min(right edges) - max(left edges)) * (min(bottoms) - max(tops))
"""
from lib import E, ExprBuilder, result_assignments, expand_calls
import poly
from poly import RF, Poly, const, atom, fn_atom, sqrt_of, try_rf, substitute

HALF = const('1/2')


def _field_atom(param):
    def f(pl):
        if pl.root == ('param', param) and pl.fields:
            return pl.fields[-1]
        return None
    return f


def _two_box_atom(pl):
    if pl.root[0] == 'param' and pl.fields:
        return '%s.%s' % ('l' if pl.root[1] == 1 else 'r' if pl.root[1] == 2 else 'p%d' % pl.root[1], pl.fields[-1])
    return None


def _angle_atom():
    return RF(Poly.atom(('fn', 'unwrap_or', ('angle', const(0).key()))))


def _copy(e, args):
    return E(e.kind, name=e.name, args=args, root=e.root, fields=e.fields, const=e.const, site=e.site, extra=e.extra, proj=e.proj)


def _mentions_angle(e):
    return any(x.kind == 'place' and 'angle' in x.fields for x in e.walk())


def resolve_angle_phis(b, e, errs):
    """`match b.angle { Some(a) => f(a), None => k }` shows in the vertex formula as phi(f(angle.Some.0) | k): it is the
    formula f(angle.unwrap_or(0)) when the constant alternative is taken ONLY for a box without an angle and k = f(0)
    (cos -> 1, sin -> 0, the angle itself -> 0). A constant taken on a path where the box HAS an angle (|angle| < eps,
    a 'nearly axis-aligned' fast path) is reported through errs: the polygon is then not the rectangle rotated by the
    box angle."""
    from lib import path_conditions
    if not isinstance(e, E):
        return e
    if e.kind == 'phi' and len(e.args) == 2:
        withs = [a for a in e.args if _mentions_angle(a)]
        consts = [a for a in e.args if not _mentions_angle(a)]
        if len(withs) == 1 and len(consts) == 1:
            k = consts[0]
            kk = k.strip() if hasattr(k, 'strip') else k
            conds = path_conditions(b, k.site[0]) if k.site else []
            none_only = any(c.kind == 'discr' and c.variants == {'None'} and c.expr is not None and _mentions_angle(c.expr)
                            for c in conds)
            w = withs[0]

            def repl(x):
                if x.kind == 'place' and 'angle' in x.fields:
                    i = x.fields.index('angle')
                    base = E('place', root=x.root, fields=x.fields[:i + 1])
                    return E('call', name='core::option::Option::unwrap_or', args=[base, E('const', const={'v': '0.0', 'ty': 'f32', 'f': 0.0})])
                return _copy(x, [repl(a) if isinstance(a, E) else a for a in x.args])
            if kk.kind == 'const':
                ws = w.strip()
                leaf = ws.name.rsplit('::', 1)[-1] if ws.kind == 'call' else None
                want = 1.0 if leaf == 'cos' else 0.0 if (leaf == 'sin' or ws.kind == 'place') else None
                try:
                    kv = float(kk.const.get('v'))
                except (TypeError, ValueError):
                    kv = None
                if want is None or kv is None:
                    return e
                if kv != want:
                    errs.append((k.site, 'a box without an angle takes %r where %r at angle 0 is %s' % (kk, w, want)))
                elif not none_only:
                    errs.append((k.site, 'the constant %r replaces %r on a path where the box has an angle (the only '
                                 'condition under which the angle may be ignored is `angle is None`)' % (kk, w)))
                return resolve_angle_phis(b, repl(w), errs)
    return _copy(e, [resolve_angle_phis(b, a, errs) if isinstance(a, E) else a for a in e.args])


def _polygon_bodies(ctx, R):
    bs = ctx.anchor(R, '<geo::Polygon as std::convert::From>::from', multi=True) or []
    return [b for b in bs if 'Universal2DBox' in b.locals[1]]


def _vertex_lists(b):
    """[(site, [E of Coord aggregate, ...])] for every array / push sequence of Coord values in the body"""
    eb = ExprBuilder(b)
    out = []
    for i in sorted(b.live_blocks()):
        for si, s in enumerate(b.blocks[i]['st']):
            if s['k'] != 'assign' or s['rv']['k'] != 'agg' or s['rv'].get('ak') != 'array':
                continue
            es = [eb.operand(op, at=(i, si)) for op in s['rv']['ops']]
            es = [e.strip() if e.kind != 'agg' else e for e in es]
            if es and all(e.kind == 'agg' and e.name.endswith('Coord') and len(e.args) == 2 for e in es):
                out.append(((i, si, s.get('ln')), es))
    return out


def _vertex_lists_mapped(F, b):
    """`[c1, .., cn].iter().map(|c| Coord { x: f(c), y: g(c) }).collect()` over a LITERAL array in the body: the Coord
    literal of the closure instantiated for every array element, captures replaced by the captured expressions"""
    from lib import all_closures, adaptor_of_closure, subst_closure_param, subst_upvars
    out = []
    for cb in all_closures(F, b):
        r = ExprBuilder(cb).place(0, ())
        r = r if r.kind == 'agg' else r.strip()
        if not (r.kind == 'agg' and r.name.endswith('Coord') and len(r.args) == 2):
            continue
        pb, ac = adaptor_of_closure(F, b, cb)
        if pb is not b or ac is None or ac.name != 'map':
            continue
        recv = ExprBuilder(b).arg(ac, 0)
        arrs = [y for y in recv.walk() if y.kind == 'agg' and y.name == 'array' and y.args]
        ops = [y.name.rsplit('::', 1)[-1] for y in recv.walk() if y.kind == 'call']
        if len(arrs) != 1 or any(o not in ('iter', 'into_iter', 'copied', 'cloned', 'as_slice', 'deref', 'as_ref',
                                          'borrow', 'unsize') for o in ops):
            continue
        body_e = subst_upvars(F, cb, r)
        es = []
        for el in arrs[0].args:
            x = subst_closure_param(body_e, el)
            es.append(x)
        out.append(((ac.bb, 0, ac.ln), es))
    return out


def _reference_cycle(A):
    xc, yc, h, a = atom('xc'), atom('yc'), atom('height'), atom('aspect')
    c, s = fn_atom('cos', A), fn_atom('sin', A)
    hw, hh = h * a * HALF, h * HALF
    cyc = []
    for sx, sy in ((-1, 1), (1, 1), (1, -1), (-1, -1)):
        dx, dy = const(sx) * hw, const(sy) * hh
        cyc.append((xc + dx * c - dy * s, yc + dx * s + dy * c))
    return cyc


def _same_seq(got, ref):
    return len(got) == len(ref) and all(g[0].same(r[0]) and g[1].same(r[1]) for g, r in zip(got, ref))


def polygon_rule(ctx, R):
    n = 0
    for b in _polygon_bodies(ctx, R):
        signed_remainder_rule(ctx, R, [b])
        lists = _vertex_lists(b) or _vertex_lists_mapped(ctx.F, b)
        if not lists:
            ctx.note(R, 'polygon vertices are not built as one array of Coord literals in %s: formula not evaluated' % b.npath)
            continue
        for (bb, si, ln), es in lists:
            got, err = [], None
            perrs = []
            for e in es:
                e = resolve_angle_phis(b, e, perrs)
                m = dict(zip(e.extra['fields'], e.args)) if e.extra and e.extra.get('fields') else None
                if not m or 'x' not in m or 'y' not in m:
                    err = 'Coord literal without x / y'
                    break
                x, e1 = try_rf(m['x'], _field_atom(1))
                y, e2 = try_rf(m['y'], _field_atom(1))
                if x is None or y is None:
                    err = e1 or e2
                    break
                got.append((x, y))
            if err:
                ctx.note(R, 'vertex formula of %s is not straight-line arithmetic (%s): not evaluated' % (b.npath, err))
                continue
            if len(got) == 5 and got[0][0].same(got[4][0]) and got[0][1].same(got[4][1]):
                got = got[:4]
            ctx.read(b)
            n += 1
            if perrs:
                ctx.fail(R, b, 'polygon:angle-ignored-only-when-absent', 'vertex formula: ' + perrs[0][1], ln)
                continue
            if len(got) != 4:
                ctx.fail(R, b, 'polygon:four-corners', 'the polygon of a box is built from %d vertices (expected the 4 '
                         'corners of the rectangle)' % len(got), ln)
                continue
            ref = _reference_cycle(_angle_atom())
            cands = []
            for base in (ref, ref[::-1]):
                for k in range(4):
                    cands.append(base[k:] + base[:k])
            if any(_same_seq(got, c) for c in cands):
                ctx.ok(R, b, 'polygon:rectangle-rotated-by-angle-about-centre',
                       'v0 = (%r, %r); 4 vertices equal (xc,yc) + R(angle)*(+-h*a/2, +-h/2) in boundary order' % got[0], ln)
                continue
            # diagnose
            def setkey(seq):
                return sorted(repr((x.key(), y.key())) for x, y in seq)
            why = 'the vertices are not the corners (+-height*aspect/2, +-height/2) rotated by the box angle about (xc, yc)'
            if setkey(got) == setkey(ref):
                why = 'the four corners are right but not listed in boundary order (self-intersecting polygon)'
            else:
                A = _angle_atom()
                xc, yc, h, a = atom('xc'), atom('yc'), atom('height'), atom('aspect')
                c, s = fn_atom('cos', A), fn_atom('sin', A)
                hw, hh = h * a * HALF, h * HALF
                mir = [(xc + const(sx) * hw * c + const(sy) * hh * s, yc - const(sx) * hw * s + const(sy) * hh * c)
                       for sx, sy in ((-1, 1), (1, 1), (1, -1), (-1, -1))]
                if setkey(got) == setkey(mir):
                    why = 'the rectangle is rotated by MINUS the box angle (transposed rotation matrix)'
            ctx.fail(R, b, 'polygon:rectangle-rotated-by-angle-about-centre',
                     '%s: v0 = (%r, %r)' % (why, got[0][0], got[0][1]), ln)
    return n


def _self_rf(ctx, b, depth=2):
    e = ExprBuilder(b).place(0, ())
    e = expand_calls(ctx.F, e, depth=depth)
    return try_rf(e, _field_atom(1))


def measures_rule(ctx, R):
    n = 0
    h, a = atom('height'), atom('aspect')
    hw, hh = h * a * HALF, h * HALF
    b = ctx.anchor(R, 'utils::bbox::Universal2DBox::area')
    if b is not None:
        rf, err = _self_rf(ctx, b)
        if rf is None:
            ctx.note(R, 'Universal2DBox::area is not straight-line arithmetic (%s): not evaluated' % err)
        else:
            n += 1
            ctx.read(b)
            ctx.check(rf.same(const(4) * hw * hh), R, b, 'area=width*height', repr(rf),
                      'Universal2DBox::area() computes %r, not (height*aspect)*height: it is not the area of the polygon '
                      'generated for the box' % rf)
    b = ctx.anchor(R, 'utils::bbox::Universal2DBox::get_radius')
    if b is not None:
        rf, err = _self_rf(ctx, b)
        if rf is None:
            ctx.note(R, 'Universal2DBox::get_radius is not straight-line arithmetic (%s): not evaluated' % err)
        else:
            n += 1
            ctx.read(b)
            want = hw * hw + hh * hh
            ok = (rf * rf).same(want) and rf.same(sqrt_of(want))
            if not ok:
                # hypot(hw, hh) form
                ok = rf.same(fn_atom('hypot', *sorted([hw, hh], key=lambda r: repr(r.key()))))
            ctx.check(ok, R, b, 'radius=sqrt(hw^2+hh^2)', repr(rf),
                      'get_radius() computes %r, not sqrt((height*aspect/2)^2 + (height/2)^2): it is not the distance '
                      'from the centre to the corners of the box polygon' % rf)
    return n


def _struct_fields(b, adt_suffix, atom_of, want_ok=False):
    """{field: RF} of the (single) struct literal of type adt_suffix that is the result of b (inside Ok(..) if
    want_ok); (None, reason) when not evaluable"""
    e = ExprBuilder(b).place(0, ())
    aggs = [x for x in e.walk() if x.kind == 'agg' and x.name.rsplit('::', 1)[-1] == adt_suffix and x.extra
            and x.extra.get('fields')]
    if len(aggs) != 1:
        return None, '%d struct literals of %s in the result' % (len(aggs), adt_suffix)
    m = dict(zip(aggs[0].extra['fields'], aggs[0].args))
    out = {}
    for f, x in m.items():
        if f.startswith('_'):
            continue
        s = x.strip() if x.kind in ('call', 'cast') else x
        if s.kind == 'agg' and s.name.endswith('None'):
            out[f] = 'None'
            continue
        rf, err = try_rf(x, atom_of)
        if rf is None:
            return None, 'field %s: %s' % (f, err)
        out[f] = rf
    return out, None


def roundtrip_rule(ctx, R):
    def pick(path, by_ref, ty):
        bs = ctx.anchor(R, path, multi=True) or []
        bs = [x for x in bs if x.locals[1].startswith('&') == by_ref and ty in x.locals[1]]
        return bs[0] if len(bs) == 1 else None

    U = pick('<utils::bbox::Universal2DBox as std::convert::From>::from', True, 'BoundingBox')
    B = pick('<utils::bbox::BoundingBox as std::convert::TryFrom>::try_from', True, 'Universal2DBox')
    if U is None or B is None:
        ctx.note(R, 'by-reference conversions not found: round trip not evaluated (R19.2 reports the missing anchor)')
        return 0
    uf, e1 = _struct_fields(U, 'Universal2DBox', _field_atom(1))
    bf, e2 = _struct_fields(B, 'BoundingBox', _field_atom(1))
    if uf is None or bf is None:
        ctx.note(R, 'conversion is not a struct literal of straight-line arithmetic (%s): round trip not evaluated' % (e1 or e2))
        return 0
    n = 0
    ctx.read(U)
    ctx.read(B)
    env = {f: rf for f, rf in uf.items() if isinstance(rf, RF)}
    for f in ('left', 'top', 'width', 'height', 'confidence'):
        if f not in bf or not isinstance(bf[f], RF):
            ctx.fail(R, B, 'roundtrip:' + f, 'the ltwh conversion does not compute `%s`' % f)
            n += 1
            continue
        comp = substitute(bf[f], env)
        n += 1
        ctx.check(comp.same(atom(f)), R, B, 'roundtrip:' + f, '%s -> %r' % (f, comp),
                  'ltwh -> universal -> ltwh maps `%s` to %r instead of `%s`: the round trip does not return the same box '
                  '(universal: %s; back: %s = %r)' % (f, comp, f, {k: v for k, v in uf.items() if k in
                                                                     ('xc', 'yc', 'aspect', 'height')}, f, bf[f]))
    n += 1
    ctx.check(uf.get('angle') == 'None', R, U, 'roundtrip:angle-none', str(uf.get('angle')),
              'the universal form of an axis-aligned box carries an angle (%s): converting it back fails or rotates the box'
              % (uf.get('angle'),))
    return n


IOU_IMPLS = {
    'bbox': ('<utils::bbox::BoundingBox as track::ObservationAttributes>::calculate_metric_object',
             lambda p: atom(p + '.height') * atom(p + '.width')),
    'universal': ('<utils::bbox::Universal2DBox as track::ObservationAttributes>::calculate_metric_object',
                  lambda p: atom(p + '.height') * atom(p + '.height') * atom(p + '.aspect')),
    'visual': ('<trackers::visual_sort::observation_attributes::VisualObservationAttributes as '
               'track::ObservationAttributes>::calculate_metric_object',
               lambda p: atom(p + '.height') * atom(p + '.height') * atom(p + '.aspect')),
}


def iou_rule(ctx, R):
    """Some(x): x == I / (A_l + A_r - I) with I = intersection(l, r) (one opaque value)"""
    n = 0
    for kind, (path, area) in IOU_IMPLS.items():
        b = ctx.anchor(R, path)
        if b is None:
            continue
        e = ExprBuilder(b).place(0, ())
        somes = [x for x in e.walk() if x.kind == 'agg' and x.name.endswith('Some') and len(x.args) == 1]
        if not somes:
            ctx.note(R, '%s: no Some(..) literal in the result: IoU formula not evaluated' % kind)
            continue
        for sm in somes:
            v = expand_calls(ctx.F, sm.args[0], depth=1, only=lambda nm: nm.rsplit('::', 1)[-1] == 'area')
            rf, err = try_rf(v, _two_box_atom)
            if rf is None:
                ctx.note(R, '%s: IoU value is not straight-line arithmetic (%s): not evaluated' % (kind, err))
                continue
            isect = [a for a in rf.atoms() if isinstance(a, tuple) and a[0] == 'fn' and a[1] == 'intersection']
            if len(isect) != 1:
                ctx.note(R, '%s: %d intersection values in the IoU formula: not evaluated here (R08.1 decides)' % (kind, len(isect)))
                continue
            I = RF(Poly.atom(isect[0]))
            want = I / (area('l') + area('r') - I)
            n += 1
            ctx.read(b)
            ctx.check(rf.same(want), R, b, kind + ':iou=I/(A_l+A_r-I)', repr(rf),
                      '%s IoU is %r, which is not intersection / (area_l + area_r - intersection)' % (kind, rf))
    return n


def extent_rule(ctx, R):
    b = ctx.anchor(R, 'utils::bbox::BoundingBox::intersection')
    if b is None:
        return 0
    n = 0
    def edge(fn, f, g=None):
        xs = []
        for p in ('l', 'r'):
            v = atom('%s.%s' % (p, f))
            if g:
                v = v + atom('%s.%s' % (p, g))
            xs.append(v)
        return fn_atom(fn, *sorted(xs, key=lambda r: repr(r.key())))
    W = edge('min', 'left', 'width') - edge('max', 'left')
    H = edge('min', 'top', 'height') - edge('max', 'top')
    for bb, k, p in result_assignments(b):
        if k == 'const' or (k == 'expr' and p.kind == 'const'):
            continue
        rf, err = try_rf(p, _two_box_atom)
        if rf is None:
            ctx.note(R, 'BoundingBox::intersection result is not straight-line arithmetic (%s): not evaluated' % err)
            continue
        n += 1
        ctx.read(b)
        ctx.check(rf.same(W * H), R, b, 'area=(min right-max left)*(min bottom-max top)', repr(rf),
                  'the axis-aligned intersection is %r, not (min(l.left+l.width, r.left+r.width) - max(l.left, r.left)) * '
                  '(min(l.top+l.height, r.top+r.height) - max(l.top, r.top))' % rf)
    return n


def signed_remainder_rule(ctx, R, bodies):
    """belief rule (Engler et al.): a `match x % n` on a SIGNED remainder whose explicit arms are n-1 of the residues
    0..n-1 and whose wildcard arm stands for the last one believes the remainder is never negative; Rust's `%` keeps the
    sign of the dividend, so negative dividends fall into the wildcard arm with the wrong case.  Accepted when the
    dividend is visibly non-negative (cast from an unsigned type, abs(), rem_euclid) or when no wildcard arm is live."""
    n = 0
    for b in bodies:
        eb = None
        for i in sorted(b.live_blocks()):
            t = b.blocks[i]['t']
            if t['k'] != 'switch' or not str(t.get('ty', '')).startswith('i') or t.get('ty') in ('isize?',):
                continue
            eb = eb or ExprBuilder(b)
            e = eb.operand(t['discr'])
            if not (e.kind == 'bin' and e.name == 'Rem' and e.args[1].kind == 'const'):
                continue
            try:
                mod = int(e.args[1].const_value())
            except (TypeError, ValueError):
                continue
            vals = sorted(int(v) for v, _ in t['targets'])
            other = t.get('otherwise')
            live_other = other is not None and other in b.live_blocks() and other not in b.diverging()
            dividend = e.args[0]
            nonneg = any(y.kind == 'call' and y.name.rsplit('::', 1)[-1] in ('abs', 'rem_euclid', 'unsigned_abs')
                         for y in dividend.walk()) or (dividend.kind == 'cast' and str(getattr(dividend.args[0], 'name', '')).startswith('u'))
            n += 1
            ctx.read(b)
            suspicious = live_other and mod > 1 and all(v >= 0 for v in vals) and len(vals) == mod - 1 and not nonneg
            ctx.check(not suspicious, R, b, 'signed-remainder-residues', '%r matched against %s + wildcard' % (e, vals),
                      '`%r` is matched against %s with a wildcard arm for the remaining residue, but the remainder of a '
                      'negative dividend is negative in Rust: negative values take the wildcard arm meant for residue %s'
                      % (e, vals, sorted(set(range(mod)) - set(vals))), t.get('ln', ''))
    return n


def stored_unchanged_rule(ctx, R):
    """the constructors of the rotated box store what the caller passed: `new` / `new_with_confidence` keep every
    parameter in its field, `rotate` / `rotate_mut` keep the given angle (through `Some`). Arithmetic on the way (a
    reduction modulo a turn in f32, a clamp, a default) makes the stored rectangle a different one from the rectangle the
    caller described: the f32 reduction of a many-turn angle moves the tips of a long box by a visible amount."""
    import wiring
    from mir import fields_of, proj_key
    n = 0
    for path in ('utils::bbox::Universal2DBox::new', 'utils::bbox::Universal2DBox::new_with_confidence'):
        if ctx.F.get(path):
            n += wiring.identity_ctor(ctx, R, path)
    for path in ('utils::bbox::Universal2DBox::rotate', 'utils::bbox::Universal2DBox::rotate_mut'):
        for b in ctx.F.get(path) or []:
            if b.kind == 'Closure':
                continue
            pn = {v: k for k, v in wiring.param_names(b).items()}
            if 'angle' not in pn:
                continue
            root = ('param', pn['angle'])
            eb = ExprBuilder(b)
            vals = []
            r = eb.place(0, ())
            for x in r.walk():
                if x.kind == 'agg' and x.extra and x.extra.get('fields') and 'angle' in x.extra['fields'] and \
                        x.name.endswith('Universal2DBox'):
                    vals.append((x.args[x.extra['fields'].index('angle')], None))
            for i in sorted(b.live_blocks()):
                for si, st in enumerate(b.blocks[i]['st']):
                    if st['k'] == 'assign' and st['lhs']['p'] and fields_of(tuple(proj_key(q) for q in st['lhs']['p']))[-1:] == ('angle',):
                        vals.append((eb._rvalue(st['rv'], (), 0, (i, si)), st.get('ln')))
            if not vals:
                ctx.note(R, '%s does not store an angle as a struct field: not evaluated' % path)
                continue
            ctx.read(b)
            for x, ln in vals:
                n += 1
                ok = wiring._is_identity(x, root)
                ctx.check(ok, R, b, 'angle-stored-unchanged', repr(x)[:80],
                          '%s stores %r as the angle: not the angle the caller passed (a reduced / clamped angle is a '
                          'different rectangle)' % (path.rsplit('::', 2)[-2] + '::' + path.rsplit('::', 1)[-1], x), ln)
    return n
