"""Shared tables and rules for the four trackers (C01, C03, C04, C06, C12)."""
from lib import (deep_arg, deep_calls, closure_of_adaptor, Cond, ExprBuilder, all_closures, as_cmp, closure_args_of_call, count_on_paths, eval_bool_paths,
                 every_path_passes, orient, path_conditions, reachable_bodies, result_assignments, upvar_expr)
from linear import destroyed
from mir import norm

API = 'trackers::tracker_api::TrackerAPI'
EPOCH = 'trackers::epoch_db::EpochDb'

TRACKERS = {
    'Sort': {
        'ty': 'trackers::sort::simple_api::Sort',
        'predict': 'trackers::sort::simple_api::Sort::predict_with_scene',
        'loop': 'trackers::sort::simple_api::Sort::predict_with_scene',
        'idle': 'trackers::sort::simple_api::Sort::idle_tracks_with_scene',
        'batch': False, 'visual': False, 'opts': 'opts',
    },
    'BatchSort': {
        'ty': 'trackers::sort::batch_api::BatchSort',
        'predict': 'trackers::sort::batch_api::BatchSort::predict',
        'loop': 'trackers::sort::batch_api::voting_thread',
        'idle': 'trackers::sort::batch_api::BatchSort::idle_tracks_with_scene',
        'batch': True, 'visual': False, 'opts': 'opts',
    },
    'VisualSort': {
        'ty': 'trackers::visual_sort::simple_api::VisualSort',
        'predict': 'trackers::visual_sort::simple_api::VisualSort::predict_with_scene',
        'loop': 'trackers::visual_sort::simple_api::VisualSort::predict_with_scene',
        'idle': 'trackers::visual_sort::simple_api::VisualSort::idle_tracks_with_scene',
        'batch': False, 'visual': True, 'opts': 'track_opts',
    },
    'BatchVisualSort': {
        'ty': 'trackers::visual_sort::batch_api::BatchVisualSort',
        'predict': 'trackers::visual_sort::batch_api::BatchVisualSort::predict',
        'loop': 'trackers::visual_sort::batch_api::voting_thread',
        'idle': 'trackers::visual_sort::batch_api::BatchVisualSort::idle_tracks_with_scene',
        'batch': True, 'visual': True, 'opts': 'track_opts',
    },
}

ATTRS = {
    'sort': 'trackers::sort::SortAttributes',
    'visual': 'trackers::visual_sort::track_attributes::VisualAttributes',
}
TA = 'track::TrackAttributes'
UPDATE_HISTORY = {k: v + '::update_history' for k, v in ATTRS.items()}


def result_path(t):
    """body holding the per-candidate decision (merge / new track / record): the loop body of t['loop'], or the
    closure found by anchors.resolve_all when the stage is written as map().collect()"""
    return t.get('result') or t['loop']


def ta_method(kind, name):
    return '<%s as %s>::%s' % (ATTRS[kind], TA, name)


def strip_num(e):
    """look through unwrap/try_into/casts/clone/deref"""
    return e.strip()


# ---------------------------------------------------------------------------
# C03 / C04


def absdiff_of_epochs(e):
    """is e == |p1.last_updated_epoch - p2.last_updated_epoch| (abs of a difference, or abs_diff)"""
    e = strip_num(e)
    if e.kind == 'call' and e.name.endswith('::abs') and e.args:
        d = strip_num(e.args[0])
        if d.kind == 'bin' and d.name == 'Sub':
            l, r = strip_num(d.args[0]), strip_num(d.args[1])
            return _lue_pair(l, r)
    if e.kind == 'call' and e.name.endswith('::abs_diff') and len(e.args) == 2:
        return _lue_pair(strip_num(e.args[0]), strip_num(e.args[1]))
    return False


def _lue_pair(l, r):
    if l.kind == 'place' and r.kind == 'place' and l.fields[-1:] == ('last_updated_epoch',) and \
            r.fields[-1:] == ('last_updated_epoch',):
        return {l.root, r.root} == {('param', 1), ('param', 2)}
    return False


def rule_compatible(ctx, R_scene, R_idle, R_validate):
    """compatible() returns true only if same scene AND max_idle >= |epoch gap| AND validate(gap, dist)"""
    n = 0
    for kind in ('sort', 'visual'):
        b = ctx.anchor(R_scene, ta_method(kind, 'compatible'))
        if b is None:
            continue
        defs = [d for d in result_assignments(b) if not (d[1] == 'const' and d[2] is False)]
        if not defs:
            ctx.fail(R_scene, b, 'returns-true', 'compatible never returns true')
            continue
        scene_all = idle_all = validate_all = True
        idle_detail = valid_detail = ''
        for bb, knd, payload in defs:
            conds = path_conditions(b, bb)
            cmps = [c.cmp() for c in conds if c.cmp()]
            bools = [(c.expr, c.truth) for c in conds if c.kind == 'bool']
            if knd == 'expr':
                cm = as_cmp(payload, True)
                if cm:
                    cmps.append(cm)
                bools.append((payload, True))
            # scene
            sc = False
            for op, a, b_ in cmps:
                if op == 'Eq' and a.kind == 'place' and b_.kind == 'place' and a.fields == ('scene_id',) and \
                        b_.fields == ('scene_id',) and {a.root, b_.root} == {('param', 1), ('param', 2)}:
                    sc = True
            scene_all = scene_all and sc
            # idle
            idl = False
            for cm in cmps:
                o = orient(cm, lambda e: e.has_call('max_idle_epochs') or e.has_field('max_idle_epochs'))
                if o is None:
                    continue
                idle_detail = '%r %s %r' % (o[1], o[0], o[2])
                if o[0] == 'Ge' and absdiff_of_epochs(o[2]):
                    idl = True
            idle_all = idle_all and idl
            # validate
            vd = False
            for e, truth in bools:
                for x in e.walk():
                    if x.kind == 'call' and x.name.endswith('SpatioTemporalConstraints::validate') and truth:
                        valid_detail = repr(x)
                        gap_ok = absdiff_of_epochs(x.args[1])
                        dist = strip_num(x.args[2])
                        dist_ok = dist.kind == 'call' and dist.name.endswith('dist_in_2r') and \
                            all(a.has_call('back') and a.has_field('predicted_boxes') for a in dist.args) and \
                            {tuple(p.root for p in a.places())[:1] for a in dist.args} == {(('param', 1),),
                                                                                          (('param', 2),)}
                        if gap_ok and dist_ok and e is x:
                            vd = True
                        elif gap_ok and dist_ok:
                            vd = True
            validate_all = validate_all and vd
        n += 3
        ctx.check(scene_all, R_scene, b, 'true-requires-same-scene', 'self.scene_id == other.scene_id dominates every '
                  'non-false result', 'compatible() can return true without self.scene_id == other.scene_id on that '
                  'path: a detection can be compared with (and attached to) a track of another scene')
        ctx.check(idle_all, R_idle, b, 'true-requires-max_idle>=|epoch-gap|', idle_detail,
                  'compatible() does not require `max_idle_epochs >= |self.last_updated_epoch - '
                  'other.last_updated_epoch|` (found: %s): the expiry test and the continuation test are not '
                  'complementary' % (idle_detail or 'no such comparison'))
        ctx.check(validate_all, R_validate, b, 'true-requires-validate(gap,dist)', valid_detail[:160],
                  'compatible() can return true without spatio_temporal_constraints.validate(|epoch gap|, '
                  'dist_in_2r(last predicted boxes)) being true (conjunction broken or arguments changed): %s' %
                  valid_detail[:200])
    return n


def rule_expiry(ctx, R):
    """EpochDb::baked: Wasted iff last_updated + max_idle < current(scene)"""
    n = 0
    b = ctx.anchor(R, EPOCH + '::baked')
    if b is None:
        return 0
    seen = set()
    # every place where a TrackStatus value is built (directly in the result or in a local that is wrapped in Ok later)
    sites = []
    for i_ in sorted(b.live_blocks()):
        for si_, s_ in enumerate(b.blocks[i_]['st']):
            if s_['k'] == 'assign' and s_['rv']['k'] == 'agg' and s_['rv'].get('ak') == 'adt' and \
                    norm(s_['rv'].get('adt', '')).endswith('track::TrackStatus'):
                sites.append(('assign', i_, si_, s_))
    for d in sites:
        variant = d[3]['rv']['v']
        seen.add(variant)
        conds = path_conditions(b, d[1])
        cmps = [c.cmp() for c in conds if c.cmp()]
        rec = None
        for cm in cmps:
            o = orient(cm, lambda x: x.has_call('max_idle_epochs') or x.has_field('max_idle_epochs'))
            if o is None:
                continue
            op, a, c_ = o
            a = a.strip()
            # form A: last_updated + max_idle  OP  current
            if a.kind == 'bin' and a.name == 'Add' and any(x.kind == 'place' and x.root == ('param', 3) for x in
                                                           a.walk()):
                cur_ok = c_.has_call('get') and any(x.kind == 'place' and x.root == ('param', 2) for x in c_.walk())
                rec = (op, 'A', cur_ok)
            # form C: max_idle OP current - last_updated
            elif (a.kind == 'call' or a.kind == 'place') and c_.strip().kind == 'bin' and c_.strip().name == 'Sub':
                rec = ({'Lt': 'Lt', 'Le': 'Le', 'Gt': 'Gt', 'Ge': 'Ge'}[op], 'C', True)
            # form D: max_idle OP current.saturating_sub(last_updated [+ k]) - the overflow-safe spelling. Over the
            # naturals it equals `last_updated + max_idle < current` exactly for k = 0 with `<` (when the subtraction
            # saturates, i.e. current <= last_updated, `max_idle < 0` is false like the reference); with k = 1 and `<=`
            # the saturated case answers `max_idle <= 0`, which is TRUE for max_idle = 0: a track expires in the very
            # epoch it was updated in
            elif any(x.kind == 'call' and x.name.rsplit('::', 1)[-1] == 'saturating_sub' and len(x.args) == 2
                     for x in c_.walk()):
                ss = [x for x in c_.walk() if x.kind == 'call' and x.name.rsplit('::', 1)[-1] == 'saturating_sub'][0]
                cur_ok = ss.args[0].has_call('get') and any(x.kind == 'place' and x.root == ('param', 2) for x in ss.args[0].walk())
                sub = ss.args[1]
                k_ = 0
                if any(x.kind == 'bin' and x.name in ('Add', 'AddWithOverflow') for x in sub.walk()):
                    cs = [x for x in sub.walk() if x.kind == 'const']
                    k_ = int(cs[0].const_value()) if cs and str(cs[0].const_value()).isdigit() else None
                last_ok = any(x.kind == 'place' and x.root == ('param', 3) for x in sub.walk())
                bare = c_.strip() is ss or c_ is ss or repr(c_.strip()) == repr(ss)
                rec = (op if (k_ == 0 and bare) else 'saturating(k=%s)%s' % (k_, op), 'C', cur_ok and last_ok)
        if variant == 'Wasted':
            n += 1
            if rec is None:
                ctx.note(R, 'expiry predicate of EpochDb::baked has an unrecognised algebraic form; not armed')
            else:
                ok = (rec[1] == 'A' and rec[0] == 'Lt') or (rec[1] == 'C' and rec[0] == 'Lt')
                ctx.check(ok and rec[2], R, b, 'wasted-iff-last_updated+max_idle<current(scene)',
                          'Wasted under %s' % [str(c) for c in conds],
                          'a track is reported Wasted under %s: expected exactly `last_updated + max_idle_epochs < '
                          "current epoch of the track's scene` (strict; keyed by the scene parameter)" %
                          [str(c) for c in conds], d[3]['ln'])
        if variant == 'Pending':
            n += 1
            ok = rec is not None and ((rec[1] == 'A' and rec[0] == 'Ge') or (rec[1] == 'C' and rec[0] == 'Ge'))
            if rec is not None:
                ctx.check(ok, R, b, 'pending-is-the-complement', '', 'Pending is reported under %s, which is not the '
                          'complement of the expiry test' % [str(c) for c in conds], d[3]['ln'])
    ctx.check({'Wasted', 'Pending'} <= seen, R, b, 'statuses', str(sorted(seen)),
              'EpochDb::baked no longer distinguishes Wasted from Pending (%s)' % sorted(seen))
    # impls forward (scene_id, last_updated_epoch)
    for kind in ('sort', 'visual'):
        ib = ctx.anchor(R, ta_method(kind, 'baked'))
        if ib is None:
            continue
        e = ExprBuilder(ib).place(0, ())
        calls = e.calls('baked')
        ok = False
        if calls:
            a = calls[0].args
            ok = len(a) == 3 and strip_num(a[1]).kind == 'place' and strip_num(a[1]).fields == ('scene_id',) and \
                strip_num(a[2]).fields == ('last_updated_epoch',) and strip_num(a[1]).root == ('param', 1) and \
                strip_num(a[2]).root == ('param', 1)
        n += 1
        ctx.check(ok, R, ib, 'baked-forwards(scene_id,last_updated_epoch)', repr(e)[:160],
                  'the attributes do not evaluate expiry as opts.baked(self.scene_id, self.last_updated_epoch): %r' % e)
    return n


def _deref_assignments(body):
    """[(bb, si, target E (what the written reference points to), value E, ln)] for `*x = v` statements"""
    eb = ExprBuilder(body)
    out = []
    for i in sorted(body.live_blocks()):
        for si, s in enumerate(body.blocks[i]['st']):
            if s['k'] == 'assign' and s['lhs']['p'] and s['lhs']['p'][0] == '*' and len(s['lhs']['p']) == 1:
                tgt = eb.place(s['lhs']['l'], (), 0, (i, si))
                val = eb._rvalue(s['rv'], (), 0, (i, si))
                out.append((i, si, tgt, val, s['ln']))
    return out


def rule_epoch_arithmetic(ctx, R):
    n = 0
    eb_cache = {}
    specs = {
        'next_epoch': ('const1', 'const1'),
        'skip_epochs_for_scene': ('param3', 'param3'),
    }
    for name, (inc, ins) in specs.items():
        b = ctx.anchor(R, EPOCH + '::' + name)
        if b is None:
            continue
        eb = ExprBuilder(b)
        da = _deref_assignments(b)
        incs = []
        entry_form = None
        entry_match = None
        for i, si, tgt, val, ln in da:
            if tgt.has_call('entry') and not tgt.has_call('or_insert') and val.kind == 'bin' and val.name == 'Add' and any(
                    y.kind == 'call' and y.name.rsplit('::', 1)[-1] in ('get_mut', 'into_mut') and len(y.args) == 1
                    for y in tgt.walk()):
                # `match map.entry(scene) { Occupied(e) => *e.get_mut() += inc, Vacant(v) => v.insert(inc) }`
                entry_match = (tgt, val, ln)
            elif tgt.has_call('get_mut') and val.kind == 'bin' and val.name == 'Add':
                incs.append((tgt, val, ln))
            elif tgt.has_call('or_insert') and tgt.has_call('entry') and val.kind == 'bin' and val.name == 'Add':
                entry_form = (tgt, val, ln)
        if entry_match is not None and not incs and entry_form is None:
            tgt, val, ln = entry_match
            ent = tgt.calls('entry')[0]
            key = ent.args[1].strip()
            add = val.args[1]
            keyed = key.kind == 'place' and key.root == ('param', 2)

            def _is_amt(x, which):
                if which == 'const1':
                    return x.kind == 'const' and x.const.get('v') == '1'
                return x.strip().kind == 'place' and x.strip().root == ('param', 3)
            vins = [c for c in b.find_calls('insert') if 'VacantEntry' in c.callee or 'Vacant' in str(b.locals[c.args[0]['pl']['l']] if c.args and c.args[0].get('k') in ('copy', 'move') else '')]
            okv = len(vins) == 1
            vdetail = '%d vacant inserts' % len(vins)
            if okv:
                recv = eb.arg(vins[0], 0)
                v = eb.arg(vins[0], 1)
                ek = [y.args[1].strip() for y in recv.walk() if y.kind == 'call' and y.name.rsplit('::', 1)[-1] == 'entry' and len(y.args) > 1]
                okv = bool(ek) and all(k_.kind == 'place' and k_.root == ('param', 2) for k_ in ek) and _is_amt(v, ins)
                vdetail = 'vacant.insert(%r) under entry(%s)' % (v, ek[:1])
            n += 2
            ctx.check(keyed and _is_amt(add, inc), R, b, name + ':existing-scene-advances', 'occupied entry(%r) += %r' % (key, add),
                      '%s does not advance the epoch of the scene parameter by %s (occupied-entry form: key %r, amount %r)' % (
                          name, '1' if inc == 'const1' else 'n', key, add))
            ctx.check(okv, R, b, name + ':unseen-scene-starts-at-increment', vdetail,
                      '%s does not start an unseen scene at the increment (vacant-entry form: %s)' % (name, vdetail))
            continue
        if entry_form is not None and not incs:
            # `*map.entry(scene).or_insert(0) += inc` covers both the existing and the unseen scene
            tgt, val, ln = entry_form
            ent = tgt.calls('entry')[0]
            oi = tgt.calls('or_insert')[0]
            key = ent.args[1].strip()
            add = val.args[1]
            keyed = key.kind == 'place' and key.root == ('param', 2)
            if inc == 'const1':
                amt = add.kind == 'const' and add.const.get('v') == '1'
            else:
                amt = add.strip().kind == 'place' and add.strip().root == ('param', 3)
            zero = oi.args[1].kind == 'const' and oi.args[1].const.get('v') == '0'
            r = count_on_paths(b, 0, b.returns(), [entry_form and [i for i, si, t_, v_, l_ in da if t_ is tgt][0]])
            n += 2
            ctx.check(keyed and amt, R, b, name + ':existing-scene-advances', 'entry(%r).or_insert(0) += %r' % (key, add),
                      '%s does not advance the epoch of the scene parameter by %s (entry form: key %r, amount %r)' % (
                          name, '1' if inc == 'const1' else 'n', key, add))
            ctx.check(keyed and amt and zero, R, b, name + ':unseen-scene-starts-at-increment', 'default 0',
                      '%s does not start an unseen scene at 0 + increment' % name)
            continue
        ins_calls = b.find_calls('std::collections::HashMap::insert')
        if not incs and len(ins_calls) == 1 and eb.arg(ins_calls[0], 2).kind == 'phi':
            # read-compute-store form: `let next = map.get(&scene).map_or(inc, |e| *e + inc); map.insert(scene, next)`
            k = eb.arg(ins_calls[0], 1).strip()
            v = eb.arg(ins_calls[0], 2)
            alts = []

            def flat(x):
                if x.kind == 'phi':
                    for y in x.args:
                        flat(y)
                else:
                    alts.append(x.strip() if x.kind == 'call' else x)
            flat(v)

            def is_inc(x):
                x = x.strip() if x.kind != 'const' else x
                if inc == 'const1':
                    return x.kind == 'const' and x.const.get('v') == '1'
                return x.kind == 'place' and x.root == ('param', 3)
            keyed = k.kind == 'place' and k.root == ('param', 2)
            fresh = [a for a in alts if is_inc(a)]
            adv = [a for a in alts if a.kind == 'bin' and a.name == 'Add' and is_inc(a.args[1]) and any(
                y.kind == 'call' and y.name.rsplit('::', 1)[-1] in ('get', 'get_mut') and len(y.args) > 1 and
                y.args[1].strip().kind == 'place' and y.args[1].strip().root == ('param', 2)
                for y in a.args[0].walk())]
            # the stored value reaches the map on every path to a Some result
            r = count_on_paths(b, 0, b.returns(), [ins_calls[0].bb])
            n += 2
            ctx.check(keyed and len(adv) == 1 and len(adv) + len(fresh) == len(alts), R, b,
                      name + ':existing-scene-advances', 'insert(%r, %r)' % (k, v),
                      '%s does not advance the existing epoch of the scene parameter by %s (stored value: %r under key '
                      '%r)' % (name, '1' if inc == 'const1' else 'n', v, k))
            ctx.check(keyed and len(fresh) == 1 and len(adv) + len(fresh) == len(alts), R, b,
                      name + ':unseen-scene-starts-at-increment', 'insert(%r, %r)' % (k, v),
                      '%s does not store %s for a scene that has no epoch yet (stored value: %r): the first advance '
                      'of a scene is lost or mis-keyed' % (name, '1' if inc == 'const1' else 'n', v))
            continue
        n += 1
        okinc = len(incs) == 1
        detail = ''
        if okinc:
            tgt, val, ln = incs[0]
            gm = tgt.calls('get_mut')[0]
            key = gm.args[1].strip()
            add = val.args[1]
            detail = '%r keyed by %r' % (val, key)
            keyed = key.kind == 'place' and key.root == ('param', 2)
            if inc == 'const1':
                amt = add.kind == 'const' and add.const.get('v') == '1'
            else:
                amt = add.strip().kind == 'place' and add.strip().root == ('param', 3)
            okinc = keyed and amt and val.args[0].has_call('get_mut')
        ctx.check(okinc, R, b, name + ':existing-scene-advances', detail,
                  '%s does not advance the existing epoch of the scene parameter by %s (found %s)' % (
                      name, '1' if inc == 'const1' else 'n', detail or '%d increments' % len(incs)))
        inserts = b.find_calls('std::collections::HashMap::insert')
        n += 1
        okins = len(inserts) == 1
        detail = ''
        if okins:
            k = eb.arg(inserts[0], 1).strip()
            v = eb.arg(inserts[0], 2)
            detail = 'insert(%r, %r)' % (k, v)
            keyed = k.kind == 'place' and k.root == ('param', 2)
            if ins == 'const1':
                amt = v.kind == 'const' and v.const.get('v') == '1'
            else:
                amt = v.strip().kind == 'place' and v.strip().root == ('param', 3)
            conds = path_conditions(b, inserts[0].bb)
            absent = any(c.kind == 'discr' and c.variants == {'None'} for c in conds)
            okins = keyed and amt and absent
        ctx.check(okins, R, b, name + ':unseen-scene-starts-at-increment', detail,
                  '%s does not insert (scene, %s) for a scene that has no epoch yet (found %s): the first advance of '
                  'a scene is lost or mis-keyed' % (name, '1' if ins == 'const1' else 'n',
                                                    detail or '%d inserts' % len(inserts)))
    b = ctx.anchor(R, EPOCH + '::current_epoch_with_scene')
    if b is not None:
        e = ExprBuilder(b).place(0, ())
        gm = [x for x in e.walk() if x.kind == 'call' and x.name.rsplit('::', 1)[-1] in ('get', 'get_mut')]
        keyed = bool(gm) and all(x.args[1].strip().kind == 'place' and x.args[1].strip().root == ('param', 2) for x in
                                 gm)
        zero = any(x.kind == 'const' and x.const.get('v') == '0' for x in e.walk())
        n += 1
        ctx.check(keyed and zero, R, b, 'current_epoch:keyed-by-scene-default-0', repr(e)[:160],
                  'current_epoch_with_scene does not return the epoch stored for the scene parameter (0 when unseen): '
                  '%r' % e)
    return n


def scene_param_of(tname, body):
    """the operand expression denoting the scene of the current job in a predict body"""
    return ('param', 2)


def rule_predict_epoch(ctx, R):
    """each predict advances the epoch of its scene exactly once on every path (batch: once per scene iteration),
    and hands that epoch + scene to the attribute update"""
    n = 0
    for tname, t in TRACKERS.items():
        b = ctx.anchor(R, t['predict'])
        if b is None:
            continue
        eb = ExprBuilder(b)
        ne = b.find_calls(EPOCH + '::next_epoch')
        other = b.find_calls(API + '::skip_epochs', API + '::skip_epochs_for_scene', EPOCH + '::skip_epochs_for_scene')
        n += 1
        if len(ne) != 1:
            ctx.fail(R, b, tname + ':next_epoch-once', 'predict calls next_epoch at %d sites (expected exactly one)' % len(ne))
            continue
        c = ne[0]
        if not t['batch']:
            r = count_on_paths(b, 0, b.returns(), [c.bb])
            ctx.check(r == (1, 1) and not other, R, b, tname + ':next_epoch-once',
                      'exactly one next_epoch on every path (empty input included)',
                      'the scene epoch advances between %s and %s times per predict call (expected exactly once on '
                      'every path, empty input included)%s' % (r[0] if r else '?', r[1] if r else '?',
                                                                '; additionally skip_epochs is called' if other else ''),
                      c.ln)
            scene = eb.arg(c, 1).strip()
            n += 1
            ctx.check(scene.kind == 'place' and scene.root == ('param', 2), R, b, tname + ':next_epoch(scene)',
                      'next_epoch(%r)' % scene, 'the epoch is advanced for %r, not for the scene of this call' % scene,
                      c.ln)
        else:
            loops = [h for h, blks in b.loops().items() if c.bb in blks]
            ok = len(loops) == 1
            detail = '%d enclosing loops' % len(loops)
            if ok:
                h = loops[0]
                r = count_on_paths(b, h, [h], [c.bb])
                # per iteration: from the Some-edge of the loop's next() back to the header
                nxt = [x for x in b.find_calls('std::iter::Iterator::next') if x.bb in b.loops()[h]]
                detail = 'per iteration %s' % (r,)
                its = [eb.arg(x, 0) for x in nxt]
                over_batch = any(e.has_call('get_batch') for e in its)
                ok = over_batch and r is not None and r[1] == 1
                # min may be 0 on the exit path of the loop; check from the Some side
                body_start = None
                for x in nxt:
                    tb = b.blocks[x.target]['t'] if x.target is not None else None
                    if tb and tb['k'] == 'switch':
                        for cnd in [Cond(b, x.target, tg) for tg in set(tg for _, tg in b.switch_edges(x.target))
                                    if tg not in b.diverging()]:
                            if cnd.kind == 'discr' and cnd.variants == {'Some'} and x.target in b.loops()[h] and \
                                    cnd.t in b.loops()[h] and b.dominates(cnd.t, c.bb):
                                body_start = cnd.t
                if body_start is not None:
                    r2 = count_on_paths(b, body_start, [h], [c.bb])
                    detail = 'per scene iteration %s' % (r2,)
                    ok = over_batch and r2 == (1, 1)
            ctx.check(ok and not other, R, b, tname + ':next_epoch-once-per-scene', detail,
                      'the batch predict does not advance the epoch exactly once per scene of the batch (%s)' % detail,
                      c.ln)
            scene = eb.arg(c, 1).strip()
            n += 1
            ctx.check(scene.has_call('next') and scene.has_call('get_batch'), R, b, tname + ':next_epoch(scene)',
                      'next_epoch(%r)' % scene, 'the epoch is advanced for %r, not for the scene of the batch entry' %
                      scene, c.ln)
        # epoch + scene reach the attribute update constructor
        ctor = 'new_init_with_scene' if t['visual'] else 'new_with_scene'
        found = False
        for cb in [b] + all_closures(ctx.F, b):
            for cc in cb.find_calls(ctor):
                found = True
                ebc = ExprBuilder(cb)
                ep = ebc.arg(cc, 0).strip()
                sc = ebc.arg(cc, 1).strip()

                def resolve(e, cb=cb):
                    if e.kind == 'place' and e.root[0] == 'upvar' and cb.kind == 'Closure':
                        # projection aware: `ctx.epoch` of a captured `Ctx { scene_id, epoch }` is the epoch
                        from lib import subst_upvars
                        return subst_upvars(ctx.F, cb, e).strip()
                    return e
                ep, sc = resolve(ep), resolve(sc)
                n += 1
                ep_ok = any(x.kind == 'call' and x.extra is c for x in ep.walk())
                if not t['batch']:
                    sc_ok = sc.kind == 'place' and sc.root == ('param', 2)
                else:
                    sc_ok = sc.has_call('get_batch') and repr(sc) == repr(eb.arg(c, 1).strip())
                ctx.check(ep_ok and sc_ok, R, cb, tname + ':update(epoch,scene)', '%s(%r, %r, ..)' % (ctor, ep, sc),
                          'the attribute update of a candidate is built from epoch %r / scene %r instead of the epoch '
                          'returned by next_epoch for this scene and the scene itself' % (ep, sc), cc.ln)
        if not found:
            ctx.fail(R, b, tname + ':update(epoch,scene)', 'ANCHOR-MISSING: no %s call found' % ctor)
    return n


def rule_accessor_wiring(ctx, R):
    n = 0
    table = [
        ('active_shard_stats', {'shard_stats': ['get_main_store']}),
        ('wasted_shard_stats', {'shard_stats': ['get_wasted_store']}),
        ('clear_wasted', {'clear': ['get_wasted_store', 'get_wasted_store_mut']}),
        ('auto_waste', {'add_track': ['get_wasted_store_mut']}),
        ('get_main_store_wasted', {'find_usable': ['get_main_store_mut'], 'fetch_tracks': ['get_main_store_mut']}),
        ('wasted', {'find_usable': ['get_wasted_store_mut'], 'fetch_tracks': ['get_wasted_store_mut']}),
    ]
    for meth, uses in table:
        b = ctx.anchor(R, API + '::' + meth)
        if b is None:
            continue
        for callee, accessors in uses.items():
            cs = deep_calls(ctx.F, b, 'track::store::TrackStore::' + callee)
            n += 1
            if not cs:
                ctx.fail(R, b, '%s:%s' % (meth, callee), 'ANCHOR-MISSING: %s no longer calls TrackStore::%s' % (
                    meth, callee))
                continue
            for owner, c in cs:
                recv = deep_arg(ctx.F, owner, c, 0)
                got = [x.name.rsplit('::', 1)[-1] for x in recv.walk() if x.kind == 'call' and x.name.startswith(API)]
                ctx.check(bool(got) and all(g in accessors for g in got), R, b, '%s:%s-on' % (meth, callee),
                          '%s().%s' % (got, callee),
                          '%s applies %s to %s (expected %s): the wrong store is consulted' % (
                              meth, callee, got, accessors), c.ln)
    impl = {'get_main_store': 'store', 'get_main_store_mut': 'store', 'get_wasted_store': 'wasted_store',
            'get_wasted_store_mut': 'wasted_store'}
    for tname, t in TRACKERS.items():
        for meth, field in impl.items():
            path = '<%s as %s>::%s' % (t['ty'], API, meth)
            b = ctx.anchor(R, path)
            if b is None:
                continue
            e = ExprBuilder(b).place(0, ())
            fields = {p.fields[0] for p in e.places() if p.root == ('param', 1) and p.fields}
            n += 1
            lockfn = 'write' if meth.endswith('_mut') else 'read'
            ctx.check(fields == {field}, R, b, '%s:%s->self.%s' % (tname, meth, field), repr(e)[:100],
                      '%s::%s returns a guard of self.%s (expected self.%s)' % (tname, meth, sorted(fields), field))
        path = '<%s as %s>::get_opts' % (t['ty'], API)
        b = ctx.anchor(R, path)
        if b is not None:
            e = ExprBuilder(b).place(0, ())
            n += 1
            ctx.check(e.has_place(root=('param', 1), field=t['opts']), R, b, tname + ':get_opts', repr(e)[:80],
                      'get_opts does not return the tracker options that hold the epoch db')
    return n


IDLE_DENY = ('take_while', 'skip_while', 'map_while', 'take', 'skip', 'step_by', 'nth', 'last', 'dedup', 'dedup_by',
             'dedup_by_key', 'unique', 'truncate', 'pop', 'remove', 'swap_remove', 'drain', 'retain', 'split_off',
             'find', 'find_map', 'position', 'min_by_key', 'max_by_key', 'rev', 'chunks', 'windows', 'first')


def rule_observers(ctx, R, parts=('wasted', 'skip', 'idle', 'clear')):
    """observers of expiry do not depend on when the periodic collection runs"""
    n = 0
    w = ctx.anchor(R, API + '::wasted') if 'wasted' in parts else None
    if w is not None:
        aw = w.find_calls(API + '::auto_waste')
        fu = w.find_calls('track::store::TrackStore::find_usable')
        n += 1
        ctx.check(bool(aw) and bool(fu) and all(any(w.dominates(a.bb, f.bb) for a in aw) for f in fu), R, w,
                  'wasted:flushes-first', 'auto_waste() dominates the scan of the wasted store',
                  'wasted() scans the wasted store without first collecting expired tracks from the live store: what '
                  'it returns depends on when the periodic collection last ran')
    s = ctx.anchor(R, API + '::skip_epochs_for_scene') if 'skip' in parts else None
    if s is not None:
        sk = s.find_calls(EPOCH + '::skip_epochs_for_scene')
        aw = s.find_calls(API + '::auto_waste')
        n += 1
        ok = bool(sk) and bool(aw) and all(any(s.postdominates(a.bb, k.bb) for a in aw) for k in sk)
        eb = ExprBuilder(s)
        fw = bool(sk) and eb.arg(sk[0], 1).strip().root == ('param', 2) and eb.arg(sk[0], 2).strip().root == (
            'param', 3) if sk and eb.arg(sk[0], 1).strip().kind == 'place' and eb.arg(sk[0], 2).strip().kind == 'place' else False
        ctx.check(ok and fw, R, s, 'skip:forwards-and-collects', '', 'skip_epochs_for_scene does not forward '
                  '(scene_id, n) to the epoch db followed by a collection of expired tracks')
    se = ctx.anchor(R, API + '::skip_epochs') if 'skip' in parts else None
    if se is not None:
        cs = se.find_calls(API + '::skip_epochs_for_scene')
        eb = ExprBuilder(se)
        n += 1
        ok = len(cs) == 1 and eb.arg(cs[0], 1).kind == 'const' and eb.arg(cs[0], 1).const.get('v') == '0' and \
            eb.arg(cs[0], 2).strip().root == ('param', 2)
        ctx.check(ok, R, se, 'skip_epochs:scene0', '', 'skip_epochs does not delegate to skip_epochs_for_scene(0, n)')
    # idle listings exclude expired-but-uncollected tracks
    for tname, t in (TRACKERS.items() if 'idle' in parts else ()):
        b = ctx.anchor(R, t['idle'])
        if b is None:
            continue
        n += 1
        ok = False
        detail = 'no filter on the lookup status'
        eb = ExprBuilder(b)
        for c in b.find_calls('std::iter::Iterator::filter'):
            recv = eb.arg(c, 0)
            if not recv.has_call('lookup'):
                continue
            for cb in closure_args_of_call(ctx.F, b, c):
                ctx.read(cb)
                paths = eval_bool_paths(cb)
                good = bool(paths)
                for conds, v in paths:
                    wasted = any(k.kind == 'discr' and k.variants == {'Wasted'} for k in conds) and any(
                        k.kind == 'discr' and k.variants == {'Ok'} for k in conds)
                    if wasted and v is not False:
                        good = False
                    if not wasted and v is not True:
                        # excluding something else than Ok(Wasted)
                        good = False
                detail = 'filter keeps: %s' % [([str(k) for k in conds], v) for conds, v in paths]
                ok = ok or good
        if not ok:
            for c in b.find_calls('std::iter::Iterator::filter_map', 'std::iter::Iterator::flat_map'):
                recv = eb.arg(c, 0)
                if not recv.has_call('lookup'):
                    continue
                for cb in closure_args_of_call(ctx.F, b, c):
                    ctx.read(cb)
                    from lib import eval_option_paths
                    good = True
                    seen_none = False
                    for conds, tag in eval_option_paths(cb):
                        wasted = any(k.kind == 'discr' and k.variants == {'Wasted'} for k in conds) and any(
                            k.kind == 'discr' and k.variants == {'Ok'} for k in conds)
                        if tag == 'None':
                            seen_none = True
                            good = good and wasted
                        elif tag == 'Some':
                            good = good and not wasted
                        else:
                            good = False
                    detail = 'filter_map drops exactly Ok(Wasted): %s' % (good and seen_none)
                    ok = ok or (good and seen_none)
        if not ok:
            # loop form: `for (id, status) in lookup(..) { if <expired> { continue } ...; result.push(record) }`
            from lib import loop_element_paths
            pushes = [c for c in b.find_calls('std::vec::Vec::push')]
            for h, blks in b.loops().items():
                ps = [c.bb for c in pushes if c.bb in blks]
                if not ps:
                    continue
                paths = loop_element_paths(b, h, ps)
                if not paths:
                    continue
                good = True
                dropped = False
                for conds, hit in paths:
                    wasted = any(k.kind == 'discr' and k.variants == {'Wasted'} for k in conds) and any(
                        k.kind == 'discr' and k.variants == {'Ok'} for k in conds)
                    if hit and wasted:
                        good = False
                    if not hit:
                        dropped = True
                        if not wasted:
                            good = False
                detail = 'loop keeps exactly the tracks whose status is not Ok(Wasted): %s' % (good and dropped)
                ok = ok or (good and dropped)
        ctx.check(ok, R, b, tname + ':idle-excludes-expired', detail[:200],
                  'idle_tracks_with_scene lists every track matched by the idle lookup without excluding those whose '
                  'status is Ok(Wasted) (%s): an expired track that was not collected yet is reported as idle, so the '
                  'listing depends on the timing of the periodic collection' % detail[:300])
        # the lookup is for the requested scene
        lk = b.find_calls('track::store::TrackStore::lookup')
        n += 1
        okl = False
        for c in lk:
            q = eb.arg(c, 1)
            okl = okl or any(x.kind == 'agg' and x.name.endswith('IdleLookup') and x.args and
                             x.args[0].strip().kind == 'place' and x.args[0].strip().root == ('param', 2)
                             for x in q.walk())
        ctx.check(okl, R, b, tname + ':idle-lookup(scene)', '', 'the idle listing does not query IdleLookup(scene_id) '
                  'for the requested scene')
        # every lookup result that is not expired is listed: besides the expiry filter nothing drops, bounds or
        # short-circuits the stream of results (take_while on a shared iterator swallows the element that ends a run,
        # skip/take/step_by/dedup/... lose tracks for some distributions of ids over shards)
        from lib import deep_calls
        drops = sorted({c.name for _, c in deep_calls(ctx.F, b, *IDLE_DENY)})
        n += 1
        ctx.check(not drops, R, b, tname + ':idle-lists-every-unexpired-result', '',
                  'the idle listing passes the lookup results through %s: besides the Ok(Wasted) filter no adaptor may drop '
                  'or bound elements - which tracks are reported would depend on how their ids fall into shards' % drops)
    cw = ctx.anchor(R, API + '::clear_wasted') if 'clear' in parts else None
    if cw is not None:
        cl = cw.find_calls('track::store::TrackStore::clear')
        fl = cw.find_calls(API + '::auto_waste', API + '::get_main_store_wasted', API + '::wasted')
        n += 1
        ctx.check(bool(cl) and bool(fl) and all(any(cw.dominates(f.bb, c.bb) for f in fl) for c in cl), R, cw,
                  'flush-before-clear', 'expired tracks are collected before the wasted store is cleared',
                  'clear_wasted() clears the wasted store without first collecting expired tracks from the live '
                  'store: tracks that expired but were not collected yet survive the clear and are handed out by a '
                  'later wasted() — the outcome depends on when the periodic collection last ran')
    return n


def rule_conservation(ctx, R):
    n = 0
    for meth in ('auto_waste', 'wasted', 'get_main_store_wasted'):
        b = ctx.anchor(R, API + '::' + meth)
        if b is None:
            continue
        dd = destroyed(b, r'^(std::vec::Vec<|std::option::Option<)?track::Track<')
        n += 1
        ctx.check(not dd, R, b, meth + ':no-track-destroyed', 'no normal-path destruction of a fetched track',
                  '%s can destroy fetched tracks (%s): they are neither stored nor handed out' % (
                      meth, ['bb%d %s %s at %s' % (x[0], x[3], x[2][:40], x[4]) for x in dd]))
    aw = ctx.anchor(R, API + '::auto_waste')
    if aw is not None:
        adds = deep_calls(ctx.F, aw, 'track::store::TrackStore::add_track')
        n += 1
        ok = len(adds) == 1
        if ok:
            owner, c = adds[0]
            v = deep_arg(ctx.F, owner, c, 1)
            if owner is aw:
                ok = v.has_call('next') and v.has_call('get_main_store_wasted')
                its = [h for h, blks in aw.loops().items() if c.bb in blks]
                ok = ok and len(its) == 1
            else:
                # closure form: tracks.into_iter().for_each(|t| add_track(t)) - the closure's parameter is the track
                # and the closure is driven by an adaptor over the fetched vector
                pb, ac = closure_of_adaptor(ctx.F, aw, owner)
                ok = v.strip().kind == 'place' and v.strip().root == ('param', 2) and ac is not None and \
                    ac.name in ('for_each', 'map', 'try_for_each') and \
                    ExprBuilder(pb).arg(ac, 0).has_call('get_main_store_wasted')
                r = count_on_paths(owner, 0, owner.returns(), [c.bb])
                ok = ok and r == (1, 1)
        ctx.check(ok, R, aw, 'auto_waste:each-expired-track-moved', 'every fetched track is added to the wasted store',
                  'auto_waste does not add every track returned by get_main_store_wasted to the wasted store')
        # ... on EVERY way through auto_waste: wasted() and skip_epochs_for_scene rely on it to flush the expired tracks;
        # an early return (a periodicity / configuration value read as "job off") leaves them in the live store for good
        gm = aw.find_calls(API + '::get_main_store_wasted')
        if gm:
            from lib import every_path_passes
            n += 1
            missed = [r_ for r_ in aw.returns() if not every_path_passes(aw, 0, r_, [c_.bb for c_ in gm])]
            ctx.check(not missed, R, aw, 'auto_waste:collects-on-every-path', 'every return is preceded by get_main_store_wasted',
                      'auto_waste can return without collecting the expired tracks (a path to bb%s avoids '
                      'get_main_store_wasted): wasted() / skip_epochs_for_scene, which flush through it, then hand out '
                      'nothing although tracks have expired' % missed, aw.blocks[missed[0]]['t'].get('ln', '') if missed else '')
    for meth, acc in (('wasted', 'get_wasted_store_mut'), ('get_main_store_wasted', 'get_main_store_mut')):
        b = ctx.anchor(R, API + '::' + meth)
        if b is None:
            continue
        e = ExprBuilder(b).place(0, ())
        n += 1
        ctx.check(e.kind == 'call' and e.name.endswith('TrackStore::fetch_tracks'), R, b,
                  meth + ':returns-what-it-fetched', repr(e)[:120],
                  '%s does not return exactly the tracks it removed with fetch_tracks (%r)' % (meth, e))
    return n


def selection_semantics(F, b, is_selected_fact):
    """how `b` selects elements of a status list, whatever the form: a `filter` predicate, a `filter_map` body or an
    explicit loop that pushes the selected ones. Returns (found, exact, detail): exact = an element is selected exactly
    on the paths on which is_selected_fact(conds) holds."""
    from lib import eval_bool_paths, eval_option_paths, loop_element_paths
    found = False
    exact = False
    detail = ''
    for c in b.find_calls('std::iter::Iterator::filter', 'std::iter::Iterator::filter_map'):
        for cb in closure_args_of_call(F, b, c):
            if cb.locals[0] == 'bool':
                paths = [(conds, v is True, v) for conds, v in eval_bool_paths(cb)]
                g = bool(paths) and all(v is not None for _, _, v in paths)
            elif 'Option' in cb.locals[0]:
                paths = [(conds, tag == 'Some', tag) for conds, tag in eval_option_paths(cb)]
                g = bool(paths) and all(tag in ('Some', 'None') for _, _, tag in paths)
            else:
                continue
            found = True
            for conds, sel, _ in paths:
                if is_selected_fact(conds) != sel:
                    g = False
            detail = str([([str(k) for k in conds], sel) for conds, sel, _ in paths])
            exact = exact or g
    if not found:
        pushes = b.find_calls('std::vec::Vec::push')
        for h, blks in b.loops().items():
            ps = [c.bb for c in pushes if c.bb in blks]
            if not ps:
                continue
            paths = loop_element_paths(b, h, ps)
            if not paths:
                continue
            found = True
            g = True
            for conds, hit in paths:
                if is_selected_fact(conds) != hit:
                    g = False
            detail = str([([str(k) for k in conds], hit) for conds, hit in paths])
            exact = exact or g
    return found, exact, detail


def _is_ok_wasted(conds):
    return any(k.kind == 'discr' and k.variants == {'Wasted'} for k in conds) and any(
        k.kind == 'discr' and k.variants == {'Ok'} for k in conds)


def rule_only_expired_migrate(ctx, R):
    n = 0
    for meth in ('wasted', 'get_main_store_wasted'):
        b = ctx.anchor(R, API + '::' + meth)
        if b is None:
            continue
        eb = ExprBuilder(b)
        ft = b.find_calls('track::store::TrackStore::fetch_tracks')
        if not ft:
            continue
        ids = eb.arg(ft[0], 1)
        found, good, detail = selection_semantics(ctx.F, b, _is_ok_wasted)
        # the ids fetched are the selected ones of find_usable(): either the collected chain, or the vector the loop
        # pushes to
        okchain = found and (ids.has_call('find_usable') or any(
            eb.arg(x, 0).has_call('find_usable') for x in b.find_calls('std::iter::Iterator::next')))
        n += 1
        ctx.check(okchain and good, R, b, meth + ':only-Ok(Wasted)-ids-are-fetched', detail[:200],
                  '%s fetches ids selected by %s: tracks that are not expired (Ok(Wasted)) can be moved out of their '
                  'store' % (meth, detail[:300] or repr(ids)[:200]))
    return n


def rule_length_step(ctx, R):
    n = 0
    for kind, metric in (('sort', '<trackers::sort::metric::SortMetric as track::ObservationMetric>::optimize'),
                         ('visual', '<trackers::visual_sort::metric::VisualMetric as track::ObservationMetric>::optimize')):
        b = ctx.anchor(R, metric)
        if b is not None:
            uh = b.find_calls(UPDATE_HISTORY[kind])
            r = count_on_paths(b, 0, [x for x in b.returns()], [c.bb for c in uh])
            # error exits (`?`) may skip it; consider Ok exits only
            from restore import exits
            oks = [bb for bb, k, d in exits(b) if k == 'ok']
            r = count_on_paths(b, 0, oks, [c.bb for c in uh]) if oks else r
            n += 1
            ctx.check(r == (1, 1), R, b, kind + ':update_history-once-per-observation',
                      'exactly one update_history on every successful path',
                      'optimize() calls update_history between %s and %s times per added observation: track length '
                      'and histories no longer advance by one per detection' % (r[0] if r else '?', r[1] if r else '?'))
        ub = ctx.anchor(R, UPDATE_HISTORY[kind])
        if ub is None:
            continue
        eb = ExprBuilder(ub)
        writes = []
        for i in sorted(ub.live_blocks()):
            for si, s in enumerate(ub.blocks[i]['st']):
                if s['k'] == 'assign' and s['lhs']['p'] and isinstance(s['lhs']['p'][-1], dict) and \
                        s['lhs']['p'][-1].get('n') == 'track_length' and s['lhs']['l'] == 1:
                    writes.append((i, eb._rvalue(s['rv'], (), 0, (i, si)), s['ln']))
        n += 1
        ok = len(writes) == 1 and not ub.in_loop(writes[0][0])
        if ok:
            v = writes[0][1]
            ok = v.kind == 'bin' and v.name == 'Add' and v.args[0].kind == 'place' and v.args[0].fields == (
                'track_length',) and v.args[1].kind == 'const' and v.args[1].const.get('v') == '1'
            r = count_on_paths(ub, 0, ub.returns(), [writes[0][0]])
            ok = ok and r == (1, 1)
        ctx.check(ok, R, ub, kind + ':track_length+=1', repr([w[1] for w in writes]),
                  'update_history does not increment track_length by exactly 1 per attached detection (writes: %s)' %
                  [repr(w[1]) for w in writes])
    return n


def rule_idle_lookup(ctx, R):
    n = 0
    for kind, path in (('sort', '<trackers::sort::SortLookup as track::LookupRequest>::lookup'),
                       ('visual', '<trackers::visual_sort::track_attributes::VisualSortLookup as track::LookupRequest>::lookup')):
        b = ctx.anchor(R, path)
        if b is None:
            continue
        defs = [d for d in result_assignments(b) if not (d[1] == 'const' and d[2] is False)]
        scene_ok = epoch_ok = bool(defs)
        detail = ''
        for bb, knd, payload in defs:
            cmps = [c.cmp() for c in path_conditions(b, bb) if c.cmp()]
            if knd == 'expr':
                cm = as_cmp(payload, True)
                if cm:
                    cmps.append(cm)
            s_ok = e_ok = False
            for op, a, b_ in cmps:
                fa, fb = a.strip(), b_.strip()
                if op == 'Eq' and (fa.has_field('scene_id') != fb.has_field('scene_id')) and (
                        fa.has_field('IdleLookup') or fb.has_field('IdleLookup') or fa.has_field('0') or fb.has_field(
                            '0')):
                    s_ok = True
                if op == 'Ne' and (fa.has_field('last_updated_epoch') or fb.has_field('last_updated_epoch')):
                    cur = fb if fa.has_field('last_updated_epoch') else fa
                    cc = cur.calls('current_epoch_with_scene')
                    detail = repr(cur)
                    if cc and cc[0].args[1].strip().has_field('scene_id') and any(
                            p.root == ('param', 2) for p in cc[0].args[1].places()):
                        e_ok = True
            scene_ok = scene_ok and s_ok
            epoch_ok = epoch_ok and e_ok
        n += 2
        ctx.check(scene_ok, R, b, kind + ':idle-lookup-same-scene', '', 'the idle lookup can match a track of another '
                  'scene (no `scene == attributes.scene_id` requirement on a true result)')
        ctx.check(epoch_ok, R, b, kind + ':idle-lookup-not-updated-in-current-epoch-of-its-scene', detail[:120],
                  "the idle lookup does not compare last_updated_epoch with the current epoch of the track's own "
                  'scene (%s)' % detail[:200])
    return n


def rule_batch_request(ctx, R):
    """PredictionBatchRequest::add files a detection under ITS scene: the list that receives the element is the entry of
    the scene parameter in a keyed container (map get_mut / entry / a search over all entries comparing the scene id),
    and a new entry is created under that same key.  An entry chosen by position (`last_mut()`, an index) gives one
    scene several entries when scenes are added interleaved - the scene's epoch then advances once per entry and its
    detections are voted on by independent jobs."""
    from lib import deep_calls
    b = ctx.anchor(R, 'trackers::batch::PredictionBatchRequest::add')
    if b is None:
        return 0
    n = 0
    pushes = deep_calls(ctx.F, b, 'push', 'push_back', 'extend', 'or_insert_with', 'or_insert', 'or_default', 'insert')
    POS = ('last_mut', 'last', 'first', 'first_mut', 'pop', 'iter_mut', 'iter')
    keyed = positional = 0
    for owner, c in pushes:
        eb = ExprBuilder(owner)
        recv = eb.arg(c, 0)
        if not recv.has_place(root=('param', 1)):
            continue
        if c.name == 'insert':
            k = eb.arg(c, 1).strip() if len(c.args) > 2 else None
            if k is not None and 'Map' in c.callee:
                n += 1
                ctx.check(k.kind == 'place' and k.root == ('param', 2), R, b, 'batch.add:new-entry-keyed-by-scene', repr(k),
                          'a new per-scene entry is inserted under %r, not under the scene id parameter' % k, c.ln)
                keyed += 1
            elif 'Vacant' in c.callee or any(y.kind == 'call' and y.name.rsplit('::', 1)[-1] == 'entry' for y in recv.walk()):
                # `match map.entry(scene) { Vacant(v) => v.insert(vec![elt]) }`: the new entry is keyed by the entry() call
                ek = [y.args[1].strip() for y in recv.walk() if y.kind == 'call' and y.name.rsplit('::', 1)[-1] == 'entry'
                      and len(y.args) > 1]
                n += 1
                ctx.check(bool(ek) and all(k_.kind == 'place' and k_.root == ('param', 2) for k_ in ek), R, b,
                          'batch.add:new-entry-keyed-by-scene', repr(ek[:1]),
                          'a new per-scene entry is inserted through entry(%s), not under the scene id parameter' % ek[:1], c.ln)
                keyed += 1
            continue
        calls = [y for y in recv.walk() if y.kind == 'call']
        bykey = [y for y in calls if y.name.rsplit('::', 1)[-1] in ('get_mut', 'entry', 'get', 'find', 'find_map', 'position')
                 and any(a.has_place(root=('param', 2)) or (a.kind == 'agg' and a.name.startswith('closure')) for a in y.args[1:])]
        bypos = [y.name.rsplit('::', 1)[-1] for y in calls if y.name.rsplit('::', 1)[-1] in POS and not bykey]
        n += 1
        ctx.read(b)
        ctx.check(bool(bykey) and not bypos, R, b, 'batch.add:entry-selected-by-scene-id', repr(recv)[:100],
                  'PredictionBatchRequest::add appends the element to %r: the entry is not looked up by the scene id over the '
                  'whole batch (%s) - a scene added in two separate runs gets two entries, two epochs and two voting jobs'
                  % (recv, ', '.join(bypos) or 'no keyed lookup'), c.ln)
        keyed += bool(bykey)
    return n


def rule_epochs_never_forgotten(ctx, R):
    """the per-scene epoch counters only grow: nothing removes, retains, drains or clears entries of the epoch map (an
    evicted scene restarts at epoch 1: its tracks look fresh again, its records repeat epochs)"""
    n = 0
    bad = []
    for b in ctx.F.all_bodies():
        if b.d.get('expn') or b.npath.startswith('examples') or '::tests::' in b.npath:
            continue
        for c in b.find_calls():
            if c.name in ('remove', 'remove_entry', 'retain', 'clear', 'drain', 'extract_if', 'pop_first', 'pop_last') and \
                    'HashMap' in c.callee and c.args and c.args[0].get('k') in ('copy', 'move'):
                ty = b.locals[c.args[0]['pl']['l']].replace('std::collections::', '')
                if 'HashMap<u64, usize>' in ty.replace(' ', '').replace('HashMap<u64,usize>', 'HashMap<u64, usize>'):
                    e = ExprBuilder(b).arg(c, 0)
                    if any(y.kind == 'call' and y.name.rsplit('::', 1)[-1] in ('epoch_store', 'epoch_db') for y in e.walk()) or \
                            e.has_field('epoch_db') or e.has_field('epoch_store'):
                        bad.append((b, c))
    n += 1
    api = ctx.anchor(R, 'trackers::epoch_db::EpochDb::next_epoch')
    ctx.check(not bad, R, api or 'trackers::epoch_db::EpochDb', 'epoch-map-only-grows', '',
              'entries of the per-scene epoch map are removed (%s): a scene whose counter is dropped restarts at epoch 1' % [
                  '%s in %s' % (c.name, b.npath.rsplit('::', 1)[-1]) for b, c in bad], bad[0][1].ln if bad else '')
    return n


EPOCH_WRITERS = ('EpochDb::next_epoch', 'EpochDb::skip_epochs_for_scene')


def rule_epoch_writers(ctx, R):
    """who-may-write: the per-scene epoch counters are advanced only by next_epoch (one scene: the scene of the call, by
    one) and skip_epochs_for_scene (one scene, by the requested amount) - the two functions R*.epoch-arithmetic judges.
    Any other function that takes the WRITE lock of the epoch store can move the clock of a scene that was not submitted
    (an 'empty frame tick' for the scenes absent from a batch makes the epochs of a scene depend on other scenes)."""
    n = 0
    found = []
    for b in ctx.F.all_bodies():
        if b.d.get('expn') or b.npath.startswith('examples') or '::tests::' in b.npath:
            continue
        for c in b.find_calls():
            if c.name != 'write' or 'RwLock' not in c.callee or not c.args:
                continue
            e = ExprBuilder(b).arg(c, 0)
            from lib import subst_upvars
            if b.kind == 'Closure':
                e = subst_upvars(ctx.F, b, e)
            if any(y.kind == 'call' and y.name.rsplit('::', 1)[-1] in ('epoch_store', 'epoch_db') for y in e.walk()) or \
                    e.has_field('epoch_db') or e.has_field('epoch_store'):
                # ... and writes through it: stores through a reference into the map, or inserts
                writes = bool(_deref_assignments(b)) or any(
                    c2.name in ('insert', 'entry', 'extend', 'try_insert') and 'HashMap' in c2.callee for c2 in b.find_calls())
                if not writes:
                    for cb in all_closures(ctx.F, b):
                        writes = writes or bool(_deref_assignments(cb))
                if writes:
                    found.append((b, c))
    owners = [(b, c) for b, c in found if any(w in b.npath for w in EPOCH_WRITERS)]
    for b, c in found:
        n += 1
        ok = (b, c) in owners
        ctx.read(b)
        ctx.check(ok, R, b, 'epoch-store-write-lock:%s' % b.npath.rsplit('::', 1)[-1], 'owner' if ok else '',
                  '%s takes the write lock of the per-scene epoch store but is not one of its owners %s: the epoch of a '
                  'scene then moves without a submission for that scene (its epochs, expiry and track lengths depend on '
                  'what happens in other scenes)' % (b.npath, list(EPOCH_WRITERS)), c.ln)
    if not owners:
        ctx.fail(R, EPOCH, 'ANCHOR-MISSING:epoch-writers', 'neither next_epoch nor skip_epochs_for_scene takes the write lock '
                 'of the epoch store any more: who-may-write row cannot be evaluated')
    return n


def rule_status_reads_own_scene(ctx, R):
    """EpochDb::baked (the status of a track) consults the epoch map for the scene of the track only: `get(&scene_id)`.
    Any other read of the map (values / iter / keys / max over all scenes) makes the status - expiry, and with it track
    lengths and ids - of one scene depend on the clock of another scene."""
    n = 0
    b = ctx.anchor(R, EPOCH + '::baked')
    if b is None:
        return 0
    import wiring
    pn = {v: k for k, v in wiring.param_names(b).items()}
    sc = pn.get('scene_id', 2)
    bad = []
    reads = 0
    for hb in [b] + all_closures(ctx.F, b):
        eb = ExprBuilder(hb)
        for c in hb.find_calls():
            if 'HashMap' not in c.callee and 'hash::map' not in c.callee and 'hash_map' not in c.callee:
                continue
            if c.name in ('get', 'contains_key', 'get_key_value') and len(c.args) >= 2:
                k = eb.arg(c, 1).strip()
                reads += 1
                if not (k.kind == 'place' and k.root == ('param', sc) and hb is b):
                    bad.append((c, 'lookup under %r' % k))
            elif c.name in ('values', 'iter', 'keys', 'into_iter', 'len', 'values_mut', 'iter_mut', 'drain', 'into_values',
                            'into_keys', 'is_empty'):
                bad.append((c, c.name + '()'))
    n += 1
    ctx.read(b)
    ctx.check(reads >= 1 and not bad, R, b, 'status-reads-the-epoch-of-its-own-scene-only', '%d keyed lookup(s)' % reads,
              'EpochDb::baked reads the epoch map through %s: the status of a track (expiry, hence lengths and ids) of one '
              'scene depends on the epochs of other scenes' % ([w for _c, w in bad] or 'no keyed lookup'),
              bad[0][0].ln if bad else '')
    return n
