"""Rule primitives built on mir.py: symbolic expressions (P1), path conditions (P2/P5),
must-pass-through counting (P4), comparator direction (P3), helpers for closures."""
from collections import defaultdict

from mir import (CMP_CALLS, CMP_OPS, FLIP, NEG, TRANSPARENT, Call, fields_of, fmt_const, norm, proj_key, proj_name)

# ---------------------------------------------------------------------------
# symbolic expressions


class E:
    """symbolic expression node.
    kind: 'place' (root param/upvar/local + field names), 'const', 'call', 'bin', 'un', 'agg', 'cast', 'discr',
          'phi', 'ref?' never (refs are looked through), 'unknown'"""
    __slots__ = ('kind', 'name', 'args', 'root', 'fields', 'const', 'site', 'extra', 'proj')

    def __init__(self, kind, name=None, args=(), root=None, fields=(), const=None, site=None, extra=None, proj=()):
        self.kind = kind
        self.name = name
        self.args = list(args)
        self.root = root
        self.fields = tuple(fields)
        self.const = const
        self.site = site
        self.extra = extra
        self.proj = tuple(proj)   # projection applied on a call/agg result that could not be resolved

    def __repr__(self):
        k = self.kind
        sfx = ('.' + '.'.join(self.proj)) if self.proj else ''
        if k == 'place':
            r = '%s%s' % (self.root[0][0] if self.root[0] != 'local' else '_', self.root[1])
            return r + ''.join('.' + f for f in self.fields)
        if k == 'const':
            return fmt_const(self.const).replace('const ', '') + ''.join(self.proj)
        if k == 'call':
            return '%s(%s)%s' % (self.name.rsplit('::', 1)[-1], ', '.join(map(repr, self.args)), sfx)
        if k in ('bin', 'un'):
            return '%s(%s)' % (self.name, ', '.join(map(repr, self.args)))
        if k == 'agg':
            return '%s{%s}%s' % (self.name, ', '.join(map(repr, self.args)), sfx)
        if k == 'cast':
            return '(%r as %s)' % (self.args[0], self.name)
        if k == 'discr':
            return 'discr(%r)' % self.args[0]
        if k == 'phi':
            return 'phi(%s)' % ' | '.join(map(repr, self.args))
        return '?%s' % (self.name or '')

    # -- queries
    def walk(self):
        yield self
        for a in self.args:
            if isinstance(a, E):
                yield from a.walk()

    def find(self, pred):
        return [e for e in self.walk() if pred(e)]

    def has_call(self, *names):
        return bool(self.calls(*names))

    def calls(self, *names):
        out = []
        for e in self.walk():
            if e.kind == 'call':
                for n in names:
                    if e.name == n or e.name.endswith('::' + n):
                        out.append(e)
                        break
        return out

    def places(self):
        return [e for e in self.walk() if e.kind == 'place']

    def has_place(self, root=None, field=None, fields=None):
        for e in self.places():
            if root is not None and e.root != root:
                continue
            if field is not None and field not in e.fields:
                continue
            if fields is not None and tuple(e.fields[-len(fields):]) != tuple(fields):
                continue
            return True
        return False

    def has_field(self, name):
        """some node reads a field / payload named `name` (place fields or projections on call/agg results)"""
        for e in self.walk():
            if e.kind == 'place' and name in e.fields:
                return True
            if e.kind in ('call', 'agg') and name in e.proj:
                return True
        return False

    def consts(self):
        return [e for e in self.walk() if e.kind == 'const']

    def const_value(self):
        if self.kind == 'const':
            return self.const.get('v')
        return None

    def strip(self):
        """look through value-preserving wrappers (clone/unwrap/deref/... and numeric casts)"""
        e = self
        while True:
            if e.kind == 'call' and e.name.rsplit('::', 1)[-1] in TRANSPARENT and e.args:
                e = e.args[0]
            elif e.kind == 'cast' and e.args:
                e = e.args[0]
            else:
                return e


class ExprBuilder:
    """builds symbolic expressions. Top-level lookups without `at` are flow-insensitive (all definitions of the
    local); every nested lookup is flow-sensitive: it uses the definitions that reach the site of the definition it
    is expanding (reaching definitions over the normal-edge CFG, field-wise writes included)."""

    PURE_VIEW = ('deref', 'deref_mut', 'as_ref', 'as_mut', 'borrow', 'borrow_mut')

    def __init__(self, body, depth=60):
        self.body = body
        self.depth = depth
        self.memo = {}
        self._reach = {}

    # ---- reaching definitions
    def reaching(self, local, point):
        """definitions of `local` reaching `point`=(bb, si) (before statement si; si=len -> before the terminator).
        Returns list of ('assign', bb, si, stmt) | ('call', bb, Call) | ('entry',)"""
        key = (local, point)
        r = self._reach.get(key)
        if r is not None:
            return r
        body = self.body
        blocks = body.blocks
        pred = body.pred()
        res = []
        seen_defs = set()
        visited = set()
        stack = [point]
        while stack:
            b, i = stack.pop()
            st = blocks[b]['st']
            killed = False
            for j in range(min(i, len(st)) - 1, -1, -1):
                s = st[j]
                if s['k'] == 'assign' and s['lhs']['l'] == local:
                    if (b, j) not in seen_defs:
                        seen_defs.add((b, j))
                        res.append(('assign', b, j, s))
                    if not s['lhs']['p']:
                        killed = True
                        break
                elif s['k'] == 'dead' and s['l'] == local:
                    killed = True
                    break
            if killed:
                continue
            if b == 0 and ('entry',) not in res:
                res.append(('entry',))
            for p in pred[b]:
                t = blocks[p]['t']
                if t['k'] == 'call' and t['dest']['l'] == local and t['target'] == b:
                    if (p, 'term') not in seen_defs:
                        seen_defs.add((p, 'term'))
                        res.append(('call', p, body.call_at(p)))
                    if not t['dest']['p']:
                        continue
                if p not in visited:
                    visited.add(p)
                    stack.append((p, len(blocks[p]['st'])))
        self._reach[key] = res
        return res

    def all_defs(self, local):
        body = self.body
        res = []
        for dd in body.defs().get(local, []):
            res.append(dd if dd[0] == 'assign' else ('call', dd[1], dd[2]))
        for dd in body.defs().get((local, 'proj'), []):
            res.append(dd if dd[0] == 'assign' else ('call', dd[1], dd[2]))
        if 1 <= local <= body.nargs or not res:
            res.append(('entry',))
        return res

    # ---- public entry points
    def operand(self, op, proj=(), d=0, at=None):
        if op['k'] in ('copy', 'move'):
            pl = op['pl']
            return self.place(pl['l'], tuple(proj_key(p) for p in pl['p']) + tuple(proj), d, at)
        if op['k'] == 'const':
            if proj:
                names = []
                for p in proj:
                    if p == '*':
                        continue
                    if isinstance(p, tuple) and p[0] == 'idxv':
                        names.append('[%s]' % p[1])
                    else:
                        names.append(proj_name(p))
                return E('const', const=op['c'], proj=names)
            return E('const', const=op['c'])
        return E('unknown', name=op['k'])

    def of_place(self, pl, d=0, at=None):
        return self.place(pl['l'], tuple(proj_key(p) for p in pl['p']), d, at)

    def arg(self, call, i):
        """expression of the i-th argument of a call, evaluated at the call site"""
        r = self.operand(call.args[i], at=(call.bb, len(self.body.blocks[call.bb]['st'])))
        return self._simplify(r)

    def _simplify(self, r):
        # values flowing through `Option::map(|x| expr)` read like the equivalent match (see apply_simple_closures)
        if r is not None and getattr(self.body, 'facts', None) is not None and 'closure:' in repr(r) and \
                ('::map(' in _names(r) or '::and_then(' in _names(r)):
            try:
                return apply_simple_closures(self.body.facts, r)
            except RecursionError:
                return r
        return r

    def _resolve_indices(self, proj, d, at):
        if not any(isinstance(p, tuple) and p[0] == 'idx' and len(p) > 1 for p in proj):
            return proj
        out = []
        for p in proj:
            if isinstance(p, tuple) and p[0] == 'idx' and len(p) > 1:
                ie = self.place(p[1], (), d + 1, at)
                v = ie.const_value() if ie.kind == 'const' else None
                out.append(('idxv', v if v is not None else repr(ie)))
            else:
                out.append(p)
        return tuple(out)

    def place(self, local, proj, d=0, at=None):
        proj = self._resolve_indices(proj, d, at)
        # a loop-carried slice that is re-bound to its own tail (`while let [head, tail @ ..] = rest { rest = tail }`):
        # the tail of a tail is a tail — collapsing the repetition lets the cycle be recognised instead of unrolled
        if sum(1 for p_ in proj if isinstance(p_, tuple) and p_ and p_[0] == 'sub') > 1:
            out_, seen_sub = [], False
            for p_ in proj:
                if isinstance(p_, tuple) and p_ and p_[0] == 'sub':
                    if seen_sub:
                        continue
                    seen_sub = True
                out_.append(p_)
            proj = tuple(out_)
        key = (local, proj, at)
        if key in self.memo:
            return self.memo[key]
        if d > self.depth:
            return E('unknown', name='depth')
        self.memo[key] = E('unknown', name='cycle')
        r = self._place(local, proj, d, at)
        self.memo[key] = r
        return r

    def _root(self, local, proj):
        body = self.body
        if body.kind == 'Closure' and local == 1:
            p = [x for x in proj if x != '*']
            if p and p[0][0] == 'upvar':
                return E('place', root=('upvar', p[0][1]), fields=fields_of(p[1:]))
        if 1 <= local <= body.nargs:
            return E('place', root=('param', local), fields=fields_of(proj))
        return E('place', root=('local', local), fields=fields_of(proj))

    def _place(self, local, proj, d, at):
        body = self.body
        defs = self.reaching(local, at) if at is not None else self.all_defs(local)
        results = []
        for dd in defs:
            if dd[0] == 'entry':
                if 1 <= local <= body.nargs or len(defs) == 1:
                    results.append(self._root(local, proj))
                continue
            if dd[0] == 'assign':
                s = dd[3]
                lp = tuple(proj_key(p) for p in s['lhs']['p'])
                if lp:
                    if proj[:len(lp)] != lp:
                        continue
                    r_ = self._rvalue(s['rv'], proj[len(lp):], d, (dd[1], dd[2]))
                else:
                    r_ = self._rvalue(s['rv'], proj, d, (dd[1], dd[2]))
                if r_ is not None and r_.kind == 'const' and r_.site is None:
                    r_ = E('const', const=r_.const, proj=r_.proj, site=(dd[1], dd[2]))
                results.append(r_)
            else:
                c = dd[2]
                lp = tuple(proj_key(p) for p in c.dest['p'])
                if lp and proj[:len(lp)] != lp:
                    continue
                results.append(self._call(c, proj[len(lp):], d))
        results = [r for r in results if r is not None]
        # drop exact duplicates (constants remember every block that assigns them: needed to unfold `a || b`)
        uniq = []
        seen = {}
        for r in results:
            k = repr(r)
            if k not in seen:
                seen[k] = r
                uniq.append(r)
            elif r.kind == 'const' and r.site is not None and seen[k].kind == 'const':
                first = seen[k]
                if not isinstance(first.extra, dict):
                    first.extra = {'sites': [first.site] if first.site else []}
                first.extra['sites'].append(r.site)
        results = uniq
        if not results:
            return self._root(local, proj)
        if len(results) == 1:
            return results[0]
        return E('phi', args=results)

    def _rvalue(self, rv, proj, d, site):
        k = rv['k']
        at = (site[0], site[1]) if site and site[1] != 'term' else None
        if k == 'use':
            return self.operand(rv['op'], proj, d + 1, at)
        if k in ('ref', 'rawptr'):
            p = list(proj)
            if p and p[0] == '*':
                p = p[1:]
            pl = rv['pl']
            return self.place(pl['l'], tuple(proj_key(x) for x in pl['p']) + tuple(p), d + 1, at)
        if k == 'cast':
            if rv['ck'] == 'Transmute':
                return E('cast', name='transmute:' + rv['ty'], args=[self.operand(rv['op'], (), d + 1, at)], site=site,
                         extra=rv)
            if rv['ck'].startswith('PointerCoercion') or rv['ck'] in ('PtrToPtr', 'Subtype'):
                return self.operand(rv['op'], proj, d + 1, at)
            inner_ = self.operand(rv['op'], (), d + 1, at)
            if inner_.kind == 'const' and not inner_.proj and rv.get('ck') == 'IntToInt' and \
                    str(inner_.const.get('v', '')).lstrip('-').isdigit() and not str(inner_.const.get('v')).startswith('-') \
                    and 'item' not in inner_.const:
                # an integer literal cast to another integer type is that literal
                return E('const', const={'ty': rv['ty'], 'v': str(inner_.const['v'])}, site=site)
            return E('cast', name=rv['ty'], args=[inner_], site=site, extra=rv)
        if k == 'bin':
            if rv['op'].endswith('WithOverflow'):
                p = [x for x in proj if x != '*']
                if p and p[0] == ('t', 1):
                    return E('unknown', name='overflow-flag', site=site)
                return E('bin', name=rv['op'][:-len('WithOverflow')],
                         args=[self.operand(rv['a'], (), d + 1, at), self.operand(rv['b'], (), d + 1, at)], site=site)
            return E('bin', name=rv['op'], args=[self.operand(rv['a'], (), d + 1, at),
                                                 self.operand(rv['b'], (), d + 1, at)], site=site)
        if k == 'un':
            return E('un', name=rv['op'], args=[self.operand(rv['a'], (), d + 1, at)], site=site)
        if k == 'discr':
            pl = rv['pl']
            inner = self.place(pl['l'], tuple(proj_key(x) for x in pl['p']), d + 1, at)
            # the discriminant of a value that is visibly one field-less variant (`Component::Height as usize`) is a
            # constant: the variant's discriminant value
            s_ = inner.strip() if inner.kind in ('call', 'cast') else inner
            if s_.kind == 'agg' and not s_.args and rv.get('variants'):
                leaf = s_.name.rsplit('::', 1)[-1]
                vals = [v for v, n_ in rv['variants'] if n_ == leaf]
                if len(vals) == 1:
                    return E('const', const={'ty': 'isize', 'v': str(vals[0])}, site=site)
            return E('discr', args=[inner], site=site, extra=rv)
        if k == 'agg':
            p = list(proj)
            while p and p[0] == '*':
                p = p[1:]
            if p and rv['ak'] == 'adt' and p[0][0] == 'dc':
                if p[0][1] == rv['v']:
                    p = p[1:]
                else:
                    return None
            if p and rv['ak'] == 'adt' and p[0][0] == 'f':
                if p[0][3] != rv['v']:
                    return None
                if p[0][1] in rv['fields']:
                    return self.operand(rv['ops'][rv['fields'].index(p[0][1])], tuple(p[1:]), d + 1, at)
            if p and rv['ak'] in ('tuple', 'array') and p[0][0] == 't' and p[0][1] < len(rv['ops']):
                return self.operand(rv['ops'][p[0][1]], tuple(p[1:]), d + 1, at)
            if p and rv['ak'] == 'closure' and p[0][0] == 'upvar' and p[0][1] < len(rv['ops']):
                return self.operand(rv['ops'][p[0][1]], tuple(p[1:]), d + 1, at)
            if rv['ak'] == 'adt':
                nm = norm(rv['adt']) + '::' + rv['v']
            elif rv['ak'] == 'closure':
                nm = 'closure:' + norm(rv['def'])
            else:
                nm = rv['ak']
            return E('agg', name=nm, args=[self.operand(o, (), d + 1, at) for o in rv['ops']], site=site, extra=rv,
                     proj=fields_of(p))
        if k == 'repeat':
            # [x; N]: every element is x
            p = [x for x in proj if x != '*']
            if p and p[0][0] in ('t', 'idx', 'idxv', 'cidx'):
                return self.operand(rv['op'], tuple(p[1:]), d + 1, at)
            return E('agg', name='array', args=[self.operand(rv['op'], (), d + 1, at)], site=site, extra=rv,
                     proj=fields_of(p))
        return E('unknown', name=k, site=site)

    def _call(self, c, proj, d):
        at = (c.bb, len(self.body.blocks[c.bb]['st']))
        if proj and c.name in self.PURE_VIEW and len(c.args) == 1 and any(p != '*' for p in proj):
            # (*x.deref()).f  ==  x.f
            return self.operand(c.args[0], proj, d + 1, at)
        return E('call', name=c.callee or '<indirect>', args=[self.operand(a, (), d + 1, at) for a in c.args],
                 site=(c.bb, 'term'), extra=c, proj=fields_of(proj))


def _names(e):
    return ' '.join(x.name + '(' for x in e.walk() if x.kind == 'call' and x.name and
                    ('ption::' in x.name or 'esult::' in x.name))


def expr_of(body, op_or_place):
    b = ExprBuilder(body)
    if 'l' in op_or_place:
        return b.of_place(op_or_place)
    return b.operand(op_or_place)


# ---------------------------------------------------------------------------
# path conditions


def reachable_without_edge(body, edge, target, start=0):
    """is `target` reachable from `start` on normal edges when CFG edge (x -> t) is removed"""
    x, t = edge
    succ = body.succ()
    seen = set()
    st = [start]
    while st:
        n = st.pop()
        if n in seen:
            continue
        seen.add(n)
        if n == target:
            return True
        for s in succ[n]:
            if n == x and s == t:
                continue
            if s not in seen:
                st.append(s)
    return False


def necessary_edges(body, target, start=0):
    """switch edges (x, t) such that every normal path start -> target takes x -> t"""
    out = []
    if target not in body.reach_from(start):
        return out
    for x in sorted(body.reach_from(start)):
        t = body.blocks[x]['t']
        if t['k'] != 'switch':
            continue
        tgts = set(tg for _, tg in body.switch_edges(x))
        if len(tgts) < 2:
            continue
        for tg in tgts:
            if x == target and False:
                continue
            if not reachable_without_edge(body, (x, tg), target, start):
                out.append((x, tg))
    return out


class Cond:
    """interpretation of one taken switch edge"""

    def __init__(self, body, x, t):
        self.body = body
        self.x = x
        self.t = t
        self.kind = 'int'
        self.values = None        # values taken on this edge (None = otherwise)
        self.excluded = None
        self.expr = None          # E of the discriminant (for bool: the condition expression)
        self.truth = None         # for bool conditions
        self.variants = None      # for enum discriminants: set of variant names on this edge
        self.ln = body.blocks[x]['t'].get('ln', '')
        self._interpret()

    def _interpret(self):
        body = self.body
        term = body.blocks[self.x]['t']
        vals = [v for v, tg in term['targets'] if tg == self.t]
        other = term['otherwise'] == self.t
        allvals = [v for v, _ in term['targets']]
        eb = ExprBuilder(body)
        e = eb.operand(term['discr'])
        self.expr = e
        if term['ty'] == 'bool':
            self.kind = 'bool'
            if other and not vals:
                self.truth = True if allvals == ['0'] else (False if allvals == ['1'] else None)
            elif vals == ['0'] and not other:
                self.truth = False
            elif vals == ['1'] and not other:
                self.truth = True
            # look through Not
            while e.kind == 'un' and e.name == 'Not' and self.truth is not None:
                e = e.args[0]
                self.truth = not self.truth
            self.expr = e
        elif e.kind == 'discr':
            self.kind = 'discr'
            names = dict((v, n) for v, n in e.extra['variants'])
            allnames = set(names.values())
            taken = set(names.get(v, v) for v in vals)
            if other:
                # otherwise edge: all variants not listed explicitly (unreachable otherwise arms included)
                taken |= allnames - set(names.get(v, v) for v in allvals)
            self.variants = taken
            self.expr = e.args[0]
            self.enum_ty = e.extra['ty']
        else:
            self.values = vals
            self.excluded = allvals if other else None

    def cmp(self):
        """for bool conditions: normalised comparison (op, a:E, b:E) that HOLDS on this edge, or None"""
        if self.kind != 'bool' or self.truth is None:
            return None
        return as_cmp(self.expr, self.truth)

    def __repr__(self):
        if self.kind == 'bool':
            return '%s%r' % ('' if self.truth else '!', self.expr)
        if self.kind == 'discr':
            return '%r is %s' % (self.expr, '|'.join(sorted(self.variants)))
        return '%r in %s' % (self.expr, self.values if self.values else 'not %s' % self.excluded)


def as_cmp(e, truth=True):
    """E -> (op, a, b) holding when e == truth; handles BinaryOp and PartialOrd/PartialEq calls"""
    while e.kind == 'un' and e.name == 'Not':
        e = e.args[0]
        truth = not truth
    op = None
    if e.kind == 'bin' and e.name in CMP_OPS:
        op = e.name
    elif e.kind == 'call' and e.name.rsplit('::', 1)[-1] in CMP_CALLS and len(e.args) == 2 and (
            'PartialOrd' in e.name or 'PartialEq' in e.name or 'cmp::' in e.name):
        op = CMP_CALLS[e.name.rsplit('::', 1)[-1]]
    if op is None:
        return None
    if not truth:
        op = NEG[op]
    return (op, e.args[0], e.args[1])


def path_conditions(body, target, start=0):
    return [Cond(body, x, t) for x, t in necessary_edges(body, target, start)]


def orient(cmp, pred_a):
    """return (op, a, b) flipped so that pred_a(a) holds, or None"""
    if cmp is None:
        return None
    op, a, b = cmp
    if pred_a(a):
        return (op, a, b)
    if pred_a(b):
        return (FLIP[op], b, a)
    return None


# ---------------------------------------------------------------------------
# result analysis for bool-returning bodies


def result_assignments(body, local=0, _seen=None):
    """[(bb, kind, payload)] sites where the (bool) result gets a value; the block is always the block of the
    assignment to the result place (its path conditions are the ones that matter):
       kind 'const' (payload bool) | 'expr' (payload E, copies resolved flow-sensitively)"""
    out = []
    live = body.live_blocks()
    eb = ExprBuilder(body)
    for d in body.defs().get(local, []):
        if d[1] not in live:
            continue
        if d[0] == 'assign':
            rv = d[3]['rv']
            if rv['k'] == 'use' and rv['op']['k'] == 'const':
                out.append((d[1], 'const', rv['op']['c'].get('v')))
                continue
            e = eb._rvalue(rv, (), 0, (d[1], d[2]))
            alts = e.args if e.kind == 'phi' else [e]
            for a in alts:
                if a.kind == 'const' and isinstance(a.const.get('v'), bool):
                    out.append((d[1], 'const', a.const.get('v')))
                else:
                    out.append((d[1], 'expr', a))
        else:
            out.append((d[1], 'expr', eb._call(d[2], (), 0)))
    return out


def true_requirements(body):
    """Conditions that necessarily hold whenever a bool-returning body returns true.
    Returns (list of facts, complete) where a fact is ('cmp', op, a, b, ln) | ('cond', Cond) | ('expr', E, truth)"""
    per_def = []
    for bb, kind, payload in result_assignments(body):
        if kind == 'const' and payload is False:
            continue
        facts = []
        for c in path_conditions(body, bb):
            facts.append(c)
        own = None
        if kind == 'expr':
            own = payload
        per_def.append((bb, facts, own))
    return per_def


# ---------------------------------------------------------------------------
# counting / must-pass-through (P4)


def blocks_with_call(body, *names, pred=None):
    return [c.bb for c in body.find_calls(*names, pred=pred)]


def every_path_passes(body, start, end, through):
    """every normal path start -> end passes one of the blocks in `through` (end excluded unless listed)"""
    through = set(through)
    if start in through:
        return True
    succ = body.succ()
    seen = set()
    st = [start]
    while st:
        n = st.pop()
        if n in seen:
            continue
        seen.add(n)
        if n == end:
            return False
        for s in succ[n]:
            if s in through:
                continue
            if s not in seen:
                st.append(s)
    return True


def count_on_paths(body, start, ends, marks, limit=64):
    """min and max number of marked blocks on normal acyclic-in-the-limit paths from start to any of ends.
    Loops: a marked block inside a cycle reachable on such a path yields max=inf (limit)."""
    marks = set(marks)
    ends = set(ends)
    _succ = body.succ()
    # end nodes are terminal: paths stop at the first end they reach
    succ = [([] if (i in ends and i != start) else ss) for i, ss in enumerate(_succ)]
    # nodes that can reach an end
    reach_end = set()
    pred = [[] for _ in range(body.n)]
    for i, ss in enumerate(succ):
        for x in ss:
            pred[x].append(i)
    st = list(ends)
    while st:
        x = st.pop()
        if x in reach_end:
            continue
        reach_end.add(x)
        for p in pred[x]:
            st.append(p)
    fwd = set()
    st = [start]
    while st:
        x = st.pop()
        if x in fwd:
            continue
        fwd.add(x)
        st.extend(succ[x])
    nodes = fwd & reach_end
    # SCC condensation for max with cycles
    index = {}
    low = {}
    onst = set()
    stack = []
    sccs = []
    counter = [0]

    def strong(v):
        work = [(v, iter([s for s in succ[v] if s in nodes]))]
        index[v] = low[v] = counter[0]
        counter[0] += 1
        stack.append(v)
        onst.add(v)
        while work:
            node, it = work[-1]
            adv = False
            for w in it:
                if w not in index:
                    index[w] = low[w] = counter[0]
                    counter[0] += 1
                    stack.append(w)
                    onst.add(w)
                    work.append((w, iter([s for s in succ[w] if s in nodes])))
                    adv = True
                    break
                elif w in onst:
                    low[node] = min(low[node], index[w])
            if not adv:
                work.pop()
                if work:
                    low[work[-1][0]] = min(low[work[-1][0]], low[node])
                if low[node] == index[node]:
                    comp = set()
                    while True:
                        w = stack.pop()
                        onst.discard(w)
                        comp.add(w)
                        if w == node:
                            break
                    sccs.append(comp)

    for v in sorted(nodes):
        if v not in index:
            strong(v)
    comp_of = {}
    for i, c in enumerate(sccs):
        for v in c:
            comp_of[v] = i
    cyclic = {}
    for i, c in enumerate(sccs):
        cyclic[i] = len(c) > 1 or any(v in succ[v] for v in c)
    INF = limit
    # weights: min: in a cyclic scc marks may be skipped? conservatively min counts marks only if the scc is a single
    # acyclic node; max: marks in a cyclic scc -> INF
    wmin = {}
    wmax = {}
    for i, c in enumerate(sccs):
        m = len(c & marks)
        if cyclic[i]:
            wmax[i] = INF if m else 0
            wmin[i] = 0
        else:
            wmax[i] = wmin[i] = m
    # DAG DP (sccs are in reverse topological order from Tarjan)
    best_min = {}
    best_max = {}
    for i, c in enumerate(sccs):
        is_end = bool(c & ends)
        nxt = set()
        for v in c:
            for s in succ[v]:
                if s in nodes and comp_of[s] != i:
                    nxt.add(comp_of[s])
        mins = [best_min[j] for j in nxt if j in best_min]
        maxs = [best_max[j] for j in nxt if j in best_max]
        if is_end:
            mins.append(0)
            maxs.append(0)
        if not mins:
            continue
        best_min[i] = wmin[i] + min(mins)
        best_max[i] = min(INF, wmax[i] + max(maxs))
    if start not in comp_of or comp_of[start] not in best_min:
        return None
    return best_min[comp_of[start]], best_max[comp_of[start]]


# ---------------------------------------------------------------------------
# closures


def closure_aggregates(body):
    """[(bb, si, defpath, ops)] closure constructions in a body"""
    out = []
    for i in sorted(body.live_blocks()):
        for si, s in enumerate(body.blocks[i]['st']):
            if s['k'] == 'assign' and s['rv']['k'] == 'agg' and s['rv']['ak'] == 'closure':
                out.append((i, si, norm(s['rv']['def']), s['rv']['ops'], s['lhs']))
    return out


def ref_targets(body, op, _seen=None):
    """places (local, proj-keys) a reference-typed operand may point to (follows copies of the reference)"""
    out = []
    if op['k'] not in ('copy', 'move'):
        return out
    _seen = _seen or set()
    l = op['pl']['l']
    if op['pl']['p'] or l in _seen:
        return out
    _seen.add(l)
    for d in body.defs().get(l, []):
        if d[0] != 'assign':
            continue
        rv = d[3]['rv']
        if rv['k'] in ('ref', 'rawptr'):
            out.append((rv['pl']['l'], tuple(proj_key(p) for p in rv['pl']['p'])))
        elif rv['k'] == 'use':
            out.extend(ref_targets(body, rv['op'], _seen))
    return out


def all_closures(facts, body, _seen=None):
    """closure bodies nested (at any depth) in `body`: by def-path nesting and by construction (a closure aggregate in
    the statements of `body`, which also covers closures of helpers that were inlined into `body`)"""
    _seen = _seen if _seen is not None else set()
    out = []
    cands = list(facts.closures_of(body))
    if not hasattr(facts, '_closure_ctor'):
        facts._closure_ctor = {}
    for bb, si, dp, ops, lhs in closure_aggregates(body):
        cb = facts.closure_body(dp)
        if cb is not None:
            # remember where it is constructed: upvars resolve in THIS body (for an inlined helper: the caller)
            prev = facts._closure_ctor.get(cb.npath)
            if prev is None or (body.d.get('inlined') and not prev.d.get('inlined')):
                facts._closure_ctor[cb.npath] = body
            cands.append(cb)
    for cb in cands:
        if cb.npath in _seen:
            continue
        _seen.add(cb.npath)
        out.append(cb)
        out.extend(all_closures(facts, cb, _seen))
    return out


def all_callables(facts, body):
    """all_closures plus the crate-local fn items handed by name to a call of `body` / of its closures (`.map(f)` and
    `.map(|x| f(x))` read alike)"""
    out = list(all_closures(facts, body))
    seen = {x.npath for x in out}
    for hb in [body] + list(out):
        for c in hb.find_calls():
            for x in closure_args_of_call(facts, hb, c):
                if x.npath not in seen:
                    seen.add(x.npath)
                    out.append(x)
    return out


def upvar_expr(facts, closure_body, k):
    """expression (in the constructing body) captured as upvar k of the closure"""
    parent_path = norm(closure_body.d.get('parent', ''))
    ctor = getattr(facts, '_closure_ctor', {}).get(closure_body.npath)
    for pb in ([ctor] if ctor is not None else []) + facts.get(parent_path):
        for bb, si, dp, ops, lhs in closure_aggregates(pb):
            if dp == closure_body.npath and k < len(ops):
                return pb, ExprBuilder(pb).operand(ops[k])
    return None, None


def closure_args_of_call(facts, body, call):
    """closure bodies passed (directly) as arguments of a call"""
    out = []
    eb = ExprBuilder(body)
    for i in range(len(call.args)):
        e = eb.arg(call, i)
        alts = e.args if e.kind == 'phi' else [e]
        for x in alts:
            if x.kind == 'agg' and x.name.startswith('closure:'):
                cb = facts.closure_body(x.name[len('closure:'):])
                if cb:
                    out.append(cb)
            elif x.kind == 'const' and x.const.get('fn'):
                # a function item passed by name where a closure is expected (`.sort_by(by_rank_desc)`)
                cb = fn_item_as_closure(facts, x.const['fn'])
                if cb:
                    out.append(cb)
    return out


def fn_item_as_closure(facts, fn_path):
    """the body of a crate-local fn, renumbered like a closure body (an unused environment as local 1, the arguments
    from local 2 on), so that rules written for closures read `f` and `|a, b| f(a, b)` alike"""
    import copy
    from mir import Body
    cache = facts.__dict__.setdefault('_fn_as_closure', {})
    key = norm(fn_path)
    if key in cache:
        return cache[key]
    bs = facts.get(key)
    if len(bs) != 1 or bs[0].kind not in ('Fn', 'AssocFn'):
        cache[key] = None
        return None
    d = copy.deepcopy(bs[0].d)

    def shift(v):
        if isinstance(v, list):
            for x in v:
                shift(x)
            return
        if not isinstance(v, dict):
            return
        if 'l' in v and 'p' in v and isinstance(v['l'], int):
            if v['l'] >= 1:
                v['l'] += 1
            for e in v['p']:
                if isinstance(e, dict) and 'idx' in e and e['idx'] >= 1:
                    e['idx'] += 1
            return
        if v.get('k') in ('dead', 'live') and isinstance(v.get('l'), int):
            if v['l'] >= 1:
                v['l'] += 1
            return
        for x in v.values():
            shift(x)
    shift(d['blocks'])
    for v in d.get('dbg', []):
        shift(v['pl'])
        if v.get('arg'):
            v['arg'] += 1
    d['locals'] = [d['locals'][0], '{fn item}'] + d['locals'][1:]
    d['nargs'] = d['nargs'] + 1
    d['kind'] = 'Closure'
    d['parent'] = ''
    cb = Body(facts, d)
    cache[key] = cb
    return cb


def local_callee_bodies(facts, call):
    """crate-local bodies a call may dispatch to: exact path, resolved impl, or - for calls that could not be
    resolved to one impl (generic receiver) - all local impls of the trait method (examples excluded)"""
    for name in (call.res, call.callee):
        if name:
            bs = facts.get(name)
            if bs:
                return bs
    if call.res:
        return []       # resolved to a concrete impl outside the crate
    if call.trait:
        return [b for b in facts.impl_methods(call.trait, call.name) if not b.npath.startswith('<examples::') and
                not b.npath.startswith('examples::')]
    return []


def reachable_bodies(facts, body, depth=3, include_closures=True, _seen=None):
    """crate-local bodies reachable from `body` through calls and closure constructions, bounded depth"""
    _seen = _seen if _seen is not None else {}
    if body.npath in _seen and _seen[body.npath] >= depth:
        return _seen
    _seen[body.npath] = depth
    if depth == 0:
        return _seen
    for bb, c in body.calls().items():
        if body.blocks[bb]['cleanup']:
            continue
        for cb in local_callee_bodies(facts, c):
            reachable_bodies(facts, cb, depth - 1, include_closures, _seen)
    if include_closures:
        cands = {cb.npath: cb for cb in facts.closures_of(body)}
        for bb, si, dp, ops, lhs in closure_aggregates(body):
            cb = facts.closure_body(dp)
            if cb is not None:
                cands.setdefault(cb.npath, cb)
        for cb in cands.values():
            reachable_bodies(facts, cb, depth, include_closures, _seen)
    return _seen


# ---------------------------------------------------------------------------
# small path enumerator for bool-returning closures / functions


def eval_bool_paths_ex(body, limit=4000):
    """enumerate acyclic normal paths entry->return; evaluate the bool result with constant propagation over
    bool locals. Returns [(conds: [Cond], value, site)] with value in {True, False, None (not constant)}; for a
    non-constant result `site` = (bb, si) of the statement (or (bb, 'term') of the call) that computed it"""
    out = []
    succ = body.succ()
    count = [0]

    def val_of(env, op):
        if op['k'] == 'const':
            v = op['c'].get('v')
            return v if isinstance(v, bool) else None
        if op['k'] in ('copy', 'move') and not op['pl']['p']:
            return env.get(op['pl']['l'])
        return None

    def walk(bb, env, src, conds, seen):
        if count[0] > limit:
            return
        env = dict(env)
        src = dict(src)
        for si, s in enumerate(body.blocks[bb]['st']):
            if s['k'] != 'assign' or s['lhs']['p']:
                continue
            l = s['lhs']['l']
            rv = s['rv']
            if rv['k'] == 'use':
                env[l] = val_of(env, rv['op'])
                op = rv['op']
                if op['k'] in ('copy', 'move') and not op['pl']['p'] and op['pl']['l'] in src:
                    src[l] = src[op['pl']['l']]
                else:
                    src[l] = (bb, si)
            elif rv['k'] == 'un' and rv['op'] == 'Not':
                v = val_of(env, rv['a'])
                env[l] = (not v) if isinstance(v, bool) else None
                src[l] = (bb, si)
            elif rv['k'] == 'agg' and rv.get('ak') == 'adt' and rv.get('v'):
                # a value built as a known variant on this path (`Route::Positional`): a later test of its
                # discriminant is decided (a private classification enum reads like the conditions that chose it)
                env[l] = ('variant', rv['v'])
                src[l] = (bb, si)
            elif rv['k'] == 'discr' and not rv['pl']['p'] and isinstance(env.get(rv['pl']['l']), tuple):
                names = {n_: i_ for i_, n_ in rv.get('variants', [])}
                v = env[rv['pl']['l']][1]
                env[l] = ('discr', names[v], [i_ for i_, _n in rv.get('variants', [])]) if v in names else None
                src[l] = (bb, si)
            else:
                env[l] = None
                src[l] = (bb, si)
        t = body.blocks[bb]['t']
        if t['k'] == 'return':
            count[0] += 1
            r0 = env.get(0)
            out.append((list(conds), r0 if isinstance(r0, bool) else None, src.get(0)))
            return
        if t['k'] == 'call' and not t['dest']['p']:
            env[t['dest']['l']] = None
            src[t['dest']['l']] = (bb, 'term')
        if t['k'] == 'switch':
            v = val_of(env, t['discr']) if t['ty'] == 'bool' else None
            edges = body.switch_edges(bb)
            tgts = []
            for val, tg in edges:
                if tg not in tgts:
                    tgts.append(tg)
            known = None
            if t['ty'] != 'bool' and t['discr']['k'] in ('copy', 'move') and not t['discr']['pl']['p']:
                kv = env.get(t['discr']['pl']['l'])
                if isinstance(kv, tuple) and kv[0] == 'discr':
                    known = str(kv[1])
            for tg in tgts:
                if tg not in succ[bb] or tg in seen:
                    continue
                if known is not None:
                    vals = [val for val, x in edges if x == tg]
                    listed = [val for val, _x in edges if val is not None]
                    if known in vals or (None in vals and known not in listed):
                        walk(tg, env, src, conds, seen | {tg})
                    continue
                if isinstance(v, bool):
                    vals = [val for val, x in edges if x == tg]
                    is_zero_edge = '0' in vals
                    takes = (not v) if is_zero_edge and None not in vals else (v if None in vals and '0' not in vals else None)
                    if takes is False:
                        continue
                    walk(tg, env, src, conds, seen | {tg})
                else:
                    walk(tg, env, src, conds + [Cond(body, bb, tg)], seen | {tg})
            return
        for s in succ[bb]:
            if s not in seen:
                walk(s, env, src, conds, seen | {s})

    walk(0, {}, {}, [], {0})
    return out


def eval_bool_paths(body, limit=4000):
    """[(conds, value)] — see eval_bool_paths_ex"""
    return [(c, v) for c, v, _ in eval_bool_paths_ex(body, limit)]


def necessary_true_facts(body):
    """comparisons (op, a, b) that hold on EVERY path on which a bool-returning body can return true, whatever the
    control-flow form (`a && b`, nested ifs, early returns, match, an inlined helper): {repr: cmp}. Also returns the
    bool conditions (call results etc.) as ('bool', truth, E)."""
    eb = ExprBuilder(body)
    common = None
    for conds, value, site in eval_bool_paths_ex(body):
        if value is False:
            continue
        here = {}
        for c in conds:
            cm = c.cmp()
            if cm:
                here['%s(%r,%r)' % cm] = cm
            elif c.kind == 'bool' and c.truth is not None:
                here['bool:%s:%r' % (c.truth, c.expr)] = ('bool', c.truth, c.expr)
            elif c.kind == 'discr':
                here['discr:%r:%s' % (c.expr, sorted(c.variants))] = ('discr', c.expr, c.variants)
        if value is None and site is not None:
            bb, si = site
            if si == 'term':
                e = eb._call(body.call_at(bb), (), 0)
            else:
                e = eb._rvalue(body.blocks[bb]['st'][si]['rv'], (), 0, (bb, si))
            truth = True
            while e.kind == 'un' and e.name == 'Not':
                e = e.args[0]
                truth = not truth
            cm = as_cmp(e, truth)
            if cm:
                here['%s(%r,%r)' % cm] = cm
            else:
                here['bool:%s:%r' % (truth, e)] = ('bool', truth, e)
        common = here if common is None else {k: v for k, v in common.items() if k in here}
    return common or {}


def resolve_to_root(facts, body, e, depth=4):
    """follow closure captures outwards: an expression that is (a view of) an upvar is replaced by the captured
    expression in the enclosing body, repeatedly. Returns (body, E)."""
    cur_b, cur = body, e
    for _ in range(depth):
        s = cur.strip()
        if s.kind == 'place' and s.root[0] == 'upvar' and cur_b.kind == 'Closure':
            pb, pe = upvar_expr(facts, cur_b, s.root[1])
            if pe is None:
                return cur_b, cur
            # re-apply the remaining field path
            pe_s = pe.strip()
            if s.fields and pe_s.kind == 'place':
                pe_s = E('place', root=pe_s.root, fields=tuple(pe_s.fields) + tuple(s.fields))
            cur_b, cur = pb, pe_s
        else:
            return cur_b, cur
    return cur_b, cur


def project_expr(s, fields):
    """apply a field path to an expression: a place gets longer, a struct / tuple aggregate yields the selected
    component, anything else keeps the path as a pending projection"""
    fields = tuple(fields)
    while fields:
        if s.kind == 'place':
            return E('place', root=s.root, fields=tuple(s.fields) + fields)
        if s.kind == 'agg' and not s.proj and isinstance(s.extra, dict):
            names = s.extra.get('fields')
            f0 = fields[0]
            idx = None
            if names and f0 in names:
                idx = names.index(f0)
            elif s.extra.get('ak') in ('tuple', 'array') and f0.isdigit():
                idx = int(f0)
            if idx is not None and idx < len(s.args):
                s = s.args[idx]
                fields = fields[1:]
                continue
        if s.kind in ('call', 'agg'):
            return E(s.kind, name=s.name, args=s.args, site=s.site, extra=s.extra, proj=tuple(s.proj) + fields,
                     root=s.root, fields=s.fields, const=s.const)
        return s
    return s


def subst_upvars(facts, body, e, depth=3):
    """rebuild an expression of a closure body with captured variables replaced by the captured expressions of the
    enclosing body (recursively, bounded)"""
    if depth == 0 or body.kind != 'Closure':
        return e

    def rec(x):
        if x.kind == 'place' and x.root[0] == 'upvar':
            pb, pe = upvar_expr(facts, body, x.root[1])
            if pe is None:
                return x
            pe = subst_upvars(facts, pb, pe, depth - 1)
            if x.fields:
                s_ = pe.strip() if pe.kind in ('place', 'call') else pe
                alts = s_.args if s_.kind == 'phi' else [s_]
                outs = [project_expr(a.strip() if a.kind == 'call' and a.name.rsplit('::', 1)[-1] in TRANSPARENT else a,
                                     x.fields) for a in alts]
                return outs[0] if len(outs) == 1 else E('phi', args=outs)
            return pe
        if not x.args:
            return x
        return E(x.kind, name=x.name, args=[rec(a) if isinstance(a, E) else a for a in x.args], root=x.root,
                 fields=x.fields, const=x.const, site=x.site, extra=x.extra, proj=x.proj)
    return rec(e)


def deep_calls(facts, body, *names):
    """[(owner body, Call)] over a body and all closures nested in it"""
    out = []
    for b in [body] + all_closures(facts, body):
        for c in b.find_calls(*names):
            out.append((b, c))
    return out


def deep_arg(facts, owner, call, i):
    """argument expression of a (possibly closure-nested) call, expressed in terms of the outermost body"""
    return subst_upvars(facts, owner, ExprBuilder(owner).arg(call, i))


def closure_of_adaptor(facts, root, owner):
    """for a closure body `owner` nested in `root`: the adaptor call that received it (in its parent) and the E of that
    call's result, or (None, None)"""
    parent_path = norm(owner.d.get('parent', ''))
    for pb in facts.get(parent_path):
        for c in pb.find_calls():
            for cb in closure_args_of_call(facts, pb, c):
                if cb is owner:
                    return pb, c
    return None, None


# ---------------------------------------------------------------------------
# who-may-write


def field_mutators(facts, adt_suffix, field, skip=None):
    """{body: [(kind, ln)]} — bodies (closures included) that assign to, or take `&mut` of, a place whose projection
    passes through field `field` of an ADT whose path ends with `adt_suffix`. Struct literals are not writes."""
    out = {}

    def through(pl):
        for p in pl.get('p', []):
            if isinstance(p, dict) and p.get('n') == field and (p.get('adt') or '').endswith(adt_suffix):
                return True
        return False
    for b in facts.all_bodies():
        if skip and skip(b):
            continue
        if facts.is_new_helper(b.npath):
            continue        # seen inlined in its callers
        for i in sorted(b.live_blocks()):
            for s in b.blocks[i]['st']:
                if s['k'] != 'assign':
                    continue
                if through(s['lhs']):
                    out.setdefault(b, []).append(('assign', s['ln']))
                rv = s['rv']
                if rv['k'] == 'ref' and rv.get('mut') and through(rv['pl']):
                    out.setdefault(b, []).append(('&mut', s['ln']))
                if rv['k'] == 'rawptr' and 'mut' in str(rv.get('rk', '')).lower() and through(rv['pl']):
                    out.setdefault(b, []).append(('&raw mut', s['ln']))
    return out


def effective_sites(facts, body, *names, pred=None):
    """[(bb, call, owner)]: calls matching `names` in `body` and in closures nested in it; for a call inside a closure,
    bb is the block of `body` whose call receives that closure (for_each / map / filter ... or an inlined helper),
    i.e. the point of `body`'s control flow at which the nested call effectively happens. Loops <-> iterator chains
    and statement <-> closure moves therefore keep their site."""
    out = []
    for c in body.find_calls(*names, pred=pred):
        out.append((c.bb, c, body))
    # closure -> receiving block in body (transitively)
    recv_bb = {}

    def walk(b, at):
        for c in b.find_calls():
            for cb in closure_args_of_call(facts, b, c):
                site = at if at is not None else c.bb
                if cb.npath not in recv_bb:
                    recv_bb[cb.npath] = (site, cb)
                    walk(cb, site)
        # closures constructed but passed later (stored in a local first): fall back to the construction block
        for bb, si, dp, ops, lhs in _closure_aggs(b):
            cb = facts.closure_body(dp)
            if cb is not None and cb.npath not in recv_bb:
                site = at if at is not None else bb
                recv_bb[cb.npath] = (site, cb)
                walk(cb, site)
    walk(body, None)
    for site, cb in recv_bb.values():
        for c in cb.find_calls(*names, pred=pred):
            out.append((site, c, cb))
    return out


def _closure_aggs(body):
    return closure_aggregates(body)


def truth_facts(body, e, conds_at):
    """facts implied by the bool expression e being TRUE (e may be a materialised `a && b`: phi(false | b) built on the
    a==true side)"""
    truth = True
    while e.kind == 'un' and e.name == 'Not':
        e = e.args[0]
        truth = not truth
    if e.kind == 'phi' and truth:
        common = None
        for a in e.args:
            if a.kind == 'const' and a.const.get('v') is False:
                continue
            here = dict(conds_at(a.site[0])) if a.site else {}
            here.update(truth_facts(body, a, conds_at))
            common = here if common is None else {k: v for k, v in common.items() if k in here}
        return common or {}
    if e.kind == 'const':
        return {}
    cm = as_cmp(e, truth)
    if cm:
        return {'%s(%r,%r)' % cm: cm}
    return {'bool:%s:%r' % (truth, e): ('bool', truth, e)}


def necessary_keep_facts(body):
    """for a filter predicate (returns bool) or a filter_map body (returns Option): the facts that hold whenever the
    element is KEPT, plus the expression kept (for Option: the payload alternatives). -> (facts: {repr: fact}, payloads)"""
    rty = body.locals[0]
    if rty == 'bool':
        return necessary_true_facts(body), []
    eb = ExprBuilder(body)
    common = None
    payloads = []

    def conds_at(bb, _depth=0):
        here = {}
        for c in path_conditions(body, bb):
            cm = c.cmp()
            if cm:
                here['%s(%r,%r)' % cm] = cm
            elif c.kind == 'bool' and c.truth is True and c.expr is not None and c.expr.kind == 'phi' and _depth < 3:
                # a materialised `a && b` (or matches!): unfold into the facts of the alternative that made it true
                here.update(truth_facts(body, c.expr, lambda b_: conds_at(b_, _depth + 1)))
            elif c.kind == 'bool' and c.truth is not None:
                here['bool:%s:%r' % (c.truth, c.expr)] = ('bool', c.truth, c.expr)
            elif c.kind == 'discr':
                here['discr:%r:%s' % (c.expr, sorted(c.variants))] = ('discr', c.expr, c.variants)
        return here
    live = body.live_blocks()
    for d in body.defs().get(0, []):
        if d[1] not in live:
            continue
        if d[0] == 'assign':
            rv = d[3]['rv']
            e = eb._rvalue(rv, (), 0, (d[1], d[2]))
            for a in (e.args if e.kind == 'phi' else [e]):
                if a.kind == 'agg' and a.name.endswith('Option::Some'):
                    here = conds_at(a.site[0] if a.site else d[1])
                    here.update(conds_at(d[1]))
                    payloads.append(a.args[0] if a.args else None)
                    common = here if common is None else {k: v for k, v in common.items() if k in here}
                elif a.kind == 'agg' and a.name.endswith('Option::None'):
                    continue
                elif a.kind == 'call' and a.name.rsplit('::', 1)[-1] in ('then_some', 'then'):
                    here = conds_at(d[1])
                    here.update(truth_facts(body, a.args[0], conds_at))
                    payloads.append(a.args[1] if len(a.args) > 1 else None)
                    common = here if common is None else {k: v for k, v in common.items() if k in here}
                else:
                    # unknown producer (e.g. `?` on an Option, map of an Option): kept under unknown conditions
                    payloads.append(a)
                    common = {} if common is None else {}
        else:
            c = d[2]
            e = eb._call(c, (), 0)
            if c.name in ('then_some', 'then'):
                here = conds_at(d[1])
                here.update(truth_facts(body, e.args[0], conds_at))
                payloads.append(e.args[1] if len(e.args) > 1 else None)
                common = here if common is None else {k: v for k, v in common.items() if k in here}
            elif c.name == 'from_residual':
                continue
            else:
                payloads.append(e)
                common = {}
    return common or {}, payloads


def count_per_iteration(body, h, marks):
    """(min, max) number of marked blocks on one trip around the natural loop with header h (header to a latch)"""
    blks = body.loops().get(h)
    if not blks:
        return None
    latches = [x for x in blks if h in body.succ()[x]]
    if not latches:
        return None
    if h in latches:
        return (1, 1) if h in set(marks) else (0, 0)
    return count_on_paths(body, h, latches, marks)


def counting_loops(body, bb):
    """for each natural loop containing bb that provably runs a fixed number of times: (header, kind, bound E)
       kind 'range'      for _ in 0..N   (iterator = Range { start: 0, end: N }, left only on exhaustion)
       kind 'countdown'  k = N; while k > 0 { ..; k -= 1 }   (one decrement by 1 on every iteration path)"""
    out = []
    eb = ExprBuilder(body)
    loops = body.loops()
    succ = body.succ()
    for h, blks in loops.items():
        if bb not in blks:
            continue
        exits = [(x, s) for x in blks for s in succ[x] if s not in blks]
        if len(exits) != 1:
            continue
        xb = exits[0][0]
        t = body.blocks[xb]['t']
        if t['k'] != 'switch':
            continue
        d = eb.operand(t['discr'])
        # range form: the exit tests the discriminant of `next(range)`
        if d.kind == 'discr':
            src = d.args[0]
            rng = [x for x in src.walk() if x.kind == 'agg' and x.name.endswith('Range::Range') and len(x.args) == 2]
            if src.kind == 'call' and src.name.rsplit('::', 1)[-1] == 'next' and rng and \
                    rng[0].args[0].kind == 'const' and rng[0].args[0].const.get('v') == '0':
                out.append((h, 'range', rng[0].args[1]))
            continue
        # countdown form: exit when !(k > 0) / k == 0
        cnd = Cond(body, xb, exits[0][1])
        cm = cnd.cmp()
        if not cm:
            continue
        o = orient(cm, lambda e: e.kind != 'const')
        if not o or o[2].kind != 'const' or o[2].const.get('v') != '0' or o[0] not in ('Le', 'Eq'):
            continue
        # find the counter local: the operand compared in the header
        k_local = None
        for si, s in enumerate(body.blocks[xb]['st']):
            if s['k'] == 'assign' and s['rv']['k'] == 'bin' and s['rv']['op'] in ('Gt', 'Ne', 'Lt', 'Eq', 'Le', 'Ge'):
                for side in ('a', 'b'):
                    op = s['rv'][side]
                    if op['k'] in ('copy', 'move') and not op['pl']['p']:
                        # follow one copy
                        src_l = op['pl']['l']
                        for s2 in body.blocks[xb]['st'][:si]:
                            if s2['k'] == 'assign' and s2['lhs']['l'] == src_l and not s2['lhs']['p'] and \
                                    s2['rv']['k'] == 'use' and s2['rv']['op']['k'] in ('copy', 'move') and \
                                    not s2['rv']['op']['pl']['p']:
                                src_l = s2['rv']['op']['pl']['l']
                        k_local = src_l
        if k_local is None:
            continue
        decs = []
        init = None
        for d_ in body.defs().get(k_local, []):
            inloop = d_[1] in blks
            if d_[0] == 'assign':
                e = eb._rvalue(d_[3]['rv'], (), 0, (d_[1], d_[2]))
            elif d_[0] == 'call':
                e = eb._call(d_[2], (), 0)
            else:
                continue
            if inloop:
                decs.append((d_[1], e))
            else:
                init = e
        # in-loop writes: either `k = Sub(k, 1)` directly or through the checked-sub temp
        ok = bool(decs) and init is not None
        for dbb, e in decs:
            x = e
            if not (x.kind == 'bin' and x.name == 'Sub' and x.args[1].kind == 'const' and x.args[1].const.get('v') == '1'):
                ok = False
        if ok:
            r = count_per_iteration(body, h, [dbb for dbb, _ in decs])
            if r is not None and r == (1, 1):
                out.append((h, 'countdown', init))
    return out


def adaptor_of_closure(facts, root, owner):
    """(parent body, adaptor call) that receives closure `owner` (searching `root` and the closures nested in it)"""
    for pb in [root] + all_closures(facts, root):
        if pb is owner:
            continue
        for c in pb.find_calls():
            for cb in closure_args_of_call(facts, pb, c):
                if cb.npath == owner.npath:
                    return pb, c
    return None, None


def adaptors_of_closure(facts, root, owner):
    """every (parent body, adaptor call) that receives closure `owner`: a helper spliced in at two call sites brings
    the same closure body to two adaptor calls of the caller"""
    out = []
    for pb in [root] + all_closures(facts, root):
        if pb is owner:
            continue
        for c in pb.find_calls():
            for cb in closure_args_of_call(facts, pb, c):
                if cb.npath == owner.npath:
                    out.append((pb, c))
    return out


def iteration_context(facts, root, owner, bb):
    """[E] collections iterated around block bb of `owner` (root or a closure nested in root): iterators of the natural
    loops containing bb, and - climbing through closures - the receivers of the adaptors (for_each / map / filter ...)
    that run them, plus the loops around those adaptor calls"""
    out = []
    cur, at = owner, bb
    for _ in range(6):
        eb = ExprBuilder(cur)
        for h, blks in cur.loops().items():
            if at in blks:
                for c in cur.find_calls('std::iter::Iterator::next'):
                    if c.bb in blks:
                        out.append(subst_upvars(facts, cur, eb.operand(c.args[0])))
        if cur is root:
            break
        pb, c = adaptor_of_closure(facts, root, cur)
        if pb is None:
            break
        out.append(subst_upvars(facts, pb, ExprBuilder(pb).arg(c, 0)))
        cur, at = pb, c.bb
    return out


def expand_calls(facts, e, depth=2, only=None):
    """rebuild an expression with calls to crate-local functions (one body, value returned is an expression of its
    parameters) replaced by that expression, arguments substituted — `self.get_executor(id)` becomes
    `Rem(id, self.num_shards)`. `only`: optional predicate on the callee path."""
    if depth == 0:
        return e

    def subst(x, args):
        if x.kind == 'place' and x.root[0] == 'param' and 1 <= x.root[1] <= len(args):
            a = args[x.root[1] - 1]
            if not x.fields:
                return a
            s = a.strip()
            if s.kind == 'place':
                return E('place', root=s.root, fields=tuple(s.fields) + tuple(x.fields))
            if s.kind in ('call', 'agg'):
                return E(s.kind, name=s.name, args=s.args, site=s.site, extra=s.extra,
                         proj=tuple(s.proj) + tuple(x.fields))
            return a
        if not x.args:
            return x
        return E(x.kind, name=x.name, args=[subst(a, args) if isinstance(a, E) else a for a in x.args], root=x.root,
                 fields=x.fields, const=x.const, site=x.site, extra=x.extra, proj=x.proj)

    def rec(x):
        if not isinstance(x, E):
            return x
        args = [rec(a) for a in x.args] if x.args else []
        y = E(x.kind, name=x.name, args=args, root=x.root, fields=x.fields, const=x.const, site=x.site,
              extra=x.extra, proj=x.proj) if x.args else x
        if y.kind == 'call' and not y.proj and (only is None or only(y.name)):
            cbs = facts.get(y.name)
            if len(cbs) == 1 and cbs[0].kind in ('Fn', 'AssocFn') and cbs[0].nargs == len(y.args) and \
                    len(cbs[0].blocks) <= 40:
                r = ExprBuilder(cbs[0]).place(0, ())
                if r.kind != 'unknown' and not any(z.kind == 'unknown' for z in r.walk()):
                    return expand_calls(facts, subst(r, y.args), depth - 1, only)
        return y
    return rec(e)


def expand_conditions(body, conds, limit=16):
    """path conditions with materialised `a || b` / `matches!(..)` bools unfolded: a bool condition whose expression is
    a phi of alternatives (built in different blocks) holds when ONE of the non-false alternatives was taken; each
    alternative brings the path conditions of the block that built it. Returns a list of condition lists (a disjunction
    of conjunctions); a rule that must hold at the site has to hold for every list."""
    variants = [[]]
    for c in conds:
        alts = None
        if c.kind == 'bool' and c.truth in (True, False) and c.expr is not None and c.expr.kind == 'phi':
            alts = []

            def flat(e):
                if e.kind == 'phi':
                    for a in e.args:
                        flat(a)
                else:
                    alts.append(e)
            flat(c.expr)
        if c.kind == 'discr' and c.variants and c.expr is not None and c.expr.kind == 'phi':
            # `match r { Ok(..) => .. }` on a value built as Ok{..} on one path and Err{..} on another (the desugared
            # form of ok_or / ok_or_else / map followed by and_then / match): the arm is reached only through the
            # alternatives that carry that variant, each with the path conditions of the block that built it
            dal = []

            def dflat(e):
                if e.kind == 'phi':
                    for a in e.args:
                        dflat(a)
                else:
                    dal.append(e)
            dflat(c.expr)
            new = []
            decided = True
            for a in dal:
                if a.kind == 'agg' and not a.proj and isinstance(a.extra, dict) and a.extra.get('v'):
                    if a.extra['v'] not in c.variants:
                        continue
                    extra = [x for x in (path_conditions(body, a.site[0]) if a.site else []) if x is not c]
                    for v in variants:
                        new.append(v + extra + [c])
                else:
                    decided = False
            if decided and new:
                variants = new[:limit]
                continue
        if not alts:
            variants = [v + [c] for v in variants]
            continue
        new = []
        for a in alts:
            # the value tested was built as one of the alternatives: a constant alternative of the other truth value
            # cannot be the one (`x = !m || f()` tested false: only the f() alternative, built where m holds)
            if a.kind == 'const' and a.const.get('v') is (not c.truth):
                continue
            sites = [a.site] if a.site else []
            if a.kind == 'const' and isinstance(a.extra, dict):
                sites = a.extra.get('sites') or sites
            for st in (sites or [None]):
                extra = list(path_conditions(body, st[0])) if st else []
                extra = [x for x in extra if x is not c]
                if a.kind != 'const':
                    extra.append(_ExprCond(a, c.truth, c.ln))
                for v in variants:
                    new.append(v + extra)
        variants = new[:limit] if new else [v + [c] for v in variants]
    return variants


class _ExprCond:
    """a condition given as an expression known to be true/false (same reading interface as Cond)"""
    kind = 'bool'
    variants = None
    values = None

    def __init__(self, expr, truth, ln=''):
        while expr.kind == 'un' and expr.name == 'Not':
            expr = expr.args[0]
            truth = not truth
        self.expr = expr
        self.truth = truth
        self.ln = ln

    def cmp(self):
        return as_cmp(self.expr, self.truth)

    def __repr__(self):
        return '%s%r' % ('' if self.truth else '!', self.expr)


def eval_option_paths(body, limit=4000):
    """enumerate acyclic normal paths entry->return of an Option-returning body; [(conds, tag)] with tag 'Some' / 'None'
    / '?' — which variant the returned value has on that path (bool locals are constant-propagated, so `matches!`,
    `a && b`, early `return None` all reduce to the enum tests actually taken on the path)"""
    out = []
    succ = body.succ()
    count = [0]

    def bval(env, op):
        if op['k'] == 'const':
            v = op['c'].get('v')
            return v if isinstance(v, bool) else None
        if op['k'] in ('copy', 'move') and not op['pl']['p']:
            v = env.get(op['pl']['l'])
            return v if isinstance(v, bool) else None
        return None

    def walk(bb, env, conds, seen):
        if count[0] > limit:
            return
        env = dict(env)
        for s in body.blocks[bb]['st']:
            if s['k'] != 'assign' or s['lhs']['p']:
                continue
            l = s['lhs']['l']
            rv = s['rv']
            if rv['k'] == 'use':
                op = rv['op']
                if op['k'] == 'const':
                    v = op['c'].get('v')
                    env[l] = v if isinstance(v, bool) else None
                elif op['k'] in ('copy', 'move') and not op['pl']['p']:
                    env[l] = env.get(op['pl']['l'])
                else:
                    env[l] = None
            elif rv['k'] == 'un' and rv['op'] == 'Not':
                v = bval(env, rv['a'])
                env[l] = (not v) if isinstance(v, bool) else None
            elif rv['k'] == 'agg' and rv.get('ak') == 'adt' and norm(rv.get('adt', '')).endswith('option::Option'):
                env[l] = 'tag:' + rv['v']
            else:
                env[l] = None
        t = body.blocks[bb]['t']
        if t['k'] == 'return':
            count[0] += 1
            v = env.get(0)
            out.append((list(conds), v[4:] if isinstance(v, str) and v.startswith('tag:') else '?'))
            return
        if t['k'] == 'call' and not t['dest']['p']:
            nm = t['f'].get('c', {}).get('fn', '') if t['f'].get('k') == 'const' else ''
            env[t['dest']['l']] = None
        if t['k'] == 'switch':
            v = bval(env, t['discr']) if t['ty'] == 'bool' else None
            edges = body.switch_edges(bb)
            tgts = []
            for val, tg in edges:
                if tg not in tgts:
                    tgts.append(tg)
            for tg in tgts:
                if tg not in succ[bb] or tg in seen:
                    continue
                if isinstance(v, bool):
                    vals = [val for val, x in edges if x == tg]
                    is_zero_edge = '0' in vals
                    takes = (not v) if is_zero_edge and None not in vals else (v if None in vals and '0' not in vals else None)
                    if takes is False:
                        continue
                    walk(tg, env, conds, seen | {tg})
                else:
                    walk(tg, env, conds + [Cond(body, bb, tg)], seen | {tg})
            return
        for s in succ[bb]:
            if s not in seen:
                walk(s, env, conds, seen | {s})

    walk(0, {}, [], {0})
    return out


def loop_element_paths(body, header, marks, limit=4000):
    """for the natural loop with header `header` driven by `next()`: enumerate the acyclic paths of ONE iteration, from
    the `Some` arm of the iterator test back to the header (or out of the loop), with constant propagation over bool
    locals. -> [(conds, hit)] where hit = the path passes one of the blocks in `marks` (e.g. the push of a record)."""
    blks = body.loops().get(header)
    if not blks:
        return []
    succ = body.succ()
    marks = set(marks)
    # element start: the Some arm of the switch on next()'s result
    start = None
    for x in body.find_calls('std::iter::Iterator::next'):
        if x.bb not in blks or x.target is None:
            continue
        tb = body.blocks[x.target]['t']
        if tb['k'] == 'switch':
            for tg in set(tg for _, tg in body.switch_edges(x.target)):
                if tg in body.diverging():
                    continue
                cnd = Cond(body, x.target, tg)
                if cnd.kind == 'discr' and cnd.variants == {'Some'}:
                    start = tg
    if start is None:
        return []
    out = []
    count = [0]

    def bval(env, op):
        if op['k'] == 'const':
            v = op['c'].get('v')
            return v if isinstance(v, bool) else None
        if op['k'] in ('copy', 'move') and not op['pl']['p']:
            return env.get(op['pl']['l'])
        return None

    eb = ExprBuilder(body)

    def path_cond(bb, tg, src):
        """condition of the edge bb->tg; for a switch on a bool local defined on THIS path the expression is taken
        from the defining statement / call of the path (not the flow-insensitive merge)"""
        t = body.blocks[bb]['t']
        d = t['discr']
        if t['ty'] == 'bool' and d['k'] in ('copy', 'move') and not d['pl']['p'] and d['pl']['l'] in src:
            sb, si = src[d['pl']['l']]
            if si == 'term':
                e = eb._call(body.call_at(sb), (), 0)
            else:
                e = eb._rvalue(body.blocks[sb]['st'][si]['rv'], (), 0, (sb, si))
            vals = [val for val, x in body.switch_edges(bb) if x == tg]
            truth = False if ('0' in vals and None not in vals) else True
            if e.kind != 'phi':
                return _ExprCond(e, truth, t.get('ln', ''))
        return Cond(body, bb, tg)

    def walk(bb, env, conds, seen, hit, src=None):
        if count[0] > limit:
            return
        env = dict(env)
        src = dict(src or {})
        hit = hit or bb in marks
        for si, s in enumerate(body.blocks[bb]['st']):
            if s['k'] != 'assign' or s['lhs']['p']:
                continue
            l = s['lhs']['l']
            rv = s['rv']
            if rv['k'] == 'use':
                env[l] = bval(env, rv['op'])
                op = rv['op']
                if op['k'] in ('copy', 'move') and not op['pl']['p'] and op['pl']['l'] in src:
                    src[l] = src[op['pl']['l']]
                else:
                    src[l] = (bb, si)
            elif rv['k'] == 'un' and rv['op'] == 'Not':
                v = bval(env, rv['a'])
                env[l] = (not v) if isinstance(v, bool) else None
                src[l] = (bb, si)
            else:
                env[l] = None
                src[l] = (bb, si)
        t = body.blocks[bb]['t']
        if t['k'] == 'call' and not t['dest']['p']:
            env[t['dest']['l']] = None
            src[t['dest']['l']] = (bb, 'term')
        nxt = []
        if t['k'] == 'switch':
            v = bval(env, t['discr']) if t['ty'] == 'bool' else None
            edges = body.switch_edges(bb)
            tgts = []
            for val, tg in edges:
                if tg not in tgts:
                    tgts.append(tg)
            for tg in tgts:
                if tg not in succ[bb]:
                    continue
                if isinstance(v, bool):
                    vals = [val for val, x in edges if x == tg]
                    is_zero_edge = '0' in vals
                    takes = (not v) if is_zero_edge and None not in vals else (v if None in vals and '0' not in vals else None)
                    if takes is False:
                        continue
                    nxt.append((tg, conds))
                else:
                    nxt.append((tg, conds + [path_cond(bb, tg, src)]))
        else:
            nxt = [(s_, conds) for s_ in succ[bb]]
        for tg, cs in nxt:
            if tg == header or tg not in blks:
                count[0] += 1
                out.append((cs, hit))
            elif tg not in seen:
                walk(tg, env, cs, seen | {tg}, hit, src)

    walk(start, {}, [], {start}, False)
    return out


def apply_simple_closures(facts, e, depth=3):
    """`opt.map(|w| w[0])`, `opt.and_then(..)`, `res.map(..)`: when the closure is a pure expression of its parameter the
    call is replaced by that expression applied to the payload (`opt.as Some.0`), so a value that flows through such a
    combinator reads like the equivalent `match` / `if let`"""
    if depth == 0 or not isinstance(e, E):
        return e

    def subst(x, payload, upvars, cb):
        if x.kind == 'place':
            if x.root == ('param', 2):
                flds = list(x.fields)
                # closure arguments arrive as a tuple: (_2.0) is the first argument
                if flds and flds[0] == '0':
                    flds = flds[1:]
                s = payload.strip() if payload.kind == 'place' else payload
                if s.kind == 'place':
                    return E('place', root=s.root, fields=tuple(s.fields) + tuple(flds))
                if s.kind in ('call', 'agg'):
                    return E(s.kind, name=s.name, args=s.args, site=s.site, extra=s.extra,
                             proj=tuple(s.proj) + tuple(flds))
                return payload
            if x.root[0] == 'upvar' and x.root[1] < len(upvars):
                u = upvars[x.root[1]]
                s = u.strip()
                if s.kind == 'place':
                    return E('place', root=s.root, fields=tuple(s.fields) + tuple(x.fields))
                return u
            return x
        if not x.args:
            return x
        return E(x.kind, name=x.name, args=[subst(a, payload, upvars, cb) if isinstance(a, E) else a for a in x.args],
                 root=x.root, fields=x.fields, const=x.const, site=x.site, extra=x.extra, proj=x.proj)

    def rec(x):
        if not isinstance(x, E):
            return x
        args = [rec(a) for a in x.args] if x.args else []
        y = E(x.kind, name=x.name, args=args, root=x.root, fields=x.fields, const=x.const, site=x.site,
              extra=x.extra, proj=x.proj) if x.args else x
        if y.kind == 'call' and y.name.rsplit('::', 1)[-1] in ('map', 'and_then') and len(y.args) == 2 and \
                ('Option' in y.name or 'Result' in y.name or 'option' in y.name or 'result' in y.name):
            clo = y.args[1]
            if clo.kind == 'agg' and clo.name.startswith('closure:'):
                cb = facts.closure_body(clo.name[len('closure:'):])
                if cb is not None and len(cb.blocks) <= 12:
                    r = ExprBuilder(cb).place(0, ())
                    if r.kind != 'unknown':
                        opt = y.args[0]
                        s = opt.strip() if opt.kind == 'place' else opt
                        if s.kind == 'place':
                            payload = E('place', root=s.root, fields=tuple(s.fields) + ('as Some', '0'))
                        else:
                            payload = E(s.kind, name=s.name, args=s.args, site=s.site, extra=s.extra,
                                        proj=tuple(s.proj) + ('as Some', '0'), root=s.root, fields=s.fields,
                                        const=s.const)
                        val = apply_simple_closures(facts, subst(r, payload, clo.args, cb), depth - 1)
                        # the projections applied to the map result (`.as Some.0 ...`) continue on the value
                        pj = [p for p in y.proj]
                        if pj[:2] == ['as Some', '0']:
                            pj = pj[2:]
                        if pj:
                            vs = val.strip() if val.kind == 'place' else val
                            if vs.kind == 'place':
                                return E('place', root=vs.root, fields=tuple(vs.fields) + tuple(pj))
                            return E(vs.kind, name=vs.name, args=vs.args, site=vs.site, extra=vs.extra,
                                     proj=tuple(vs.proj) + tuple(pj), root=vs.root, fields=vs.fields, const=vs.const)
                        return val
        return y
    return rec(e)


def resolve_const_item(facts, e, depth=3):
    """a named constant whose initialiser is itself an expression over other constants (`const GATE: f32 =
    CHI2INV95[4];`) -> that expression; anything else is returned unchanged"""
    for _ in range(depth):
        if e.kind != 'const' or not e.const.get('item'):
            return e
        bs = facts.get(norm(e.const['item']))
        if len(bs) != 1 or not str(bs[0].kind).startswith('Const'):
            return e
        r = ExprBuilder(bs[0]).place(0, ())
        if r.kind == 'unknown' or repr(r) == repr(e):
            return e
        if r.kind == 'call' and (e.proj or norm(r.name.rsplit('::', 1)[0]) in getattr(facts, 'new_newtypes', {})):
            # `const GATE: Gate = Gate::new(CHI2INV95[4])`: a const constructor is looked through (also when the
            # wrapper is a new private newtype, which reads as the wrapped value)
            r = expand_calls(facts, r)
        if e.proj:
            # a component of a structured constant (`GATE.0` of `const GATE: Gate = Gate(CHI2INV95[4])`): only a
            # struct / tuple initialiser can be projected; an index into a table constant stays as it is
            if r.kind != 'agg' or not all(str(q).isdigit() or str(q) in ((r.extra or {}).get('fields') or [])
                                          for q in e.proj[:1]):
                return e
            r2 = project_expr(r, tuple(str(q) for q in e.proj))
            if r2 is r or repr(r2) == repr(e):
                return e
            r = r2
        e = r
    return e


def feasible(conds):
    """False when the conditions contradict what is statically known: a variant test on a value that was just built as
    another variant (`Some(x)` tested `is None`, left over from a desugared combinator)"""
    for c in conds:
        if c.kind == 'discr' and c.expr is not None and c.variants:
            alts = c.expr.args if c.expr.kind == 'phi' else [c.expr]
            if alts and all(a.kind == 'agg' and '::' in (a.name or '') for a in alts):
                if not any(a.name.rsplit('::', 1)[-1] in c.variants for a in alts):
                    return False
    return True


# ---------------------------------------------------------------------------
# iteration identity: which loop / adaptor an element expression belongs to

FOLDS = ('fold', 'try_fold', 'rfold', 'reduce', 'fold_while')


def elem_key(F, root, b, e, depth=0):
    """which iteration an element / index expression of body `b` belongs to: (key, chain, role)
       key   - identity of the iteration (a `next` call of a loop, or the parameter of the closure an adaptor runs)
       chain - the iterated expression, written in terms of the root function's parameters where possible
       role  - 'elem' | 'acc' (the accumulator parameter of a fold closure; chain is then the initial value)"""
    if depth > 4:
        return None, None, None
    for y in e.walk():
        if y.kind == 'call' and y.name.rsplit('::', 1)[-1] == 'next' and y.args:
            return repr(E('call', name=y.name, args=y.args)), subst_upvars(F, b, y.args[0]), 'elem'
    for y in e.walk():
        # `boxes[k]`: the element belongs to the iteration that produces k (the index is kept as text on the place)
        if y.kind == 'place':
            for f in y.fields:
                f = str(f)
                if f.startswith('[next('):
                    depth_, end = 0, None
                    for i_, ch in enumerate(f[1:]):
                        if ch == '(':
                            depth_ += 1
                        elif ch == ')':
                            depth_ -= 1
                            if depth_ == 0:
                                end = i_ + 2
                                break
                    if end:
                        return f[1:end], None, 'elem'
    for y in e.walk():
        if y.kind == 'place' and y.root[0] == 'param' and b.kind == 'Closure' and y.root[1] >= 2:
            pb, c = adaptor_of_closure(F, root, b)
            if pb is None:
                return 'param%d@%s' % (y.root[1], b.npath), None, 'elem'
            ebp = ExprBuilder(pb)
            if c.name in FOLDS and y.root[1] == 2 and len(c.args) >= 3:
                return 'acc@%s' % b.npath, ebp.arg(c, 1), 'acc'
            return 'param%d@%s' % (y.root[1], b.npath), subst_upvars(F, pb, ebp.arg(c, 0)), 'elem'
        if y.kind == 'place' and y.root[0] == 'param' and b.kind != 'Closure':
            return 'param%d@%s' % (y.root[1], b.npath), y, 'elem'
    for y in e.walk():
        if y.kind == 'place' and y.root[0] == 'upvar' and b.kind == 'Closure':
            pb, pe = upvar_expr(F, b, y.root[1])
            if pb is not None and pe is not None:
                return elem_key(F, root, pb, pe, depth + 1)
    return None, None, None


def payload_leaves(x, path=(), depth=3):
    """[(component path, E)] of a message aggregate, looking through nested crate-local structs / tuples (a payload
    packaged as `Variant(Job { a, b })` or `Variant { a, b }` or `Variant(a, b)` yields the same leaves)"""
    x2 = x.strip() if x.kind == 'call' and not x.proj else x
    if x2.kind == 'agg' and not x2.proj and len(path) < depth and isinstance(x2.extra, dict) and \
            x2.extra.get('ak') in ('adt', 'tuple') and not x2.name.startswith('std::') and x2.args:
        names = x2.extra.get('fields') or [str(i) for i in range(len(x2.args))]
        out = []
        for nm, y in zip(names, x2.args):
            out += payload_leaves(y, path + (str(nm),), depth)
        return out
    return [(path, x)]


def paths_to(body, target, start=0, limit=400):
    """condition lists of the acyclic normal paths start -> target (one list per path, the Cond of every switch edge
    taken; bool locals assigned constants on the way are propagated, so a materialised `a && b` / `matches!` test reads
    as the tests that produced it). None when there are more than `limit` paths.
    A guard written as `if flag && !ready { return }` makes NEITHER `!flag` nor `ready` a necessary condition of the
    code behind it (path_conditions); each path, however, carries one of them."""
    succ = body.succ()
    live = body.live_blocks()
    # blocks from which target is reachable (prune the search)
    pred = body.pred()
    can = {target}
    st = [target]
    while st:
        x = st.pop()
        for p_ in pred[x]:
            if p_ not in can and p_ in live:
                can.add(p_)
                st.append(p_)
    out = []
    count = [0]

    def walk(bb, conds, seen):
        if count[0] > limit:
            return
        if bb == target:
            count[0] += 1
            out.append(list(conds))
            return
        t = body.blocks[bb]['t']
        if t['k'] == 'switch':
            for tg in sorted(set(tg for _, tg in body.switch_edges(bb))):
                if tg in seen or tg not in can:
                    continue
                walk(tg, conds + [Cond(body, bb, tg)], seen | {tg})
        else:
            for tg in succ[bb]:
                if tg in seen or tg not in can:
                    continue
                walk(tg, conds, seen | {tg})
    if start not in can:
        return []
    walk(start, [], {start})
    if count[0] > limit:
        return None
    res = []
    for conds in out:
        for cv in expand_conditions(body, conds):
            if feasible(cv):
                res.append(cv)
    return res


def subst_closure_param(x, element):
    """an expression of a closure body with its (single) element parameter replaced by `element`"""
    if not isinstance(x, E):
        return x
    if x.kind == 'place' and x.root == ('param', 2):
        flds = tuple(str(f) for f in x.fields)
        return project_expr(element, flds) if flds else element
    if not x.args:
        return x
    return E(x.kind, name=x.name, args=[subst_closure_param(a, element) for a in x.args], root=x.root, fields=x.fields,
             const=x.const, site=x.site, extra=x.extra, proj=x.proj)


def unroll_all(facts, body, e):
    """`[e1, .., en].into_iter().all(|x| p(x))` (any()/all() over a LITERAL array): the list of `p(ei)` fact dicts
    (necessary_true_facts of the predicate with the parameter replaced by each element), else None"""
    s = e.strip() if e.kind == 'call' and e.name.rsplit('::', 1)[-1] != 'all' else e
    if not (s.kind == 'call' and s.name.rsplit('::', 1)[-1] == 'all' and len(s.args) == 2 and hasattr(s.extra, 'args')):
        return None
    arr = [y for y in s.args[0].walk() if y.kind == 'agg' and y.name == 'array']
    cbs = closure_args_of_call(facts, body, s.extra)
    if len(arr) != 1 or len(cbs) != 1 or not arr[0].args:
        return None
    chain_ops = []

    def above(y):
        # the adaptors between the array and all() (not the calls inside the array's elements)
        if y.kind == 'agg' and y.name == 'array':
            return
        if y.kind == 'call':
            chain_ops.append(y.name.rsplit('::', 1)[-1])
        for a in y.args:
            if isinstance(a, E):
                above(a)
    above(s.args[0])
    if any(o not in ('into_iter', 'iter', 'copied', 'cloned', 'as_slice', 'as_ref', 'deref', 'by_ref', 'borrow')
           for o in chain_ops):
        return None
    pred = necessary_true_facts(cbs[0])
    out = []
    for el in arr[0].args:
        here = {}
        for k, v in pred.items():
            if v and v[0] in ('Lt', 'Le', 'Gt', 'Ge', 'Eq', 'Ne'):
                cm = (v[0], subst_closure_param(v[1], el), subst_closure_param(v[2], el))
                here['%s(%r,%r)' % cm] = cm
        out.append(here)
    return out


_OPCALLS = {'add': 'Add', 'sub': 'Sub', 'mul': 'Mul', 'div': 'Div', 'rem': 'Rem'}


def ops_to_bins(e):
    """arithmetic written through the operator traits (`&a - &b` on references, SIMD / matrix types) as bin nodes, so an
    expression reads alike whether rustc emitted a primitive operation or a call to std::ops::Sub::sub"""
    if not isinstance(e, E):
        return e
    x = e
    if x.kind == 'call' and x.name.startswith('std::ops::') and x.name.rsplit('::', 1)[-1] in _OPCALLS and \
            len(x.args) == 2 and not x.proj:
        return E('bin', name=_OPCALLS[x.name.rsplit('::', 1)[-1]], args=[ops_to_bins(x.args[0]), ops_to_bins(x.args[1])],
                 site=x.site)
    if x.args:
        return E(x.kind, name=x.name, args=[ops_to_bins(a) for a in x.args], root=x.root, fields=x.fields,
                 const=x.const, site=x.site, extra=x.extra, proj=x.proj)
    return x


def rv_locals(rv):
    """locals read by an rvalue"""
    out = set()
    for key in ('op', 'a', 'b'):
        o = rv.get(key)
        if isinstance(o, dict) and o.get('k') in ('copy', 'move'):
            out.add(o['pl']['l'])
    if isinstance(rv.get('pl'), dict):
        out.add(rv['pl']['l'])
    for o in rv.get('ops', []) or []:
        if isinstance(o, dict) and o.get('k') in ('copy', 'move'):
            out.add(o['pl']['l'])
    return out


def backward_locals(body, start_defs):
    """locals whose value can flow (flow-insensitively, through assignments, projections and call arguments) into the
    given definitions; start_defs: iterable of defs() entries.  Used for 'this result derives from that buffer'."""
    defs = body.defs()
    seen = set()
    todo = []

    def feed(d):
        if d[0] == 'assign':
            todo.extend(rv_locals(d[3]['rv']))
        elif d[0] == 'call':
            c = d[2]
            for a in c.args:
                if a.get('k') in ('copy', 'move'):
                    todo.append(a['pl']['l'])
    for d in start_defs:
        feed(d)
    while todo:
        l = todo.pop()
        if l in seen:
            continue
        seen.add(l)
        for d in defs.get(l, []) + defs.get((l, 'proj'), []):
            feed(d)
    return seen


def scrutinee_none_defs(body, cond):
    """MIR definitions `local = None` of the (projection-free) local whose discriminant the switch of `cond` reads:
    [(bb, path conditions of bb)]. The expression builder merges equal phi alternatives, so a rule that asks 'under which
    conditions can this option be None' reads the definitions themselves."""
    term = body.blocks[cond.x]['t']
    op = term.get('discr')
    if not op or op.get('k') not in ('copy', 'move') or op['pl']['p']:
        return None
    out = []
    seen = set()
    work = [op['pl']['l']]
    while work:
        l = work.pop()
        if l in seen:
            continue
        seen.add(l)
        for d in body.defs().get(l, []):
            if d[0] != 'assign' or d[1] not in body.live_blocks():
                continue
            rv = d[3]['rv']
            if rv.get('k') == 'discr' and not rv['pl']['p']:
                work.append(rv['pl']['l'])
            elif rv.get('k') == 'discr' and len(rv['pl']['p']) == 1 and isinstance(rv['pl']['p'][0], dict) and \
                    set(rv['pl']['p'][0]) == {'f'}:
                # `match (a, b) { (Some(..), Some(..)) => .. }`: component f of a tuple built from locals
                fi = rv['pl']['p'][0]['f']
                for d2 in body.defs().get(rv['pl']['l'], []):
                    if d2[0] != 'assign':
                        continue
                    rv2 = d2[3]['rv']
                    if not d2[3]['lhs']['p'] and rv2.get('k') == 'agg' and rv2.get('ak') == 'tuple' and fi < len(rv2['ops']) \
                            and rv2['ops'][fi].get('k') in ('copy', 'move') and not rv2['ops'][fi]['pl']['p']:
                        work.append(rv2['ops'][fi]['pl']['l'])
                    elif d2[3]['lhs']['p'] == [{'f': fi}] and rv2.get('k') == 'use' and rv2['op'].get('k') in (
                            'copy', 'move') and not rv2['op']['pl']['p']:
                        work.append(rv2['op']['pl']['l'])
                    elif d2[3]['lhs']['p'] == [{'f': fi}] and rv2.get('k') == 'agg' and rv2.get('v') == 'None':
                        out.append((d2[1], path_conditions(body, d2[1])))
            elif rv.get('k') == 'use' and rv['op'].get('k') in ('copy', 'move') and not rv['op']['pl']['p']:
                work.append(rv['op']['pl']['l'])
            elif rv.get('k') == 'agg' and rv.get('v') == 'None':
                out.append((d[1], path_conditions(body, d[1])))
    return out
