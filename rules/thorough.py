"""Thorough tier: (1) the same rules on the `--no-default-features` configuration, (2) the both-ways variant corpus
(breaking variants must be reported by this property's rules, behaviour-preserving variants must stay silent) replayed
on scratch copies of /repo's current working tree, (3) compile-fail witness + compiling twin for C14.
A corpus mismatch is a weakness of the checker, never a property violation: it is reported in the evidence and on
stderr, and does not change the exit code."""
import glob
import json
import os
import shutil
import subprocess
import sys
import tempfile

import anchors
import engine
import extract
import mir

VERIF = engine.VERIF


def second_config(ctx, mod):
    if ctx.prop == 'C18':
        return {'skipped': 'C18 concerns the python feature only'}
    p, info = extract.facts_for(cfg='nopython')
    F2 = mir.Facts(p)
    anchors.resolve_all(F2)
    ctx2 = engine.Ctx(ctx.prop, F2, 'thorough')
    engine.run_module(mod, ctx2)
    anchors.resolve_all(ctx.F)
    # instance floors were counted on the default configuration (they include the pyo3 layer): not comparable here
    ctx2.findings = [f for f in ctx2.findings if f.instance != 'FLOOR']
    ctx2.obligations = [o for o in ctx2.obligations if o['instance'] != 'FLOOR']
    out = {'cfg': 'nopython', 'facts': os.path.basename(p), 'obligations': len(ctx2.obligations),
           'violated': [f.key for f in ctx2.findings]}
    seen = {f.key for f in ctx.findings}
    for f in ctx2.findings:
        if f.key not in seen:
            f.msg = '[--no-default-features] ' + f.msg
            ctx.findings.append(f)
            ctx.obligations.append({'rule': f.rule, 'def_path': f.defpath, 'instance': f.instance + '@nopython',
                                    'verdict': 'VIOLATED', 'detail': f.msg, 'site': f.site})
    for o in ctx2.obligations:
        if o['verdict'] == 'ok':
            o = dict(o)
            o['instance'] += '@nopython'
            ctx.obligations.append(o)
    return out


def corpus(ctx):
    import scratch
    exp_path = os.path.join(VERIF, 'mutants', 'EXPECT.json')
    if not os.path.exists(exp_path):
        return {'skipped': 'no expectation table'}
    expect = json.load(open(exp_path))
    res = {'breaking_detected': [], 'breaking_missed': [], 'preserving_silent': [], 'preserving_alarmed': [],
           'not_applicable_on_this_tree': []}
    todo = []
    for name, e in sorted(expect.items()):
        patch = None
        for d in ('mutants', ):
            p = os.path.join(VERIF, d, name + '.patch')
            if os.path.exists(p):
                patch = p
        if patch is None:
            continue
        keep = name.startswith('keep-')
        if not keep and ctx.prop not in e.get('expect', []):
            continue
        todo.append((name, patch, keep))
    # the variants are independent: replay them on scratch copies in parallel worker processes (one scratch target
    # directory per worker; the dependency build of a worker is primed on first use)
    jobs = max(1, min(int(os.environ.get('VERIF_JOBS', '12')), (os.cpu_count() or 2) - 2, len(todo)))
    results = {}
    if jobs > 1:
        tmp = tempfile.mkdtemp(prefix='simlint-thorough-')
        procs = []
        for i in range(jobs):
            chunk = todo[i::jobs]
            if not chunk:
                continue
            spec = os.path.join(tmp, 'w%d.json' % i)
            out = os.path.join(tmp, 'o%d.json' % i)
            json.dump({'prop': ctx.prop, 'todo': chunk}, open(spec, 'w'))
            env = dict(os.environ, SCRATCH_TARGET_SUFFIX='-t%d' % i)
            env.pop('SCRATCH_FROM_HEAD', None)
            procs.append((subprocess.Popen([sys.executable, os.path.abspath(__file__), '--worker', spec, out], env=env,
                                           stdout=subprocess.DEVNULL), out, chunk))
        for pr, out, chunk in procs:
            pr.wait()
            if os.path.exists(out):
                results.update(json.load(open(out)))
            for name, _p, _k in chunk:
                results.setdefault(name, {'error': 'worker died (rc=%s)' % pr.returncode})
        shutil.rmtree(tmp, ignore_errors=True)
    else:
        for name, patch, keep in todo:
            results[name] = scratch.run_patch(patch, [ctx.prop])
    for name, patch, keep in todo:
        r = results[name]
        if 'error' in r:
            res['not_applicable_on_this_tree'].append({'variant': name, 'why': r['error'][:120]})
            continue
        rules = sorted({f['rule'] for f in r[ctx.prop]})
        if keep:
            (res['preserving_alarmed'] if rules else res['preserving_silent']).append(
                {'variant': name, 'rules': rules} if rules else name)
        else:
            (res['breaking_detected'] if rules else res['breaking_missed']).append(
                {'variant': name, 'rules': rules} if rules else name)
    anchors.resolve_all(ctx.F)
    for k in ('breaking_missed', 'preserving_alarmed'):
        for v in res[k]:
            sys.stderr.write('CHECKER-REGRESSION property=%s %s: %s\n' % (ctx.prop, k, v))
    return res


WITNESSES = {
    # property -> [(stem, rule, accepted error codes, anchor, instance, what the witness establishes)]
    'C14': [('c14_subset', 'R14.4', {'E0597', 'E0505', 'E0716'}, 'utils::nms::nms', 'witness:result-cannot-outlive-input',
             'the result of nms() borrows from the input detections (subset of the input by lifetime)')],
    'C03': [('c03_store_private', 'R03.1', {'E0616'}, 'trackers::sort::simple_api::Sort::new',
             'witness:tracker-stores-are-private',
             'code outside the crate cannot reach the tracker\'s stores (conservation is a property of the crate)')],
    'C09': [('c03_store_private', 'R09.3', {'E0616'}, 'trackers::sort::simple_api::Sort::new',
             'witness:tracker-stores-are-private',
             'code outside the crate cannot reach the tracker\'s stores')],
    'C11': [('c11_merge_history_private', 'R11.5', {'E0616'}, 'track::Track::merge',
             'witness:merge-history-is-private',
             'a track\'s merge history is only reachable through the track\'s own mutators')],
    'C07': [('c07_state_private', 'R07.8', {'E0616'}, 'utils::kalman::kalman_2d_box::Universal2DBoxKalmanFilter::update',
             'witness:filter-state-is-private', 'mean and covariance change only through initiate/predict/update')],
    'C19': [('c19_cache_private', 'R19.5', {'E0451'}, 'utils::bbox::Universal2DBox::gen_vertices',
             'witness:vertex-cache-is-private', 'a box cannot be built with a hand-made vertex cache')],
    'C08': [('c19_cache_private', 'R08.6', {'E0451'}, 'utils::bbox::Universal2DBox::gen_vertices',
             'witness:vertex-cache-is-private', 'a box cannot be built with a hand-made vertex cache')],
}


def witnesses(ctx):
    """compile-fail witnesses (expected error code) with compiling twins, against the current tree's rmeta"""
    todo = WITNESSES.get(ctx.prop, [])
    if not todo:
        return None
    env = extract.base_env()
    tdir = os.path.join(extract.BUILD, 'target-witness')
    env['CARGO_TARGET_DIR'] = tdir
    env['RUSTFLAGS'] = '-C target-cpu=x86-64-v3 -Awarnings'
    lock = open(os.path.join(extract.BUILD, 'witness.lock'), 'w')
    import fcntl
    fcntl.flock(lock, fcntl.LOCK_EX)
    try:
        r = subprocess.run(['cargo', '+nightly', 'check', '--offline', '--lib'], cwd=extract.REPO, env=env,
                           capture_output=True, text=True)
        if r.returncode != 0:
            raise SystemExit('MACHINERY-ERROR: cargo check for the witnesses failed: ' + r.stderr[-300:])
        deps = os.path.join(tdir, 'debug', 'deps')
        rmetas = sorted(glob.glob(os.path.join(deps, 'libsimilari-*.rmeta')), key=os.path.getmtime)
        if not rmetas:
            raise SystemExit('MACHINERY-ERROR: no rmeta for the witnesses')
        out = {}
        tmp = tempfile.mkdtemp(prefix='simlint-witness-')
        try:
            for stem, R, codes, anchor, inst, what in todo:
                res = {}
                for kind in ('fail', 'twin'):
                    src = os.path.join(VERIF, 'witnesses', '%s_%s.rs' % (stem, kind))
                    cmd = ['rustc', '+nightly', '--edition', '2021', '--emit=metadata', '--crate-type', 'bin', '-C',
                           'target-cpu=x86-64-v3', '--extern', 'similari=' + rmetas[-1], '-L', 'dependency=' + deps,
                           '--out-dir', tmp, src]
                    rr = subprocess.run(cmd, env=env, capture_output=True, text=True)
                    ec = sorted(set(x.split(']')[0] for x in rr.stderr.split('error[')[1:]))
                    res[kind] = {'rc': rr.returncode, 'error_codes': ec}
                    if kind == 'twin' and rr.returncode != 0:
                        res[kind]['stderr'] = rr.stderr[-400:]
                out[stem] = res
                b = ctx.F.one(anchor)
                fail_ok = res['fail']['rc'] != 0 and set(res['fail']['error_codes']) and \
                    set(res['fail']['error_codes']) <= codes
                if res['twin']['rc'] == 0:
                    ctx.check(bool(fail_ok), R, b or anchor, inst,
                              'witness rejected with %s, twin compiles: %s' % (res['fail']['error_codes'], what),
                              'the compile-fail witness witnesses/%s_fail.rs %s: it no longer holds that %s' % (
                                  stem, 'compiles' if res['fail']['rc'] == 0 else 'fails for another reason %s' %
                                  res['fail']['error_codes'], what))
                else:
                    # API used by the twin changed: the witness cannot be interpreted (not a verdict on the property)
                    ctx.note(R, 'witness twin witnesses/%s_twin.rs does not compile on this tree (%s): witness not armed'
                             % (stem, res['twin']['error_codes']))
        finally:
            shutil.rmtree(tmp, ignore_errors=True)
        return out
    finally:
        fcntl.flock(lock, fcntl.LOCK_UN)
        lock.close()


def run(ctx, mod, info):
    extra = {}
    extra['second_configuration'] = second_config(ctx, mod)
    extra['variant_corpus'] = corpus(ctx)
    w = witnesses(ctx)
    if w is not None:
        extra['compile_fail_witness'] = w
    ctx.extra = extra


if __name__ == '__main__' and sys.argv[1:2] == ['--worker']:
    import scratch
    spec = json.load(open(sys.argv[2]))
    out = {}
    for name, patch, keep in spec['todo']:
        try:
            out[name] = scratch.run_patch(patch, [spec['prop']])
        except SystemExit as e:
            out[name] = {'error': 'machinery: %s' % e}
        except Exception as e:      # a worker never takes the whole tier down
            out[name] = {'error': 'worker exception: %s: %s' % (type(e).__name__, e)}
        json.dump(out, open(sys.argv[3], 'w'))
