"""Thorough tier: (1) the same rules on the `--no-default-features` configuration, (2) the both-ways variant corpus
(breaking variants must be reported by this property's rules, behaviour-preserving variants must stay silent) replayed
on scratch copies of /repo's current working tree, (3) compile-fail witness + compiling twin for C14.
A corpus mismatch is a weakness of the checker, never a property violation: it is reported in the evidence and on
stderr, and does not change the exit code."""
import glob
import json
import os
import shutil
import subprocess
import sys
import tempfile

import anchors
import engine
import extract
import mir

VERIF = engine.VERIF


def second_config(ctx, mod):
    if ctx.prop == 'C18':
        return {'skipped': 'C18 concerns the python feature only'}
    p, info = extract.facts_for(cfg='nopython')
    F2 = mir.Facts(p)
    anchors.resolve_all(F2)
    ctx2 = engine.Ctx(ctx.prop, F2, 'thorough')
    mod.run(ctx2)
    anchors.resolve_all(ctx.F)
    # instance floors were counted on the default configuration (they include the pyo3 layer): not comparable here
    ctx2.findings = [f for f in ctx2.findings if f.instance != 'FLOOR']
    ctx2.obligations = [o for o in ctx2.obligations if o['instance'] != 'FLOOR']
    out = {'cfg': 'nopython', 'facts': os.path.basename(p), 'obligations': len(ctx2.obligations),
           'violated': [f.key for f in ctx2.findings]}
    seen = {f.key for f in ctx.findings}
    for f in ctx2.findings:
        if f.key not in seen:
            f.msg = '[--no-default-features] ' + f.msg
            ctx.findings.append(f)
            ctx.obligations.append({'rule': f.rule, 'def_path': f.defpath, 'instance': f.instance + '@nopython',
                                    'verdict': 'VIOLATED', 'detail': f.msg, 'site': f.site})
    for o in ctx2.obligations:
        if o['verdict'] == 'ok':
            o = dict(o)
            o['instance'] += '@nopython'
            ctx.obligations.append(o)
    return out


def corpus(ctx):
    import scratch
    exp_path = os.path.join(VERIF, 'mutants', 'EXPECT.json')
    if not os.path.exists(exp_path):
        return {'skipped': 'no expectation table'}
    expect = json.load(open(exp_path))
    res = {'breaking_detected': [], 'breaking_missed': [], 'preserving_silent': [], 'preserving_alarmed': [],
           'not_applicable_on_this_tree': []}
    for name, e in sorted(expect.items()):
        patch = None
        for d in ('mutants', ):
            p = os.path.join(VERIF, d, name + '.patch')
            if os.path.exists(p):
                patch = p
        if patch is None:
            continue
        keep = name.startswith('keep-')
        if not keep and ctx.prop not in e.get('expect', []):
            continue
        r = scratch.run_patch(patch, [ctx.prop])
        if 'error' in r:
            res['not_applicable_on_this_tree'].append({'variant': name, 'why': r['error'][:120]})
            continue
        rules = sorted({f['rule'] for f in r[ctx.prop]})
        if keep:
            (res['preserving_alarmed'] if rules else res['preserving_silent']).append(
                {'variant': name, 'rules': rules} if rules else name)
        else:
            (res['breaking_detected'] if rules else res['breaking_missed']).append(
                {'variant': name, 'rules': rules} if rules else name)
    anchors.resolve_all(ctx.F)
    for k in ('breaking_missed', 'preserving_alarmed'):
        for v in res[k]:
            sys.stderr.write('CHECKER-REGRESSION property=%s %s: %s\n' % (ctx.prop, k, v))
    return res


def witness_c14(ctx):
    """R14.4: compile-fail witness (E0597/E0505) and compiling twin against the current tree's rmeta"""
    env = extract.base_env()
    tdir = os.path.join(extract.BUILD, 'target-witness')
    env['CARGO_TARGET_DIR'] = tdir
    env['RUSTFLAGS'] = '-C target-cpu=x86-64-v3 -Awarnings'
    r = subprocess.run(['cargo', '+nightly', 'check', '--offline', '--lib'], cwd=extract.REPO, env=env,
                       capture_output=True, text=True)
    if r.returncode != 0:
        return {'skipped': 'cargo check failed: ' + r.stderr[-300:]}
    deps = os.path.join(tdir, 'debug', 'deps')
    rmetas = sorted(glob.glob(os.path.join(deps, 'libsimilari-*.rmeta')), key=os.path.getmtime)
    if not rmetas:
        return {'skipped': 'no rmeta'}
    out = {}
    tmp = tempfile.mkdtemp(prefix='simlint-witness-')
    try:
        for name in ('c14_subset_fail', 'c14_subset_twin'):
            src = os.path.join(VERIF, 'witnesses', name + '.rs')
            cmd = ['rustc', '+nightly', '--edition', '2021', '--emit=metadata', '--crate-type', 'bin', '-C',
                   'target-cpu=x86-64-v3', '--extern', 'similari=' + rmetas[-1], '-L', 'dependency=' + deps,
                   '--out-dir', tmp, src]
            rr = subprocess.run(cmd, env=env, capture_output=True, text=True)
            codes = sorted(set(x.split(']')[0] for x in rr.stderr.split('error[')[1:]))
            out[name] = {'rc': rr.returncode, 'error_codes': codes}
    finally:
        shutil.rmtree(tmp, ignore_errors=True)
    b = ctx.F.one('utils::nms::nms')
    fail_ok = out['c14_subset_fail']['rc'] != 0 and set(out['c14_subset_fail']['error_codes']) & {'E0597', 'E0505', 'E0716'}
    twin_ok = out['c14_subset_twin']['rc'] == 0
    if twin_ok:
        ctx.check(bool(fail_ok), 'R14.4', b or 'utils::nms::nms', 'witness:result-cannot-outlive-input',
                  'compile-fail witness rejected with %s, twin compiles' % out['c14_subset_fail']['error_codes'],
                  'a program that uses the result of nms() after the input detections were dropped compiles (or fails '
                  'for another reason %s): the result no longer borrows from the input, i.e. it is not tied to being a '
                  'subset of the input boxes' % out['c14_subset_fail']['error_codes'])
    else:
        ctx.note('R14.4', 'witness twin does not compile on this tree (%s): witness not armed' % out['c14_subset_twin'])
    return out


def run(ctx, mod, info):
    extra = {}
    extra['second_configuration'] = second_config(ctx, mod)
    extra['variant_corpus'] = corpus(ctx)
    if ctx.prop == 'C14':
        extra['compile_fail_witness'] = witness_c14(ctx)
    ctx.extra = extra
