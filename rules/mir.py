"""Core of the rule library: loads the facts dumped by simlint (one JSON line per MIR body)
and offers CFG utilities, dominators, loops, def-use and origin tracing over them.
Nothing here executes the analysed code. Python 3 stdlib only."""
import json
import os
import re
import sys
from collections import defaultdict

sys.setrecursionlimit(10000)

# ---------------------------------------------------------------------------
# names


def strip_generics(s):
    """`track::Track::<TA, M>::merge` -> `track::Track::merge`;
    `<a::B as c::D<E>>::f` -> `<a::B as c::D>::f`; `std::vec::Vec<T>` -> `std::vec::Vec`."""
    out = []
    i = 0
    n = len(s)

    def skip_angle(i):
        depth = 0
        while i < n:
            c = s[i]
            if c == '<':
                depth += 1
            elif c == '>' and (i == 0 or s[i - 1] != '-'):
                depth -= 1
                if depth == 0:
                    return i + 1
            i += 1
        return n

    while i < n:
        c = s[i]
        if c == '<':
            prev = s[i - 1] if i > 0 else ''
            if prev == ':' or prev.isalnum() or prev == '_' or prev == ']':
                # generic argument list: drop it (and a preceding '::' of a turbofish)
                j = skip_angle(i)
                if out and ''.join(out[-2:]) == '::':
                    out.pop()
                    out.pop()
                i = j
                continue
            else:
                # qualified self `<X as Y>`: keep, normalising the inside
                j = skip_angle(i)
                inner = s[i + 1:j - 1]
                out.append('<' + strip_generics(inner) + '>')
                i = j
                continue
        out.append(c)
        i += 1
    return ''.join(out)


_norm_cache = {}
_RELOC = []      # [(regex, reference path)]: items (types, traits, constants) that moved to another module


def install_relocations(pairs):
    """current def-path -> reference def-path of items that were MOVED (same name, other module; the public path is
    usually kept by a re-export): every normalised path is written in terms of the reference tree, so a rule that
    names `track::LookupRequest` also reads `track::lookup::LookupRequest`"""
    global _RELOC
    _RELOC = [(re.compile(r'(?<![A-Za-z0-9_:])' + re.escape(cur) + r'(?![A-Za-z0-9_])'), ref)
              for cur, ref in sorted(pairs, key=lambda x: -len(x[0]))]
    _norm_cache.clear()


def relocations_of(header, items_file):
    """[(current, reference)] from the header of a fact file and rules/baseline_items.txt"""
    if not os.path.exists(items_file):
        return []
    ref = {}
    for l in open(items_file):
        k, v = l.rstrip('\n').split('\t')
        ref.setdefault(k, set()).add(v)
    roots = {'track', 'trackers', 'utils', 'distance', 'prelude', 'examples'}
    cur = {'adt': {a['path'] for a in header.get('adts', [])}, 'const': {c['path'] for c in header.get('consts', [])},
           'trait': {i['trait'].split('<', 1)[0] for i in header.get('impls', [])
                     if i.get('trait') and i['trait'].split('::', 1)[0] in roots}}
    pairs = []
    for k in cur:
        new = cur[k] - ref.get(k, set())
        gone = ref.get(k, set()) - cur[k]
        for n in new:
            leaf = n.rsplit('::', 1)[-1]
            cands = [g for g in gone if g.rsplit('::', 1)[-1] == leaf]
            same = [m for m in new if m.rsplit('::', 1)[-1] == leaf]
            if len(cands) == 1 and len(same) == 1:
                pairs.append((n, cands[0]))
    return pairs


def relocate(s):
    """a type / path string with moved and renamed items written under their reference paths (generics kept)"""
    for rx, rep in _RELOC:
        s = rx.sub(rep, s)
    return s


_FN_RENAME = {}      # normalised path of a renamed / moved function -> its reference path


def install_fn_renames(m):
    global _FN_RENAME
    _FN_RENAME = dict(m)
    _norm_cache.clear()


_IMPL_HEAD = re.compile(r'^((?:[a-z_][A-Za-z0-9_]*::)+)<impl ')


def canon_impl_path(s):
    """`m::<impl Trait<..> for Type>::f` -> `<Type as Trait<..>>::f`, `m::<impl Type>::f` -> `Type::f`: rustc prints the
    first form when an impl block lives in a module that defines neither the type nor the trait, so MOVING an impl
    block would rename every function in it (and two impls moved into one module would collide after `<impl ..>` is
    dropped). The pyo3 glue is left as it is (its generated items nest several such segments)."""
    m = _IMPL_HEAD.match(s)
    if not m or '::python::' in m.group(1) or m.group(1).split('::', 1)[0] not in (
            'track', 'trackers', 'utils', 'distance', 'prelude', 'examples'):
        return s
    i = m.end() - len('<impl ')
    depth = 0
    j = i
    while j < len(s):
        ch = s[j]
        if ch == '<':
            depth += 1
        elif ch == '>' and s[j - 1] != '-':
            depth -= 1
            if depth == 0:
                break
        j += 1
    inner = s[i + len('<impl '):j]
    rest = s[j + 1:]
    if '<impl ' in rest or not rest.startswith('::'):
        return s
    # split `Trait for Type` at the top-level ` for `
    depth = 0
    k = 0
    cut = None
    while k < len(inner):
        ch = inner[k]
        if ch in '<([':
            depth += 1
        elif ch in '>)]' and inner[k - 1] != '-':
            depth -= 1
        elif depth == 0 and inner.startswith(' for ', k):
            cut = k
            break
        k += 1
    if cut is None:
        return inner + rest
    return '<%s as %s>%s' % (inner[cut + 5:], inner[:cut], rest)


def norm(s):
    r = _norm_cache.get(s)
    if r is None:
        r = canon_impl_path(s)
        for rx, rep in _RELOC:
            r = rx.sub(rep, r)
        r = strip_generics(r)
        if _FN_RENAME:
            head = r.split('::{closure', 1)[0]
            if head in _FN_RENAME:
                r = _FN_RENAME[head] + r[len(head):]
        r = re.sub(r"\{closure#(\d+)\}", r"{closure#\1}", r)
        _norm_cache[s] = r
    return r


# ---------------------------------------------------------------------------
# places / operands helpers


def proj_key(p):
    """hashable form of one projection element"""
    if p == '*':
        return '*'
    if isinstance(p, str):
        return p
    if 'n' in p:
        return ('f', p['n'], norm(p['adt']), p['v'])
    if 'closure' in p:
        return ('upvar', p['f'])
    if 'f' in p:
        return ('t', p['f'])
    if 'idx' in p:
        return ('idx', p['idx'])
    if 'cidx' in p:
        return ('cidx', p['cidx'], p['from_end'])
    if 'sub' in p:
        sb = p['sub'] if isinstance(p['sub'], list) else [None, None]
        return ('sub', sb[0], sb[1], bool(p.get('from_end')))
    if 'dc' in p:
        return ('dc', p['dc'])
    return ('?',)


def place_key(pl):
    return (pl['l'], tuple(proj_key(p) for p in pl['p']))


def proj_name(pk):
    if pk == '*':
        return '*'
    if isinstance(pk, str):
        return pk
    if pk[0] == 'f':
        return pk[1]
    if pk[0] == 'upvar':
        return 'upvar%d' % pk[1]
    if pk[0] == 't':
        return str(pk[1])
    if pk[0] == 'dc':
        return 'as ' + pk[1]
    if pk[0] == 'idx':
        return '[]'
    if pk[0] == 'idxv':
        return '[%s]' % pk[1]
    if pk[0] == 'cidx':
        return '[%d]' % pk[1]
    if pk[0] == 'sub' and len(pk) == 4:
        # `[a, rest @ ..]`: rest = slice[1..len-0]
        return '[%s..%s]' % (pk[1], ('-%s' % pk[2]) if pk[3] else pk[2])
    return '?'


def fields_of(projs):
    """names of the named fields (and tuple indices / downcasts) in a projection tuple, '*' dropped"""
    return tuple(proj_name(p) for p in projs if p != '*')


def fmt_place(pl):
    s = '_%d' % pl['l']
    for p in pl['p']:
        pk = proj_key(p)
        if pk == '*':
            s = '(*%s)' % s
        else:
            s += '.' + proj_name(pk)
    return s


def fmt_const(c):
    if 'fn' in c:
        return 'fn ' + norm(c['fn'])
    if 'item' in c and 'v' in c:
        return 'const %s=%s' % (c['item'], c['v'])
    if 'v' in c:
        return 'const %s:%s' % (c['v'], c['ty'])
    return 'const ' + str(c.get('s', '?'))[:60]


def fmt_op(op):
    if op['k'] in ('copy', 'move'):
        return '%s %s' % (op['k'], fmt_place(op['pl']))
    if op['k'] == 'const':
        return fmt_const(op['c'])
    return op['k']


def fmt_rv(rv):
    k = rv['k']
    if k == 'use':
        return fmt_op(rv['op'])
    if k == 'ref':
        return ('&mut ' if rv['mut'] else '&') + fmt_place(rv['pl'])
    if k == 'rawptr':
        return '&raw ' + fmt_place(rv['pl'])
    if k == 'bin':
        return '%s(%s, %s)' % (rv['op'], fmt_op(rv['a']), fmt_op(rv['b']))
    if k == 'un':
        return '%s(%s)' % (rv['op'], fmt_op(rv['a']))
    if k == 'cast':
        return '%s as %s [%s]' % (fmt_op(rv['op']), rv['ty'], rv['ck'])
    if k == 'discr':
        return 'discriminant(%s)' % fmt_place(rv['pl'])
    if k == 'agg':
        if rv['ak'] == 'adt':
            return '%s::%s{%s}' % (norm(rv['adt']), rv['v'], ', '.join(
                '%s: %s' % (f, fmt_op(o)) for f, o in zip(rv['fields'], rv['ops'])))
        if rv['ak'] == 'closure':
            return 'closure %s [%s]' % (norm(rv['def']), ', '.join(fmt_op(o) for o in rv['ops']))
        return '%s(%s)' % (rv['ak'], ', '.join(fmt_op(o) for o in rv['ops']))
    return k


# ---------------------------------------------------------------------------


class Call:
    """a call terminator"""
    __slots__ = ('body', 'bb', 't', 'callee', 'raw', 'trait', 'res', 'ga', 'args', 'dest', 'target', 'ln',
                 'impl_self', 'indirect')

    def __init__(self, body, bb, t):
        self.body = body
        self.bb = bb
        self.t = t
        f = t['f']
        self.indirect = f['k'] != 'const' or 'fn' not in f.get('c', {})
        c = f.get('c', {}) if f['k'] == 'const' else {}
        self.raw = c.get('fn', '')
        self.callee = norm(self.raw) if self.raw else ''
        self.trait = norm(c['trait']) if c.get('trait') else None
        self.res = norm(c['res']) if c.get('res') else None
        self.ga = c.get('ga', [])
        self.impl_self = c.get('impl_self')
        self.args = t['args']
        self.dest = t['dest']
        self.target = t['target']
        self.ln = t.get('ln', '')

    @property
    def name(self):
        """last path segment of the callee"""
        return self.callee.rsplit('::', 1)[-1] if self.callee else ''

    def is_(self, *names):
        """match the callee (or its resolution) by full normalised path or by suffix '::x'"""
        for n in names:
            for c in (self.callee, self.res):
                if not c:
                    continue
                if c == n or c.endswith('::' + n):
                    return True
        return False

    def __repr__(self):
        return 'call %s @bb%d (%s)' % (self.callee, self.bb, self.ln)


PANIC_FNS = (
    'core::panicking::', 'std::rt::begin_panic', 'core::result::unwrap_failed', 'core::option::unwrap_failed',
    'core::option::expect_failed', 'core::slice::index::', 'std::process::abort', 'std::process::exit',
    'core::str::slice_error_fail', 'core::cell::panic_already',
)


class Body:
    def __init__(self, facts, d):
        self.facts = facts
        self.d = d
        self.path = d['path']
        self.npath = norm(d['path'])
        self.kind = d['kind']
        self.span = d['span']
        self.nargs = d['nargs']
        self.locals = d['locals']
        self.blocks = d['blocks']
        self.n = len(self.blocks)
        self._calls = None
        self._succ = None
        self._pred = None
        self._defs = None
        self._dom = None
        self._pdom = None
        self._diverge = None
        self._reach = {}

    def __repr__(self):
        return 'Body(%s)' % self.npath

    # -- naming
    def var_name(self, local):
        for v in self.d['dbg']:
            if v['pl']['l'] == local and not v['pl']['p']:
                return v['name']
        return None

    def dbg_names(self):
        return {v['name']: v['pl'] for v in self.d['dbg']}

    # -- CFG
    def term(self, bb):
        return self.blocks[bb]['t']

    def calls(self):
        if self._calls is None:
            self._calls = {}
            for i, b in enumerate(self.blocks):
                if b['t']['k'] == 'call':
                    self._calls[i] = Call(self, i, b['t'])
        return self._calls

    def call_at(self, bb):
        return self.calls().get(bb)

    def find_calls(self, *names, pred=None):
        out = []
        for bb, c in sorted(self.calls().items()):
            if self.blocks[bb]['cleanup']:
                continue
            if names and not c.is_(*names):
                continue
            if pred and not pred(c):
                continue
            out.append(c)
        return out

    def diverging(self):
        """blocks that cannot reach a return through normal edges (panic paths, cleanup)"""
        if self._diverge is None:
            succ = self._raw_succ()
            rets = [i for i, b in enumerate(self.blocks) if b['t']['k'] == 'return' and not b['cleanup']]
            pred = defaultdict(list)
            for i, ss in enumerate(succ):
                for s in ss:
                    pred[s].append(i)
            seen = set(rets)
            st = list(rets)
            while st:
                x = st.pop()
                for p in pred[x]:
                    if p not in seen:
                        seen.add(p)
                        st.append(p)
            self._diverge = set(range(self.n)) - seen
        return self._diverge

    def _raw_succ(self):
        out = []
        for i, b in enumerate(self.blocks):
            t = b['t']
            k = t['k']
            if b['cleanup']:
                out.append([])
                continue
            if k == 'goto':
                out.append([t['target']])
            elif k == 'switch':
                s = []
                for v, tg in t['targets']:
                    if tg not in s:
                        s.append(tg)
                if t['otherwise'] not in s:
                    s.append(t['otherwise'])
                out.append(s)
            elif k in ('drop', 'assert'):
                out.append([t['target']])
            elif k == 'call':
                out.append([t['target']] if t['target'] is not None else [])
            else:
                out.append([])
        return out

    def succ(self):
        """normal-edge successors; edges into blocks that can only panic are dropped"""
        if self._succ is None:
            raw = self._raw_succ()
            div = self.diverging()
            self._succ = [[s for s in ss if s not in div] if i not in div else [] for i, ss in enumerate(raw)]
        return self._succ

    def pred(self):
        if self._pred is None:
            p = [[] for _ in range(self.n)]
            for i, ss in enumerate(self.succ()):
                for s in ss:
                    p[s].append(i)
            self._pred = p
        return self._pred

    def live_blocks(self):
        """blocks reachable from entry on normal edges"""
        return self.reach_from(0)

    def reach_from(self, start, avoid=()):
        key = (start, tuple(sorted(avoid)))
        r = self._reach.get(key)
        if r is None:
            succ = self.succ()
            seen = set()
            st = [start] if start not in avoid else []
            if start in self.diverging():
                st = []
            while st:
                x = st.pop()
                if x in seen:
                    continue
                seen.add(x)
                for s in succ[x]:
                    if s not in seen and s not in avoid:
                        st.append(s)
            r = seen
            self._reach[key] = r
        return r

    def returns(self):
        return [i for i in self.live_blocks() if self.blocks[i]['t']['k'] == 'return']

    def switch_edges(self, bb):
        """[(value or None for otherwise, target)]"""
        t = self.blocks[bb]['t']
        assert t['k'] == 'switch'
        return [(v, tg) for v, tg in t['targets']] + [(None, t['otherwise'])]

    # -- dominators (iterative, on the normal-edge graph)
    def dom(self):
        if self._dom is None:
            self._dom = self._dominators(0, self.succ(), self.pred())
        return self._dom

    def _dominators(self, entry, succ, pred):
        order = []
        seen = set()

        def dfs(x):
            st = [(x, iter(succ[x]))]
            seen.add(x)
            while st:
                node, it = st[-1]
                adv = False
                for s in it:
                    if s not in seen:
                        seen.add(s)
                        st.append((s, iter(succ[s])))
                        adv = True
                        break
                if not adv:
                    order.append(node)
                    st.pop()

        dfs(entry)
        rpo = list(reversed(order))
        idx = {b: i for i, b in enumerate(rpo)}
        idom = {entry: entry}
        changed = True
        while changed:
            changed = False
            for b in rpo[1:]:
                ps = [p for p in pred[b] if p in idom]
                if not ps:
                    continue
                new = ps[0]
                for p in ps[1:]:
                    a, c = p, new
                    while a != c:
                        while idx[a] > idx[c]:
                            a = idom[a]
                        while idx[c] > idx[a]:
                            c = idom[c]
                    new = a
                if idom.get(b) != new:
                    idom[b] = new
                    changed = True
        return idom

    def dominates(self, a, b):
        """a dominates b (normal-edge CFG); unreachable b -> True vacuously False"""
        idom = self.dom()
        if b not in idom or a not in idom:
            return False
        x = b
        while True:
            if x == a:
                return True
            if idom[x] == x:
                return False
            x = idom[x]

    def pdom(self):
        """post-dominators w.r.t. a virtual exit joined from all live return blocks"""
        if self._pdom is None:
            n = self.n
            succ = self.succ()
            rsucc = [[] for _ in range(n + 1)]
            rpred = [[] for _ in range(n + 1)]
            live = self.live_blocks()
            for i in live:
                for s in succ[i]:
                    rsucc[s].append(i)
                    rpred[i].append(s)
            for r in self.returns():
                rsucc[n].append(r)
                rpred[r].append(n)
            self._pdom = self._dominators(n, rsucc, rpred)
        return self._pdom

    def postdominates(self, a, b):
        """every normal path from b to a return passes through a"""
        idom = self.pdom()
        if b not in idom or a not in idom:
            return False
        x = b
        while True:
            if x == a:
                return True
            if idom[x] == x:
                return False
            x = idom[x]

    # -- loops
    def back_edges(self):
        out = []
        for i in self.live_blocks():
            for s in self.succ()[i]:
                if self.dominates(s, i):
                    out.append((i, s))
        return out

    def loops(self):
        """{header: set(blocks)} natural loops"""
        res = defaultdict(set)
        pred = self.pred()
        for tail, head in self.back_edges():
            body = {head, tail}
            st = [tail]
            while st:
                x = st.pop()
                if x == head:
                    continue
                for p in pred[x]:
                    if p not in body:
                        body.add(p)
                        st.append(p)
            res[head] |= body
        return dict(res)

    def in_loop(self, bb):
        return [h for h, blks in self.loops().items() if bb in blks]

    # -- def/use
    def defs(self):
        """local -> list of ('assign', bb, si, stmt) | ('call', bb, Call) | ('arg',) whole-local definitions;
        projections assigned separately under key (local, 'proj')"""
        if self._defs is None:
            d = defaultdict(list)
            for i, b in enumerate(self.blocks):
                if b['cleanup']:
                    continue
                for si, s in enumerate(b['st']):
                    if s['k'] == 'assign':
                        l = s['lhs']
                        if not l['p']:
                            d[l['l']].append(('assign', i, si, s))
                        else:
                            d[(l['l'], 'proj')].append(('assign', i, si, s))
                t = b['t']
                if t['k'] == 'call':
                    l = t['dest']
                    if not l['p']:
                        d[l['l']].append(('call', i, self.call_at(i)))
                    else:
                        d[(l['l'], 'proj')].append(('call', i, self.call_at(i)))
            self._defs = d
        return self._defs

    def uses_of(self, local):
        """[(bb, 'st'|'term', index, kind)] places where `local` is read/borrowed/moved (any projection)"""
        out = []

        def op_uses(op):
            return op['k'] in ('copy', 'move') and op['pl']['l'] == local

        for i, b in enumerate(self.blocks):
            if b['cleanup']:
                continue
            for si, s in enumerate(b['st']):
                if s['k'] != 'assign':
                    continue
                rv = s['rv']
                hit = False
                for key in ('op', 'a', 'b'):
                    if key in rv and isinstance(rv[key], dict) and op_uses(rv[key]):
                        hit = True
                if 'pl' in rv and rv['pl']['l'] == local:
                    hit = True
                if 'ops' in rv and any(op_uses(o) for o in rv['ops']):
                    hit = True
                if s['lhs']['l'] == local and s['lhs']['p']:
                    hit = True
                if hit:
                    out.append((i, 'st', si))
            t = b['t']
            if t['k'] == 'call':
                if any(op_uses(a) for a in t['args']) or op_uses(t['f']):
                    out.append((i, 'term', 0))
            elif t['k'] == 'switch':
                if op_uses(t['discr']):
                    out.append((i, 'term', 0))
            elif t['k'] == 'assert':
                if op_uses(t['cond']):
                    out.append((i, 'term', 0))
        return out

    # -- pretty print
    def dump(self, out=sys.stdout):
        w = out.write
        w('fn %s   [%s] %s\n' % (self.path, self.kind, self.span))
        names = {}
        for v in self.d['dbg']:
            names.setdefault(fmt_place(v['pl']), v['name'])
        for i, t in enumerate(self.locals):
            nm = names.get('_%d' % i)
            w('  let _%d: %s%s\n' % (i, t, ('   // ' + nm) if nm else ''))
        for k, v in names.items():
            if not re.fullmatch(r'_\d+', k):
                w('  debug %s => %s\n' % (v, k))
        div = self.diverging()
        for i, b in enumerate(self.blocks):
            if b['cleanup']:
                continue
            w('bb%d%s:\n' % (i, ' (diverges)' if i in div else ''))
            for s in b['st']:
                if s['k'] == 'assign':
                    w('    %s = %s\n' % (fmt_place(s['lhs']), fmt_rv(s['rv'])))
                elif s['k'] == 'setdiscr':
                    w('    discriminant(%s) = %s\n' % (fmt_place(s['lhs']), s['v']))
            t = b['t']
            k = t['k']
            if k == 'call':
                c = self.call_at(i)
                w('    %s = %s(%s) -> %s   // %s%s\n' % (fmt_place(t['dest']), c.callee or fmt_op(t['f']),
                                                     ', '.join(fmt_op(a) for a in t['args']),
                                                     'bb%s' % t['target'] if t['target'] is not None else '!',
                                                     t['ln'].rsplit(':', 1)[-1],
                                                     (' res=' + c.res) if c.res else ''))
            elif k == 'switch':
                w('    switch %s [%s, otherwise bb%d]\n' % (fmt_op(t['discr']), ', '.join(
                    '%s: bb%d' % (v, tg) for v, tg in t['targets']), t['otherwise']))
            elif k == 'drop':
                w('    drop(%s) -> bb%d\n' % (fmt_place(t['pl']), t['target']))
            elif k == 'goto':
                w('    goto bb%d\n' % t['target'])
            elif k == 'assert':
                w('    assert(%s == %s) -> bb%d\n' % (fmt_op(t['cond']), t['expected'], t['target']))
            else:
                w('    %s\n' % k)


# ---------------------------------------------------------------------------


class Facts:
    def __init__(self, path, baseline=None):
        self.path = path
        self._baseline_arg = baseline
        with open(path) as f:
            text = f.read()
        if 'BTree' in text:
            # ordered and hashed std maps / sets are one abstraction for every rule (keyed lookup, membership, insertion);
            # the only difference, iteration order, is never relied on by a rule (R05.4 is an inventory): an ordered
            # container is read under the name of its hashed sibling
            for a_, b_ in (('std::collections::BTreeMap', 'std::collections::HashMap'),
                           ('std::collections::BTreeSet', 'std::collections::HashSet'),
                           ('std::collections::btree_map::', 'std::collections::hash_map::'),
                           ('std::collections::btree_set::', 'std::collections::hash_set::'),
                           ('alloc::collections::btree::map::', 'std::collections::hash_map::'),
                           ('alloc::collections::btree::set::', 'std::collections::hash_set::')):
                text = text.replace(a_, b_)
        lines = text.split('\n')
        self.header = json.loads(lines[0])
        self._raw = {}
        self.order = []
        rx = re.compile(r'^\{"path":("(?:[^"\\]|\\.)*")')
        for l in lines[1:]:
            if not l:
                continue
            m = rx.match(l)
            p = json.loads(m.group(1))
            self._raw.setdefault(p, []).append(l)
            self.order.append(p)
        self._bodies = {}
        # items that moved to another module are read under their reference path (reference tree: nothing moves)
        import os as _os
        self.relocations = relocations_of(self.header, _os.path.join(_os.path.dirname(_os.path.abspath(__file__)),
                                                                     'baseline_items.txt')) \
            if baseline is None else []
        import canon as _canon
        self.canon = _canon.Canon(self.header, _canon.load_reference() if baseline is None else None,
                                  self.relocations, lines[1:])
        # renamed private types are read under their reference path, their variants / fields under the reference names
        self.trait_renames = self.canon.match_traits(self.header, _os.path.join(_os.path.dirname(
            _os.path.abspath(__file__)), 'baseline_items.txt')) if baseline is None else []
        install_relocations(self.relocations + self.canon.renamed_types() + self.trait_renames)
        self.canon.apply_header(self.header)
        # private single-field wrapper structs that do not exist on the reference tree (typed ids, fixed-point weights,
        # degrees-of-freedom newtypes ...) are transparent: normalised path -> type of the wrapped field
        self.new_newtypes = {}
        if baseline is None and self.canon.reference:
            for a in self.header['adts']:
                p_ = norm(a['path'])
                if a.get('kind') == 'Struct' and len(a.get('variants', [])) == 1 and \
                        len(a['variants'][0].get('fields', [])) == 1 and a['path'] not in self.canon.adt_pairs and \
                        p_ not in self.canon.adt_pairs and a['path'] not in self.canon.reference and \
                        p_ not in self.canon.reference and not p_.startswith('examples') and 'python' not in p_ and \
                        not p_.rsplit('::', 1)[-1].startswith('Py'):
                    self.new_newtypes[p_] = a['variants'][0]['fields'][0].get('ty', '?')
        self.norm_index = defaultdict(list)
        for p in self._raw:
            self.norm_index[norm(p)].append(p)
        install_fn_renames({})
        self.adts = {norm(a['path']): a for a in self.header['adts']}
        self.impls = self.header['impls']
        self.n_bodies = len(self.order)
        self._callers = None
        import inliner
        # baseline: None -> rules/baseline_fns.txt; False -> no inlining; a set -> that set
        self.baseline = inliner.load_baseline() if self._baseline_arg is None else (
            None if self._baseline_arg is False else dict.fromkeys(self._baseline_arg, (None, None, None))
            if not isinstance(self._baseline_arg, dict) else self._baseline_arg)
        self.inlined = {}
        # renamed / moved functions are read under their reference path
        self.fn_renames = {}
        if baseline is None and self.baseline:
            leaf_map = {c.rsplit('::', 1)[-1]: r.rsplit('::', 1)[-1] for c, r in self.canon.adt_pairs.items()
                        if c.rsplit('::', 1)[-1] != r.rsplit('::', 1)[-1]}
            leaf_map.update({c.rsplit('::', 1)[-1]: r.rsplit('::', 1)[-1] for c, r in self.trait_renames
                             if c.rsplit('::', 1)[-1] != r.rsplit('::', 1)[-1]})
            self.fn_renames = _canon.match_functions(self, norm, self.baseline, leaf_map)
            if self.fn_renames:
                install_fn_renames(self.fn_renames)
                self.norm_index = defaultdict(list)
                for p in self._raw:
                    self.norm_index[norm(p)].append(p)

    def is_new_helper(self, npath):
        """a function that does not exist on the reference tree and is not a rename: rules see it inlined in its
        callers, so it is never judged on its own (who-may-write, anchors)"""
        if self.baseline is None:
            return False
        root = npath
        while '::{closure#' in root:
            root = root[:root.rindex('::{closure#')]
        import inliner
        if getattr(self, '_renamed', None) is None:
            self._renamed = inliner.renamed_helpers(self, norm)
        if root in self.baseline:
            return root in getattr(self, '_resigned', ())
        return root not in self._renamed

    def seen_inlined(self, npath):
        """a new helper that was spliced into at least one caller: rules judge it there, with the arguments the caller
        passes, and never on its own"""
        if not self.is_new_helper(npath):
            return False
        if getattr(self, '_inlined_set', None) is None:
            self.callers()                      # loads (and normalises) every body
            self._inlined_set = {norm(p) for v in self.inlined.values() for p in v}
        root = npath
        while '::{closure#' in root:
            root = root[:root.rindex('::{closure#')]
        return root in self._inlined_set

    def load_dicts(self, path):
        """the body dicts stored under a raw path, with private names canonicalised (rules/canon.py)"""
        return [self.canon.apply(json.loads(l)) for l in self._raw[path]]

    def bodies_raw(self, path):
        if path not in self._bodies:
            ds = self.load_dicts(path)
            if self._baseline_arg is not False:
                import inliner
                ds = [inliner.prepare_body(self, d, norm) for d in ds]
                for d in ds:
                    if d.get('inlined'):
                        self.inlined[norm(d['path'])] = d['inlined']
            self._bodies[path] = [Body(self, d) for d in ds]
        return self._bodies[path]

    def get(self, npath):
        """all bodies whose normalised path equals npath"""
        out = []
        for p in self.norm_index.get(npath, []):
            out.extend(self.bodies_raw(p))
        return out

    def one(self, npath):
        r = self.get(npath)
        return r[0] if len(r) == 1 else None

    def search(self, rx):
        r = re.compile(rx)
        out = []
        for np_, ps in self.norm_index.items():
            if r.search(np_):
                for p in ps:
                    out.extend(self.bodies_raw(p))
        return out

    def all_bodies(self):
        for p in self._raw:
            for b in self.bodies_raw(p):
                yield b

    def fn_bodies(self):
        for b in self.all_bodies():
            if b.kind in ('Fn', 'AssocFn', 'Closure'):
                yield b

    def closures_of(self, body):
        """closure bodies whose direct parent is `body`"""
        out = []
        for b in self.search(re.escape(body.npath) + r'::\{closure#\d+\}$'):
            if b.kind == 'Closure':
                out.append(b)
        return out

    def closure_body(self, defpath):
        r = self.get(norm(defpath))
        return r[0] if r else None

    def impl_methods(self, trait_suffix, method):
        """bodies implementing `method` of a trait whose normalised path ends with trait_suffix"""
        out = []
        for b in self.fn_bodies():
            if b.kind == 'AssocFn' and b.d.get('impl_trait') and b.d.get('name') == method:
                t = norm(b.d['impl_trait'])
                if t == trait_suffix or t.endswith('::' + trait_suffix):
                    out.append(b)
        return out

    def callers(self):
        """callee normalised path -> [(Body, Call)] over all non-cleanup call sites"""
        if self._callers is None:
            idx = defaultdict(list)
            for b in self.fn_bodies():
                for bb, c in b.calls().items():
                    if b.blocks[bb]['cleanup']:
                        continue
                    if c.callee:
                        idx[c.callee].append((b, c))
                    if c.res and c.res != c.callee:
                        idx[c.res].append((b, c))
            self._callers = idx
        return self._callers


# ---------------------------------------------------------------------------
# origin tracing (P1)

# calls that return (a view of / a copy of / the payload of) their first argument
TRANSPARENT = {
    'clone', 'cloned', 'copied', 'unwrap', 'expect', 'as_ref', 'as_mut', 'deref', 'deref_mut', 'borrow',
    'borrow_mut', 'into', 'from', 'to_owned', 'unwrap_or', 'unwrap_or_default', 'as_slice', 'as_deref', 'iter',
    'into_iter', 'to_vec', 'as_mut_slice', 'unwrap_unchecked', 'into_inner', 'get_ref', 'get_mut_ref', 'by_ref',
    'unwrap_or_else', 'ok', 'branch', 'from_residual', 'into_future', 'as_ptr', 'index', 'index_mut', 'iter_mut',
    'read', 'write', 'lock', 'try_into', 'new_unchecked',
}
# subset that is still the same storage (borrowing views); used by restore / lock-class analyses
VIEW = {'deref', 'deref_mut', 'as_ref', 'as_mut', 'borrow', 'borrow_mut', 'as_slice', 'as_mut_slice', 'index',
        'index_mut', 'unwrap', 'expect', 'as_deref', 'by_ref'}


class Term:
    """terminal of an origin trace"""
    __slots__ = ('kind', 'data', 'proj', 'site')

    def __init__(self, kind, data, proj=(), site=None):
        self.kind = kind      # 'param' | 'upvar' | 'const' | 'call' | 'agg' | 'bin' | 'un' | 'cast' | 'discr' | 'local' | 'other'
        self.data = data
        self.proj = tuple(proj)
        self.site = site      # (bb, si) or (bb, 'term')

    def key(self):
        return (self.kind, self.data if not isinstance(self.data, (dict, list, Call)) else id(self.data), self.proj,
                self.site)

    def fields(self):
        return fields_of(self.proj)

    def __repr__(self):
        d = self.data
        if self.kind == 'call':
            d = d.callee
        elif self.kind == 'const':
            d = fmt_const(d)
        elif self.kind == 'agg':
            d = norm(d.get('adt', d.get('def', d['ak']))) + ('::' + d['v'] if 'v' in d else '')
        elif self.kind in ('bin', 'un'):
            d = d['op']
        elif self.kind == 'cast':
            d = d['ck']
        return '%s(%s)%s' % (self.kind, d, ('.' + '.'.join(fields_of(self.proj))) if self.proj else '')


class Tracer:
    """backward def-use closure inside one body, flow-insensitive (union over all definitions of a local)."""

    def __init__(self, body, transparent=TRANSPARENT, through_casts=True, through_bin=False, stop_calls=()):
        self.body = body
        self.transparent = transparent
        self.through_casts = through_casts
        self.through_bin = through_bin
        self.stop_calls = stop_calls

    def of_operand(self, op, proj=()):
        if op['k'] in ('copy', 'move'):
            return self.of_place(op['pl'], proj)
        if op['k'] == 'const':
            return [Term('const', op['c'], proj)]
        return [Term('other', op['k'], proj)]

    def of_place(self, pl, proj=()):
        pk = tuple(proj_key(p) for p in pl['p']) + tuple(proj)
        out = {}
        self._trace(pl['l'], pk, out, set())
        return list(out.values())

    def _emit(self, out, term):
        out.setdefault(term.key(), term)

    def _trace(self, local, proj, out, seen):
        key = (local, proj)
        if key in seen:
            return
        seen.add(key)
        body = self.body
        if 1 <= local <= body.nargs:
            # parameters (closure env is param 1 of a closure)
            if body.kind == 'Closure' and local == 1:
                # find upvar index
                p = [x for x in proj if x != '*']
                if p and p[0][0] == 'upvar':
                    rest = list(proj)
                    i = rest.index(p[0])
                    self._emit(out, Term('upvar', p[0][1], tuple(rest[i + 1:])))
                else:
                    self._emit(out, Term('param', local, proj))
            else:
                self._emit(out, Term('param', local, proj))
            # parameters can also be re-assigned; fall through to definitions
        defs = body.defs().get(local, [])
        if not defs and not (1 <= local <= body.nargs):
            # maybe defined only through projections (e.g. tuple built field by field)
            pdefs = body.defs().get((local, 'proj'), [])
            matched = False
            for d in pdefs:
                if d[0] == 'assign':
                    s = d[3]
                    lp = tuple(proj_key(p) for p in s['lhs']['p'])
                    if proj[:len(lp)] == lp:
                        matched = True
                        self._rvalue(s['rv'], proj[len(lp):], out, seen, (d[1], d[2]))
            if not matched:
                self._emit(out, Term('local', local, proj))
            return
        for d in defs:
            if d[0] == 'assign':
                self._rvalue(d[3]['rv'], proj, out, seen, (d[1], d[2]))
            else:
                self._call(d[2], proj, out, seen)
        # field-wise assignments to a whole local (x.f = ...) matching our pending projection
        for d in body.defs().get((local, 'proj'), []):
            if d[0] == 'assign':
                s = d[3]
                lp = tuple(proj_key(p) for p in s['lhs']['p'])
                if lp and proj[:len(lp)] == lp:
                    self._rvalue(s['rv'], proj[len(lp):], out, seen, (d[1], d[2]))

    def _op(self, op, proj, out, seen):
        if op['k'] in ('copy', 'move'):
            pl = op['pl']
            pk = tuple(proj_key(p) for p in pl['p']) + tuple(proj)
            self._trace(pl['l'], pk, out, seen)
        elif op['k'] == 'const':
            self._emit(out, Term('const', op['c'], proj))
        else:
            self._emit(out, Term('other', op['k'], proj))

    def _rvalue(self, rv, proj, out, seen, site):
        k = rv['k']
        if k == 'use':
            self._op(rv['op'], proj, out, seen)
        elif k in ('ref', 'rawptr'):
            # &P followed by a deref cancels
            p = list(proj)
            if p and p[0] == '*':
                p = p[1:]
            pl = rv['pl']
            pk = tuple(proj_key(x) for x in pl['p']) + tuple(p)
            self._trace(pl['l'], pk, out, seen)
        elif k == 'cast':
            if self.through_casts and rv['ck'] != 'Transmute':
                self._op(rv['op'], proj, out, seen)
            elif self.through_casts and rv['ck'] == 'Transmute':
                self._emit(out, Term('cast', rv, proj, site))
                self._op(rv['op'], (), out, seen)
            else:
                self._emit(out, Term('cast', rv, proj, site))
        elif k == 'agg':
            # projection into an aggregate: follow the matching operand
            p = [x for x in proj]
            while p and p[0] == '*':
                p = p[1:]
            if p and rv['ak'] == 'adt' and p[0][0] == 'dc':
                # downcast to the constructed variant
                if p[0][1] == rv['v']:
                    p = p[1:]
                else:
                    return  # other variant: not this definition
            if p and rv['ak'] == 'adt' and p[0][0] == 'f':
                name = p[0][1]
                if p[0][3] != rv['v']:
                    return
                if name in rv['fields']:
                    self._op(rv['ops'][rv['fields'].index(name)], tuple(p[1:]), out, seen)
                    return
            if p and rv['ak'] in ('tuple', 'array') and p[0][0] == 't':
                i = p[0][1]
                if i < len(rv['ops']):
                    self._op(rv['ops'][i], tuple(p[1:]), out, seen)
                    return
            if p and rv['ak'] == 'closure' and p[0][0] == 'upvar':
                i = p[0][1]
                if i < len(rv['ops']):
                    self._op(rv['ops'][i], tuple(p[1:]), out, seen)
                    return
            self._emit(out, Term('agg', rv, proj, site))
        elif k == 'bin':
            self._emit(out, Term('bin', rv, proj, site))
            if self.through_bin:
                self._op(rv['a'], (), out, seen)
                self._op(rv['b'], (), out, seen)
        elif k == 'un':
            self._emit(out, Term('un', rv, proj, site))
            if self.through_bin:
                self._op(rv['a'], (), out, seen)
        elif k == 'discr':
            self._emit(out, Term('discr', rv, proj, site))
        else:
            self._emit(out, Term('other', k, proj, site))

    def _call(self, c, proj, out, seen):
        self._emit(out, Term('call', c, proj, (c.bb, 'term')))
        if c.name in self.transparent and c.args and c.callee not in self.stop_calls:
            # payload projections (`as Some`.0 after unwrap) are dropped: the value is "inside" arg0
            self._op(c.args[0], (), out, seen)


def origins(body, op_or_place, **kw):
    t = Tracer(body, **kw)
    if 'l' in op_or_place:
        return t.of_place(op_or_place)
    return t.of_operand(op_or_place)


# ---------------------------------------------------------------------------
# comparison normalisation (P2)

FLIP = {'Lt': 'Gt', 'Gt': 'Lt', 'Le': 'Ge', 'Ge': 'Le', 'Eq': 'Eq', 'Ne': 'Ne'}
NEG = {'Lt': 'Ge', 'Ge': 'Lt', 'Gt': 'Le', 'Le': 'Gt', 'Eq': 'Ne', 'Ne': 'Eq'}
CMP_OPS = set(FLIP)
CMP_CALLS = {'lt': 'Lt', 'le': 'Le', 'gt': 'Gt', 'ge': 'Ge', 'eq': 'Eq', 'ne': 'Ne'}


class Cmp:
    """a comparison site: op(a, b) with operands as MIR operands"""

    def __init__(self, body, bb, si, op, a, b, dest, ln):
        self.body = body
        self.bb = bb
        self.si = si
        self.op = op
        self.a = a
        self.b = b
        self.dest = dest
        self.ln = ln

    def __repr__(self):
        return 'Cmp(%s %s %s @%s)' % (fmt_op(self.a), self.op, fmt_op(self.b), self.ln)


def comparisons(body):
    """all comparison sites of a body: BinaryOp(Lt..) statements and PartialOrd/PartialEq method calls"""
    out = []
    for i in sorted(body.live_blocks()):
        b = body.blocks[i]
        for si, s in enumerate(b['st']):
            if s['k'] == 'assign' and s['rv']['k'] == 'bin' and s['rv']['op'] in CMP_OPS:
                rv = s['rv']
                out.append(Cmp(body, i, si, rv['op'], rv['a'], rv['b'], s['lhs'], s['ln']))
        c = body.call_at(i)
        if c and c.trait in ('std::cmp::PartialOrd', 'std::cmp::PartialEq') and c.name in CMP_CALLS and len(
                c.args) == 2:
            out.append(Cmp(body, i, 'term', CMP_CALLS[c.name], c.args[0], c.args[1], c.dest, c.ln))
    return out
