"""Who-may-write rules (ownership / layering): each piece of tracked state has a small set of functions that may change
it; a new writer elsewhere bypasses the bookkeeping the owner performs (history trimming, counters, epoch stamping,
cache invalidation, rollback).  Instances were inferred from today's tree (every field below has exactly these writers),
confirmed by reading, and frozen here with one line of reason each.

A writer outside the table is reported only if it can run: it has a caller in the crate (tests, examples and the pyo3
glue excluded), or it is a trait-impl method (called through the trait).  Private helpers all of whose callers are
allowed writers are allowed themselves (so splitting an owner into helpers is silent)."""
from lib import field_mutators
import wiring

SORT = 'trackers::sort::SortAttributes'
VIS = 'trackers::visual_sort::track_attributes::VisualAttributes'

# (adt suffix, field) -> (allowed writer suffixes, properties, reason)
TABLE = {
    ('sort::SortAttributes', 'observed_boxes'): (['@update_history:sort'], ['C01', 'C13'],
                                                 'history is appended and trimmed in one place'),
    ('sort::SortAttributes', 'predicted_boxes'): (['@update_history:sort'], ['C01', 'C13'],
                                                  'history is appended and trimmed in one place'),
    ('sort::SortAttributes', 'track_length'): (['@update_history:sort'], ['C01', 'C13'],
                                               'length counts history updates'),
    ('sort::SortAttributes', 'last_updated_epoch'): (['TrackAttributes>::merge', 'TrackAttributesUpdate>::apply'],
                                                     ['C03'], 'epoch stamp moves only with an update / a merge'),
    ('sort::SortAttributes', 'scene_id'): (['TrackAttributesUpdate>::apply'], ['C04'],
                                           'a track never changes its scene after initialisation'),
    ('sort::SortAttributes', 'state'): (['TrackAttributesKalmanPrediction>::set_state'], ['C07'],
                                        'filter state is stored only by make_prediction through set_state'),
    ('track_attributes::VisualAttributes', 'observed_boxes'): (['@update_history:visual'], ['C13'],
                                                               'history is appended and trimmed in one place'),
    ('track_attributes::VisualAttributes', 'predicted_boxes'): (['@update_history:visual'], ['C13'],
                                                                'history is appended and trimmed in one place'),
    ('track_attributes::VisualAttributes', 'observed_features'): (['@update_history:visual'], ['C13'],
                                                                  'history is appended and trimmed in one place'),
    ('track_attributes::VisualAttributes', 'track_length'): (['@update_history:visual'], ['C13'],
                                                             'length counts history updates'),
    ('track_attributes::VisualAttributes', 'visual_features_collected_count'): (
        ['VisualMetric as track::ObservationMetric>::optimize'], ['C12', 'C13'],
        'the count gates appearance matching; it moves with the gallery only'),
    ('track_attributes::VisualAttributes', 'last_updated_epoch'): (
        ['TrackAttributes>::merge', 'TrackAttributesUpdate>::apply'], ['C03'],
        'epoch stamp moves only with an update / a merge'),
    ('track_attributes::VisualAttributes', 'scene_id'): (['TrackAttributesUpdate>::apply'], ['C04'],
                                                         'a track never changes its scene after initialisation'),
    ('track_attributes::VisualAttributes', 'state'): (['TrackAttributesKalmanPrediction>::set_state'], ['C07'],
                                                      'filter state is stored only through set_state'),
    ('track_attributes::VisualAttributes', 'voting_type'): (
        ['TrackAttributes>::merge', 'TrackAttributesUpdate>::apply'], ['C12'],
        'the reported voting type travels with the update / the merge'),
    ('track::Track', 'merge_history'): (['track::Track::merge'], ['C11'], 'merge history is extended once, by merge'),
    ('track::Track', 'attributes'): (['track::Track::add_observation', 'track::Track::merge',
                                      'track::Track::update_attributes'], ['C11'],
                                     'the three mutators snapshot and restore the attributes on failure'),
    ('track::Track', 'observations'): (['track::Track::add_observation', 'track::Track::merge',
                                        'track::Track::get_mut_observations'], ['C11', 'C10'],
                                       'the mutators snapshot and restore the observations on failure'),
    ('bbox::Universal2DBox', '_vertex_cache'): (['Universal2DBox::gen_vertices', 'Universal2DBox::rotate_mut'],
                                                ['C19', 'C14', 'C08'],
                                                'the cache is (re)computed or dropped, never patched'),
}


def resolve_roles(sfx):
    """'@update_history:<kind>' -> the helper discovered by role (rules/helpers.py; renaming it is silent)"""
    import trackerlib
    out = []
    for x in sfx:
        if x.startswith('@update_history:'):
            out.append(trackerlib.UPDATE_HISTORY[x.split(':', 1)[1]])
        else:
            out.append(x)
    return out


def root_fn(b):
    p = b.npath
    while '::{closure#' in p:
        p = p[:p.rindex('::{closure#')]
    return p


def run(ctx, R, prop):
    """evaluates the table rows that list `prop`; returns the number of (field, writer) instances"""
    F = ctx.F
    callers = F.callers()
    n = 0
    for (adt, field), (allowed_sfx, props, reason) in sorted(TABLE.items()):
        if prop not in props:
            continue
        allowed_sfx = resolve_roles(allowed_sfx)
        muts = field_mutators(F, adt, field, skip=wiring.skip_body)
        fns = {}
        for b, sites in muts.items():
            fns.setdefault(root_fn(b), []).extend(sites)
            ctx.read(b)
        allowed = {f for f in fns if any(f.endswith(s) for s in allowed_sfx)}
        changed = True
        while changed:
            changed = False
            for f in fns:
                if f in allowed:
                    continue
                cs = {root_fn(cb) for cb, _ in callers.get(f, []) if not wiring.skip_body(cb)}
                if cs and cs <= allowed:
                    allowed.add(f)
                    changed = True
        if not any(any(f.endswith(s) for s in allowed_sfx) for f in fns):
            ctx.fail(R, adt + '.' + field, 'ANCHOR-MISSING:owner', 'none of the owners %s writes %s.%s any more (field or '
                     'owner renamed?): ownership row cannot be evaluated' % (allowed_sfx, adt, field))
            continue
        for f, sites in sorted(fns.items()):
            live = bool([1 for cb, _ in callers.get(f, []) if not wiring.skip_body(cb)]) or f.startswith('<')
            n += 1
            ok = f in allowed or not live
            b0 = (F.get(f) or [None])[0]
            ctx.check(ok, R, b0 or f, 'writer:%s.%s<-%s' % (adt.rsplit('::', 1)[-1], field, f.rsplit('::', 1)[-1]),
                      'allowed' if f in allowed else 'not reachable',
                      '%s writes %s.%s (%s at %s) but is not one of its owners %s — %s' % (
                          f, adt, field, sites[0][0], sites[0][1], allowed_sfx, reason), sites[0][1])
    return n
