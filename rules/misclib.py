"""Small shared rules added in round 5."""
from lib import ExprBuilder, all_closures
import wiring


def rule_library_epsilon(ctx, R):
    """`similari::EPS` is a public constant of the crate: equality tolerances, the `+ EPS` in the share denominator and
    the regulariser of dist_in_2r are stated in terms of it. Its value, 1e-5, is user-visible behaviour (frozen table of
    one entry): three orders of magnitude more make shares, distances and IoU of small (normalised-coordinate) boxes
    visibly wrong while pixel-sized boxes hide it."""
    bs = ctx.F.search('^EPS$')
    if len(bs) != 1:
        ctx.fail(R, 'EPS', 'ANCHOR-MISSING', 'the public constant EPS was not found')
        return 0
    e = ExprBuilder(bs[0]).place(0, ())
    v = None
    try:
        v = float(e.const_value()) if e.kind == 'const' else None
    except (TypeError, ValueError):
        v = None
    ctx.read(bs[0])
    ctx.check(v is not None and abs(v - 1e-5) < 1e-12, R, bs[0], 'EPS=1e-5', repr(e),
              'the public constant EPS is %r (documented library epsilon: 1e-5): every tolerance / regulariser stated in '
              'terms of it changes by that factor' % e)
    return 1


def rule_who_may_notify(ctx, R):
    """change notifications are emitted by the track's own mutators only (Track::new, add_observation, merge): a
    notification sent from the store (add_track, merge_owned ..) fires for operations that did not change a track - or
    failed - and doubles the one the mutator sends"""
    OWN = ('track::Track::new', 'track::Track::add_observation', 'track::Track::merge', 'track::Track::update_attributes')
    n = 0
    for b in ctx.F.all_bodies():
        if wiring.skip_body(b):
            continue
        for c in b.find_calls('send'):
            if 'ChangeNotifier' not in c.callee and 'notify::' not in c.callee:
                continue
            root = b.npath
            while '::{closure#' in root:
                root = root[:root.rindex('::{closure#')]
            n += 1
            ctx.read(b)
            ok = root in OWN or (hasattr(ctx.F, 'is_new_helper') and ctx.F.is_new_helper(root) and False)
            ctx.check(ok, R, b, 'notifies:' + root.rsplit('::', 1)[-1], '',
                      '%s sends a change notification: only Track::new / add_observation / merge notify (exactly once per '
                      'successful change); a notification from here is emitted for failed or unchanged operations too' % root,
                      c.ln)
    return n


def rule_blocking_receives_only(ctx, R):
    """the consumers of the distance answers read them with blocking `recv` only: a non-blocking look at the channel
    (`is_empty`, `len`, `try_recv`, `try_iter`, `recv_timeout`, `size_hint` derived from them) answers "nothing there"
    while the workers are still computing - what the caller sees then depends on timing"""
    n = 0
    bad = []
    for b in ctx.F.all_bodies():
        if 'track::store::track_distance' not in b.npath and 'track_distance::' not in b.npath:
            continue
        if wiring.skip_body(b):
            continue
        n += 1
        for c in b.find_calls():
            if 'Receiver' in c.callee and c.name in ('is_empty', 'len', 'try_recv', 'try_iter', 'recv_timeout', 'recv_deadline',
                                                     'is_full', 'capacity'):
                bad.append((b, c))
    any_b = bad[0][0] if bad else (ctx.F.search('TrackDistanceResponse::get_all') or [None])[0]
    ctx.check(not bad, R, any_b or 'track::store::track_distance', 'answers-read-by-blocking-recv-only', '',
              'the distance-response code looks at its channel without blocking (%s): a stream that is merely not '
              'delivered yet is taken for an empty / exhausted one' % ['%s in %s' % (c.name, b.npath.rsplit('::', 2)[-2:])
                                                                       for b, c in bad], bad[0][1].ln if bad else '')
    return max(n, 1)


def rule_weights_fit(ctx, R):
    """the fixed-point weights of the assignment are 64-bit: a weight is (value * 1e6) and Mahalanobis weights reach
    (100 - d) / confidence >= 2000, i.e. 2e9 > i32::MAX; the solver adds such weights up (label sums)"""
    n = 0
    for path in ('<trackers::sort::voting::SortVoting as track::voting::Voting>::winners', 'trackers::sort::voting::SortVoting::new'):
        for b in ctx.F.get(path):
            for i in sorted(b.live_blocks()):
                for s_ in b.blocks[i]['st']:
                    if s_['k'] == 'assign' and s_['rv']['k'] == 'cast' and s_['rv'].get('ck') == 'FloatToInt':
                        n += 1
                        ctx.read(b)
                        ctx.check(s_['rv']['ty'] in ('i64', 'i128'), R, b, 'fixed-point-weight-is-64-bit', s_['rv']['ty'],
                                  'a scaled assignment weight is cast to %s: (100 - d) / confidence * 1e6 does not fit - the '
                                  'weight saturates / the solver\'s sums overflow' % s_['rv']['ty'], s_.get('ln', ''))
            # ... and it is not saturated afterwards: a clamp / min of the scaled weights maps different metric values to
            # one weight - ties the input did not have, which the solver then breaks by arrival order
            sat = []
            for c in b.find_calls('clamp', 'min', 'max'):
                tys = [str(b.locals[a['pl']['l']]) for a in c.args if a.get('k') in ('copy', 'move') and not a['pl']['p']]
                if 'Ord' in c.callee and tys and tys[0] == 'i64' and c.name != 'max':
                    sat.append(c)
                elif 'Ord' in c.callee and tys and tys[0] == 'i64' and c.name == 'max' and b.in_loop(c.bb):
                    pass
            n += 1
            ctx.check(not sat, R, b, 'fixed-point-weight-not-saturated:' + b.npath.rsplit('::', 1)[-1], '',
                      'the scaled assignment weights go through %s: metric values above the bound all get the same weight '
                      '(Mahalanobis weights (100 - d) / confidence * 1e6 exceed 2^31 for confidence < 0.047) - a tie-free '
                      'input becomes a tie that the solver breaks by arrival order' % sorted({c.name for c in sat}),
                      sat[0].ln if sat else '')
    return n


def rule_owned_packer_delegates(ctx, R):
    """the owned conversion Vec<f32> -> Feature is the borrowed one applied to the same vector (one packing routine:
    both spellings of the conversion give the same blocks)"""
    n = 0
    for b in ctx.F.fn_bodies():
        if not b.npath.endswith('FromVec>::from_vec') or 'f32x8' not in b.locals[0] or b.kind == 'Closure':
            continue
        if b.locals[1].replace(' ', '') != 'std::vec::Vec<f32>':
            continue
        n += 1
        ctx.read(b)
        e = ExprBuilder(b).place(0, ())
        ok = e.kind == 'call' and e.name.rsplit('::', 1)[-1] == 'from_vec' and len(e.args) == 1 and \
            e.args[0].strip().kind == 'place' and e.args[0].strip().root == ('param', 1)
        if not ok:
            # both conversions spliced from one shared (new) packing helper are one routine as well
            sib = [x for x in ctx.F.fn_bodies() if x.npath == b.npath and x is not b and 'f32x8' in x.locals[0] and
                   x.locals[1].replace(' ', '') in ('&std::vec::Vec<f32>', '&[f32]')]
            mine = set(b.d.get('inlined') or [])
            ok = bool(mine) and any(mine & set(x.d.get('inlined') or []) for x in sib)
        ctx.check(ok, R, b, 'owned-conversion-delegates-to-the-borrowed-packer', repr(e)[:80],
                  'Feature::from_vec(Vec<f32>) is %r, not Feature::from_vec(&vec): the two conversions of one vector can '
                  'produce different blocks (padding / block count)' % e)
    return n


def rule_state_to_ltwh_delegates(ctx, R):
    """KalmanState -> BoundingBox is the composition KalmanState -> Universal2DBox -> BoundingBox (one rule for when a
    state has an axis-aligned box: the Python `bbox()` composes the two steps itself)"""
    n = 0
    for b in ctx.F.fn_bodies():
        if b.npath.rsplit('::', 1)[-1] != 'try_from' or b.kind == 'Closure' or not str(b.d.get('impl_self', '')).endswith('BoundingBox'):
            continue
        if b.nargs != 1 or 'KalmanState' not in b.locals[1]:
            continue
        n += 1
        ctx.read(b)
        names = [c.callee for c in b.find_calls()] + [c.res or '' for c in b.find_calls()]
        via_universal = any('Universal2DBox' in x and 'try_from' in x for x in names)
        to_ltwh = any('BoundingBox' in x and 'try_from' in x for x in names)
        ctx.check(via_universal and to_ltwh, R, b, 'state->ltwh=state->universal->ltwh', '',
                  'BoundingBox::try_from(KalmanState) no longer composes Universal2DBox::try_from(state) with '
                  'BoundingBox::try_from(&universal): the Rust conversion and the two-step path of the bindings can disagree')
    return n
