"""Scratch-copy runner: applies a patch to a copy of /repo's working tree outside /repo and /verif, extracts facts
(cached by tree hash) and runs rule modules in-process. Used by the thorough tier and by tools/matrix.py."""
import importlib
import os
import shutil
import subprocess
import sys
import tempfile

HERE = os.path.dirname(os.path.abspath(__file__))
sys.path.insert(0, HERE)
import anchors  # noqa: E402
import engine  # noqa: E402
import extract  # noqa: E402
import mir  # noqa: E402


def make_copy(repo=None):
    repo = repo or extract.REPO
    d = tempfile.mkdtemp(prefix='simlint-scratch-')
    if os.environ.get('SCRATCH_FROM_HEAD'):
        # corpus maintenance only: take the committed tree so that concurrent edits of the working tree do not matter
        subprocess.run('git -C %s archive HEAD src Cargo.toml build.rs .cargo | tar -x -C %s' % (repo, d),
                       shell=True)
        if os.path.exists(os.path.join(repo, 'Cargo.lock')):
            shutil.copy2(os.path.join(repo, 'Cargo.lock'), os.path.join(d, 'Cargo.lock'))
        return d
    files = subprocess.run(['git', '-C', repo, 'ls-files'], capture_output=True, text=True).stdout.split('\n')
    for f in files:
        if not f or f.startswith('target/') or f.startswith('assets/') or f.startswith('python/') or \
                f.startswith('docker/') or f.startswith('benches/'):
            continue
        src = os.path.join(repo, f)
        if not os.path.isfile(src):
            continue
        dst = os.path.join(d, f)
        os.makedirs(os.path.dirname(dst), exist_ok=True)
        shutil.copy2(src, dst)
    if os.path.exists(os.path.join(repo, 'Cargo.lock')) and not os.path.exists(os.path.join(d, 'Cargo.lock')):
        shutil.copy2(os.path.join(repo, 'Cargo.lock'), os.path.join(d, 'Cargo.lock'))
    return d


def apply_patch(copy_dir, patch):
    r = subprocess.run(['git', 'apply', '--whitespace=nowarn', patch], cwd=copy_dir, capture_output=True, text=True)
    return r.returncode == 0, r.stderr


def facts_of(copy_dir, cfg='default'):
    p, info = extract.facts_for(repo=copy_dir, cfg=cfg, target_dir=os.path.join(extract.BUILD, 'target-scratch-' + cfg + os.environ.get('SCRATCH_TARGET_SUFFIX', '')),
                                quiet=True)
    return mir.Facts(p), info


def run_rules(F, prop):
    """returns (ctx, unknown findings) for one property on given facts"""
    mod = importlib.import_module('props.' + prop)
    anchors.resolve_all(F)
    ctx = engine.Ctx(prop, F, 'scratch')
    engine.run_module(mod, ctx)
    known = {k['key'] for k in engine.load_known().get('known', []) if k.get('property') == prop}
    return ctx, [f for f in ctx.findings if f.key not in known]


def run_patch(patch, props, cfg='default'):
    """{prop: [finding dicts]} | {'error': msg}"""
    d = make_copy()
    try:
        ok, err = apply_patch(d, patch)
        if not ok:
            return {'error': 'patch does not apply: ' + err[:200]}
        try:
            F, info = facts_of(d, cfg)
        except SystemExit as e:
            return {'error': 'does not compile / extraction failed: %s' % e}
        out = {}
        for p in props:
            ctx, unk = run_rules(F, p)
            out[p] = [u.as_dict() for u in unk]
        return out
    finally:
        shutil.rmtree(d, ignore_errors=True)
