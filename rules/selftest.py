"""Self-test of the rule primitives on /verif/fixtures (analysed with the same driver, cached by content hash).
A failure means the machinery is broken (driver, nightly, or rule library) - reported as MACHINERY-ERROR, never as a
property violation."""
import fcntl
import glob
import hashlib
import os
import shutil
import sys

import extract
import mir

FIX = os.path.join(extract.VERIF, 'fixtures')


def fixture_facts():
    extract.build_driver()
    h = hashlib.sha256()
    for p in (os.path.join(FIX, 'src', 'lib.rs'), os.path.join(FIX, 'Cargo.toml'), extract.DRIVER):
        with open(p, 'rb') as f:
            h.update(f.read())
    key = h.hexdigest()[:16]
    os.makedirs(extract.FACTS, exist_ok=True)
    out = os.path.join(extract.FACTS, 'fixtures.%s.jsonl' % key)
    if os.path.exists(out) and os.path.getsize(out) > 0:
        return out
    lock = open(os.path.join(extract.BUILD, 'extract.fixtures.lock'), 'w')
    fcntl.flock(lock, fcntl.LOCK_EX)
    try:
        if os.path.exists(out) and os.path.getsize(out) > 0:
            return out
        tdir = os.path.join(extract.BUILD, 'target-fixtures')
        tmp = os.path.join(extract.BUILD, 'facts_tmp.fixtures.%d' % os.getpid())
        shutil.rmtree(tmp, ignore_errors=True)
        os.makedirs(tmp)
        shutil.rmtree(os.path.join(tdir, 'debug', '.fingerprint'), ignore_errors=True)
        env = extract.base_env()
        env.update({'SIMLINT_OUT': tmp, 'SIMLINT_CRATES': 'fixtures', 'RUSTFLAGS': '-Zmir-opt-level=0 -Awarnings',
                    'RUSTC_WORKSPACE_WRAPPER': extract.DRIVER, 'CARGO_TARGET_DIR': tdir})
        r = extract.sh(['cargo', '+nightly', 'check', '--offline', '--lib'], cwd=FIX, env=env)
        got = glob.glob(os.path.join(tmp, 'fixtures.*.jsonl'))
        if r.returncode != 0 or len(got) != 1:
            sys.stderr.write(r.stdout[-3000:])
            raise SystemExit('MACHINERY-ERROR: cannot analyse the fixtures crate')
        os.replace(got[0], out)
        shutil.rmtree(tmp, ignore_errors=True)
        return out
    finally:
        fcntl.flock(lock, fcntl.LOCK_UN)
        lock.close()


def run():
    """returns list of (name, ok, detail)"""
    from lib import (ExprBuilder, closure_args_of_call, count_on_paths, path_conditions, result_assignments, as_cmp)
    from linear import destroyed
    from restore import DIRTY, RestoreAnalysis, exits
    import votinglib
    F = mir.Facts(fixture_facts(), baseline=False)
    res = []

    def dirty_at_err(name, fields):
        b = F.one('Thing::' + name)
        ra = RestoreAnalysis(F, b, fields)
        out = set()
        for bb, kind, desc in exits(b):
            if kind == 'unknown':
                # `return res;` on the is-err side
                from props.C11 import classify_unknown
                kind = classify_unknown(b, bb)
            if kind == 'err':
                st = ra.state_after(bb)
                out |= {f for f in fields if st and st[f] == DIRTY and not ra.ok_only(st, f, bb)}
        return out
    FL = ['attributes', 'observations', 'history']
    res.append(('P6 good restore silent', dirty_at_err('update_good', FL) == set(), ''))
    res.append(('P6 missing restore fires', dirty_at_err('update_bad', FL) == {'observations'}, str(dirty_at_err('update_bad', FL))))
    res.append(('P6 late snapshot fires', dirty_at_err('update_late_snapshot', FL) == {'attributes'}, str(dirty_at_err('update_late_snapshot', FL))))
    res.append(('P6 rollback helper silent', dirty_at_err('update_helper', FL) == set(), str(dirty_at_err('update_helper', FL))))
    # P4 notifications on error path
    b = F.one('Thing::update_bad')
    sends = [c.bb for c in b.find_calls('Notifier::send')]
    errs = [bb for bb, k, d in exits(b) if k == 'err']
    r = count_on_paths(b, 0, errs, sends)
    res.append(('P4 notification before failure check fires', r is not None and r[1] >= 1, str(r)))
    b = F.one('Thing::update_good')
    sends = [c.bb for c in b.find_calls('Notifier::send')]
    errs = [bb for bb, k, d in exits(b) if k == 'err']
    oks = [bb for bb, k, d in exits(b) if k == 'ok']
    res.append(('P4 good: none on error, one on ok', count_on_paths(b, 0, errs, sends) == (0, 0) and
                count_on_paths(b, 0, oks, sends) == (1, 1), ''))
    # P7
    rx = r'^(std::vec::Vec<)?Payload'
    res.append(('P7 good silent', not destroyed(F.one('Store::move_all_good'), rx), ''))
    res.append(('P7 conditional drop fires', bool(destroyed(F.one('Store::move_all_bad'), rx)), ''))
    # P2/P5
    def necessary(name):
        b = F.one(name)
        out = None
        for bb, knd, payload in result_assignments(b):
            if knd == 'const' and payload is False:
                continue
            here = set()
            for c in path_conditions(b, bb):
                cm = c.cmp()
                if cm:
                    here.add(cm[0])
            if knd == 'expr':
                cm = as_cmp(payload, True)
                if cm:
                    here.add(cm[0])
            out = here if out is None else out & here
        return out or set()
    res.append(('P5 conjunction: both comparisons necessary', necessary('both') == {'Ge', 'Le'}, str(necessary('both'))))
    res.append(('P5 disjunction: none necessary', necessary('either') == set(), str(necessary('either'))))
    # P3
    for name, want in (('sort_desc', 'desc'), ('sort_asc', 'asc')):
        b = F.one(name)
        d = None
        for c in votinglib.sort_calls(b):
            for cb in closure_args_of_call(F, b, c):
                d = votinglib.comparator_direction(cb)[0]
        res.append(('P3 %s' % name, d == want, str(d)))
    # P4 counting
    b = F.one('notify_once')
    res.append(('P4 once', count_on_paths(b, 0, b.returns(), [c.bb for c in b.find_calls('Notifier::send')]) == (1, 1), ''))
    b = F.one('notify_maybe')
    res.append(('P4 maybe', count_on_paths(b, 0, b.returns(), [c.bb for c in b.find_calls('Notifier::send')]) == (0, 1), ''))
    # flow sensitivity
    b = F.one('read_before_overwrite')
    eb = ExprBuilder(b)
    c = b.find_calls('std::collections::HashSet::contains')[0]
    a = eb.arg(c, 1)
    res.append(('P1 flow-sensitive read', a.has_field('winner') and not a.has_field('key'), repr(a)))
    # who-may-write
    from lib import field_mutators
    m = field_mutators(F, 'Owner', 'table')
    roots = set()
    for body in m:
        pth = body.npath
        while '::{closure#' in pth:
            pth = pth[:pth.rindex('::{closure#')]
        roots.add(pth.rsplit('::', 1)[-1])
    res.append(('P8 writers of a field found (push, index assignment, closure)', roots == {'add', 'patch', 'drain_some'},
                str(sorted(roots))))
    m2 = {b.npath.rsplit('::', 1)[-1] for b in field_mutators(F, 'Owner', 'other')}
    res.append(('P8 reader is not a writer', m2 == {'bump'}, str(sorted(m2))))
    # sequencing through phi alternatives
    from props.C07 import alternatives
    for name, want in (('step_good', True), ('step_bad', False)):
        b = F.one(name)
        eb = ExprBuilder(b)
        up = b.find_calls('Filt::update')[0]
        alts = alternatives(eb.arg(up, 1))
        allp = bool(alts) and all(x.kind == 'call' and x.name.endswith('predict') for x in alts)
        cnt = count_on_paths(b, 0, b.returns(), [c.bb for c in b.find_calls('Filt::predict')])
        res.append(('P9 %s: update takes a predicted state on every path' % name,
                    (allp and cnt == (1, 1)) == want, '%r %r' % (alts, cnt)))
    # inliner: a helper that is not in the baseline is spliced into its caller (same expression as the inline form)
    allf = {b.npath for b in F.all_bodies() if b.kind in ('Fn', 'AssocFn')}
    F2 = mir.Facts(fixture_facts(), baseline=allf - {'radius_helper_sq'})
    e1 = ExprBuilder(F2.one('radius_inline')).place(0, ())
    e2 = ExprBuilder(F2.one('radius_via_helper')).place(0, ())
    res.append(('P10 new private helper is inlined into its caller', repr(e1) == repr(e2) and
                'radius_helper_sq' in str(F2.inlined.get('radius_via_helper')), '%r vs %r' % (e1, e2)))
    e3 = ExprBuilder(F.one('radius_via_helper')).place(0, ())
    res.append(('P10 baseline helpers are not inlined', 'radius_helper_sq' in repr(e3), repr(e3)))
    # P12 on compiled code: the radius fixture in normal form, against the stated formula and against a wrong one
    import poly
    rf, err = poly.try_rf(ExprBuilder(F.one('radius_inline')).place(0, ()),
                          lambda pl: pl.fields[-1] if pl.root == ('param', 1) and pl.fields else None)
    hgt, asp = poly.atom('height'), poly.atom('aspect')
    hw, hh = hgt * asp * poly.const('1/2'), hgt * poly.const('1/2')
    res.append(('P12 radius fixture equals sqrt(hw^2 + hh^2) in normal form', rf is not None and (rf * rf).same(hw * hw + hh * hh),
                '%r %s' % (rf, err)))
    res.append(('P12 radius fixture differs from sqrt(hw^2 + hw^2)', rf is not None and not (rf * rf).same(hw * hw + hw * hw), ''))
    res += unit_controls()
    res += formula_controls()
    return res


def formula_controls():
    """controls of the normal forms and of the flag-vector normalisation (no compiler needed)"""
    import poly
    import matnf
    import inliner
    from lib import E
    res = []

    def pl(name):
        return E('place', root=('param', 1), fields=(name,))

    def c(v):
        return E('const', const={'ty': 'f64', 'v': v})

    def b(op, x, y):
        return E('bin', name=op, args=[x, y])
    at = lambda p: p.fields[-1]
    e1 = b('Add', b('Mul', b('Div', pl('a'), c('2.0')), pl('b')), pl('c'))
    e2 = b('Add', pl('c'), b('Mul', c('0.5'), b('Mul', pl('b'), pl('a'))))
    r1, r2 = poly.to_rf(e1, at), poly.to_rf(e2, at)
    res.append(('P12 (a/2)*b + c == c + 0.5*(b*a)', r1.same(r2), '%r | %r' % (r1, r2)))
    cosA = E('call', name='std::f64::cos', args=[pl('angle')])
    sinA = E('call', name='std::f64::sin', args=[pl('angle')])
    rot = poly.to_rf(b('Sub', b('Mul', pl('x'), cosA), b('Mul', pl('y'), sinA)), at)
    rot_m = poly.to_rf(b('Add', b('Mul', pl('x'), cosA), b('Mul', pl('y'), sinA)), at)
    res.append(('P12 x*cos - y*sin differs from x*cos + y*sin', not rot.same(rot_m), ''))
    negA = E('un', name='Neg', args=[pl('angle')])
    s_neg = poly.to_rf(E('call', name='std::f64::sin', args=[negA]), at)
    c_neg = poly.to_rf(E('call', name='std::f64::cos', args=[negA]), at)
    res.append(('P12 sin(-A) == -sin(A), cos(-A) == cos(A)', s_neg.same(-poly.to_rf(sinA, at)) and
                c_neg.same(poly.to_rf(cosA, at)), '%r %r' % (s_neg, c_neg)))
    rt = poly.to_rf(E('call', name='std::f32::sqrt', args=[b('Add', pl('p'), pl('q'))]), at)
    res.append(('P12 sqrt(p+q)^2 == p+q', (rt * rt).same(poly.to_rf(b('Add', pl('q'), pl('p')), at)), repr(rt * rt)))
    quot = poly.to_rf(b('Mul', b('Div', pl('w'), pl('h')), pl('h')), at)
    res.append(('P12 (w/h)*h == w as rational functions', quot.same(poly.atom('w')), repr(quot)))
    nonlin, why = poly.try_rf(E('phi', args=[pl('a'), pl('b')]), at)
    res.append(('P12 a phi is not evaluated', nonlin is None, str(why)))
    SYM = frozenset(['P', 'S'])
    A, B_, P, S = (matnf.Mat.atom(x, SYM) for x in ('A', 'B', 'P', 'S'))
    res.append(('M1 (A B)^T == B^T A^T', (A * B_).T().same(B_.T() * A.T()), ''))
    res.append(('M1 A P A^T differs from A^T P A', not (A * P * A.T()).same(A.T() * P * A), ''))
    res.append(('M1 S^-1 S == I and P^T == P', (S.inv() * S).same(matnf.Mat.ident(SYM)) and P.T().same(P), ''))
    res.append(('M1 (S^-1 A P)^T S (S^-1 A P) == P A^T S^-1 A P', ((S.inv() * A * P).T() * S * (S.inv() * A * P)).same(
        P * A.T() * S.inv() * A * P), ''))
    d = {'kind': 'Fn', 'locals': ['()', '&std::vec::Vec<bool>', 'usize', '&bool', '&std::vec::Vec<u64>', '&u64',
                                  '&mut std::vec::Vec<bool>', '&mut bool'],
         'blocks': [
             {'cleanup': False, 'st': [], 't': {'k': 'call', 'f': {'k': 'const', 'c': {'fn': 'std::ops::Index::index'}},
                                                 'args': [{'k': 'move', 'pl': {'l': 1, 'p': []}}, {'k': 'move', 'pl': {'l': 2, 'p': []}}],
                                                 'dest': {'l': 3, 'p': []}, 'target': 1}},
             {'cleanup': False, 'st': [], 't': {'k': 'call', 'f': {'k': 'const', 'c': {'fn': 'std::ops::Index::index'}},
                                                 'args': [{'k': 'move', 'pl': {'l': 4, 'p': []}}, {'k': 'move', 'pl': {'l': 2, 'p': []}}],
                                                 'dest': {'l': 5, 'p': []}, 'target': 2}},
             {'cleanup': False, 'st': [], 't': {'k': 'call', 'f': {'k': 'const', 'c': {'fn': 'std::ops::IndexMut::index_mut'}},
                                                 'args': [{'k': 'move', 'pl': {'l': 6, 'p': []}}, {'k': 'move', 'pl': {'l': 2, 'p': []}}],
                                                 'dest': {'l': 7, 'p': []}, 'target': 3}},
             {'cleanup': False, 'st': [{'k': 'assign', 'lhs': {'l': 7, 'p': ['*']},
                                        'rv': {'k': 'use', 'op': {'k': 'const', 'c': {'ty': 'bool', 'v': True}}}}],
              't': {'k': 'return'}}]}
    inliner.flags_as_set(d, mir.norm)
    names = [mir.norm(blk['t']['f']['c']['fn']) for blk in d['blocks'][:3]]
    res.append(('N4 flag vector reads / sets become set membership / insertion; other vectors are untouched',
                names == ['std::collections::HashSet::contains', 'std::ops::Index::index',
                          'std::collections::HashSet::insert'], str(names)))
    return res


def unit_controls():
    """controls of the normalisation layer that need no compiler: canonical names, impl paths, reference forwarding"""
    import canon
    import inliner
    res = []
    ref = {'m::Commands': {'kind': 'Enum', 'variants': [
        {'name': 'Drop', 'built_in': ['drop'], 'fields': [{'name': '0', 'ty': 'chan::Sender<m::Results>'}]},
        {'name': 'Find', 'built_in': ['find_usable'], 'fields': [{'name': '0', 'ty': 'chan::Sender<m::Results>'}]},
        {'name': 'Merge', 'built_in': ['merge'], 'fields': [{'name': '0', 'ty': 'u64'}, {'name': '1', 'ty': 'bool'}]}]},
        'm::Store': {'kind': 'Struct', 'variants': [{'name': 'Store', 'built_in': [], 'fields': [
            {'name': 'stores', 'ty': 'std::sync::Arc<Vec<m::Shard>>'}, {'name': 'num', 'ty': 'usize'}]}]}}
    hdr = {'adts': [
        {'path': 'm::exec::Request', 'kind': 'Enum', 'variants': [
            {'name': 'Merge', 'fields': [{'name': '0', 'ty': 'u64'}, {'name': '1', 'ty': 'bool'}]},
            {'name': 'Shutdown', 'fields': [{'name': '0', 'ty': 'chan::Sender<m::Results>'}]},
            {'name': 'Usable', 'fields': [{'name': '0', 'ty': 'chan::Sender<m::Results>'}]}]},
        {'path': 'm::Store', 'kind': 'Struct', 'variants': [{'name': 'Store', 'fields': [
            {'name': 'num', 'ty': 'usize'}, {'name': 'shards', 'ty': 'std::sync::Arc<Vec<m::Shard>>'}]}]}]}
    lines = ['{"path":"m::Store::drop","x":[{"k":"agg","ak":"adt","adt":"m::exec::Request","v":"Shutdown","fields":["0"]}]}',
             '{"path":"m::Store::find_usable","x":[{"k":"agg","ak":"adt","adt":"m::exec::Request","v":"Usable","fields":["0"]}]}']
    c = canon.Canon(hdr, ref, [], lines)
    res.append(('N1 renamed + moved enum is matched by structure', c.adt_pairs.get('m::exec::Request') == 'm::Commands',
                str(c.adt_pairs)))
    res.append(('N1 equal-payload variants are told apart by their constructors',
                c.variant.get(('m::Commands', 'Shutdown')) == 'Drop' and c.variant.get(('m::Commands', 'Usable')) == 'Find',
                str(c.variant)))
    res.append(('N1 renamed field is matched by its type', c.field.get(('m::Store', 'Store', 'shards')) == 'stores' and
                ('m::Store', 'Store', 'num') not in c.field, str(c.field)))
    body = {'st': [{'k': 'assign', 'lhs': {'l': 3, 'p': [{'dc': 'Usable'}, {'f': 0, 'n': '0', 'adt': 'm::exec::Request',
                                                                           'v': 'Usable'}]},
                    'rv': {'k': 'discr', 'pl': {'l': 3, 'p': []}, 'ty': 'm::exec::Request<T>',
                           'variants': [['0', 'Merge'], ['1', 'Shutdown'], ['2', 'Usable']]}}]}
    mir.install_relocations(c.renamed_types())
    c.apply(body)
    st = body['st'][0]
    res.append(('N1 projections, downcasts and discriminant tables are renamed', st['lhs']['p'][0] == {'dc': 'Find'} and
                st['lhs']['p'][1]['v'] == 'Find' and [n for _i, n in st['rv']['variants']] == ['Merge', 'Drop', 'Find'],
                str(st)[:200]))
    res.append(('N1 renamed type path is read under its reference name', mir.norm('m::exec::Request::handle') ==
                'm::Commands::handle', mir.norm('m::exec::Request::handle')))
    mir.install_relocations([])
    res.append(('N2 impl block moved to a foreign module keeps its canonical path',
                mir.norm('utils::bbox::metrics::<impl track::Attrs<A> for utils::bbox::Box2D>::metric::{closure#0}') ==
                '<utils::bbox::Box2D as track::Attrs>::metric::{closure#0}' and
                mir.norm('trackers::m::scoring::<impl trackers::m::Metric>::score') == 'trackers::m::Metric::score' and
                mir.norm('core::slice::<impl [T]>::sort_by') == 'core::slice::sort_by', ''))
    d = {'nargs': 1, 'locals': ['()', '&mut S', '&mut T', '&mut T', 'T'], 'blocks': [{'cleanup': False, 'st': [
        {'k': 'assign', 'lhs': {'l': 2, 'p': []}, 'rv': {'k': 'ref', 'mut': True, 'pl': {'l': 1, 'p': [
            '*', {'f': 0, 'n': 'attrs', 'adt': 'S', 'v': 'S'}]}}},
        {'k': 'assign', 'lhs': {'l': 3, 'p': []}, 'rv': {'k': 'use', 'op': {'k': 'move', 'pl': {'l': 2, 'p': []}}}},
        {'k': 'assign', 'lhs': {'l': 3, 'p': ['*']}, 'rv': {'k': 'use', 'op': {'k': 'move', 'pl': {'l': 4, 'p': []}}}}],
        't': {'k': 'return'}}]}
    inliner.forward_refs(d)
    w = d['blocks'][0]['st'][2]['lhs']
    res.append(('N3 a write through `&mut self.field` is the field write', w['l'] == 1 and w['p'][0] == '*' and
                w['p'][1].get('n') == 'attrs', str(w)))
    return res


def check_or_die():
    failed = [r for r in run() if not r[1]]
    if failed:
        for name, ok, detail in failed:
            sys.stderr.write('SELFTEST-FAILED %s %s\n' % (name, detail))
        raise SystemExit('MACHINERY-ERROR: rule primitives failed their positive/negative controls on /verif/fixtures')
    return len(run())


if __name__ == '__main__':
    sys.path.insert(0, os.path.dirname(os.path.abspath(__file__)))
    for name, ok, detail in run():
        print('ok  ' if ok else 'FAIL', name, detail)
