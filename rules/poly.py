"""P12 — rational-function normal form of a straight-line arithmetic expression (static, no execution).

An expression tree `lib.E` built by the reaching-definition expression builder is read as an element of the field of
rational functions Q(atoms): `+ - * /`, unary minus, numeric casts (looked through: the claim is about the real-valued
formula, not its rounding), `mul_add`, `powi(k)`, and `sqrt` (with sqrt(p)^2 = p).  Anything else - a field read, a
parameter, `cos(x)`, `abs(x)`, `unwrap_or(x, d)`, `max(a, b)` - is an *atom*; function atoms are keyed by the normal
form of their arguments, so `cos(angle as f64)` is one atom however often and wherever it is computed.

Two expressions are equal as real functions iff  n1 * d2 == n2 * d1  as polynomials (no gcd needed).  A rule that
compares a formula of the code with the formula the property states therefore fires exactly when the two differ as
functions of the inputs: reordering terms, naming intermediates, distributing a product, `a/2` vs `0.5*a`, `x - (-y)`
are all the same normal form.  Where an expression is not straight-line arithmetic (a `phi`, an unknown aggregate)
`to_rf` returns None and the rule that asked records "not evaluated" instead of a verdict.
"""
from fractions import Fraction

from lib import E, ops_to_bins

ONE = ((), )


class NotPoly(Exception):
    pass


def _mono_mul(a, b):
    d = dict(a)
    for k, p in b:
        d[k] = d.get(k, 0) + p
    return tuple(sorted(((k, p) for k, p in d.items() if p), key=repr))


class Poly:
    """polynomial with Fraction coefficients; monomial = sorted tuple of (atom key, power)"""
    __slots__ = ('t',)

    def __init__(self, t=None):
        self.t = {k: v for k, v in (t or {}).items() if v != 0}

    @staticmethod
    def const(c):
        return Poly({(): Fraction(c)})

    @staticmethod
    def atom(key):
        return Poly({((key, 1),): Fraction(1)})

    def __add__(self, o):
        d = dict(self.t)
        for k, v in o.t.items():
            d[k] = d.get(k, 0) + v
        return Poly(d)

    def __neg__(self):
        return Poly({k: -v for k, v in self.t.items()})

    def __sub__(self, o):
        return self + (-o)

    def __mul__(self, o):
        d = {}
        for k1, v1 in self.t.items():
            for k2, v2 in o.t.items():
                k = _mono_mul(k1, k2)
                d[k] = d.get(k, 0) + v1 * v2
        return _reduce_sqrt(Poly(d))

    def __eq__(self, o):
        return self.t == o.t

    def __hash__(self):
        return hash(self.key())

    def is_zero(self):
        return not self.t

    def is_const(self):
        return all(k == () for k in self.t)

    def const_value(self):
        return self.t.get((), Fraction(0)) if self.is_const() else None

    def key(self):
        return tuple(sorted(((k, (v.numerator, v.denominator)) for k, v in self.t.items()), key=repr))

    def atoms(self):
        return {a for k in self.t for a, _ in k}

    def __repr__(self):
        if not self.t:
            return '0'
        out = []
        for k, v in sorted(self.t.items(), key=lambda kv: repr(kv[0])):
            m = '*'.join(_atom_str(a) + ('^%d' % p if p != 1 else '') for a, p in k)
            c = str(v) if (v != 1 or not m) else ''
            if v == -1 and m:
                c = '-'
            out.append((c + ('*' if c not in ('', '-') and m else '') + m) or '1')
        return ' + '.join(out).replace('+ -', '- ')


def _atom_str(a):
    if isinstance(a, tuple) and a and a[0] == 'fn':
        return '%s(%s)' % (a[1], ', '.join(_rfkey_str(x) for x in a[2]))
    if isinstance(a, tuple) and a and a[0] == 'sqrt':
        return 'sqrt(%s)' % _rfkey_str(a[1])
    return str(a)


def _rfkey_str(k):
    try:
        n, d = k
        pn, pd = Poly({m: Fraction(*c) for m, c in n}), Poly({m: Fraction(*c) for m, c in d})
        return repr(pn) if pd == Poly.const(1) else '(%r)/(%r)' % (pn, pd)
    except Exception:
        return str(k)


_SQRT_ARGS = {}


def _reduce_sqrt(p):
    """sqrt(q)^2 -> q (repeated); sqrt atoms carry the key of their argument, the argument itself is remembered"""
    changed = True
    while changed:
        changed = False
        for k, v in list(p.t.items()):
            for a, pw in k:
                if isinstance(a, tuple) and a and a[0] == 'sqrt' and pw >= 2 and a in _SQRT_ARGS:
                    arg = _SQRT_ARGS[a]
                    if arg.den != Poly.const(1):
                        continue
                    rest = tuple((x, q) for x, q in k if x != a)
                    if pw - 2:
                        rest = _mono_mul(rest, ((a, pw - 2),))
                    d = dict(p.t)
                    del d[k]
                    p = Poly(d) + Poly({rest: v}) * arg.num
                    changed = True
                    break
            if changed:
                break
    return p


class RF:
    """rational function num/den (den never the zero polynomial)"""
    __slots__ = ('num', 'den')

    def __init__(self, num, den=None):
        self.num = num
        self.den = den if den is not None else Poly.const(1)
        c = self.den.const_value()
        if c is not None and c != 1 and c != 0:
            self.num = self.num * Poly.const(1 / c)
            self.den = Poly.const(1)

    def __add__(self, o):
        if self.den == o.den:
            return RF(self.num + o.num, self.den)
        return RF(self.num * o.den + o.num * self.den, self.den * o.den)

    def __neg__(self):
        return RF(-self.num, self.den)

    def __sub__(self, o):
        return self + (-o)

    def __mul__(self, o):
        return RF(self.num * o.num, self.den * o.den)

    def __truediv__(self, o):
        if o.num.is_zero():
            raise NotPoly('division by the zero function')
        return RF(self.num * o.den, self.den * o.num)

    def same(self, o):
        return (self.num * o.den) == (o.num * self.den)

    def is_zero(self):
        return self.num.is_zero()

    def key(self):
        return (self.num.key(), self.den.key())

    def atoms(self):
        return self.num.atoms() | self.den.atoms()

    def __repr__(self):
        if self.den == Poly.const(1):
            return repr(self.num)
        return '(%r) / (%r)' % (self.num, self.den)


def const(c):
    return RF(Poly.const(c))


def atom(key):
    return RF(Poly.atom(key))


def _leading_negative(rf):
    if not rf.num.t:
        return False
    k = min(rf.num.t, key=repr)
    return rf.num.t[k] < 0


def fn_atom(name, *args):
    if name in ('sin', 'cos', 'tan') and len(args) == 1 and _leading_negative(args[0]):
        # cos(-x) = cos(x), sin(-x) = -sin(x): one atom per angle whatever its written sign
        r = RF(Poly.atom(('fn', name, ((-args[0]).key(),))))
        return r if name == 'cos' else -r
    if name == 'abs' and len(args) == 1 and _leading_negative(args[0]):
        return RF(Poly.atom(('fn', name, ((-args[0]).key(),))))
    return RF(Poly.atom(('fn', name, tuple(a.key() for a in args))))


def sqrt_of(arg):
    a = ('sqrt', arg.key())
    _SQRT_ARGS[a] = arg
    return RF(Poly.atom(a))


# ---------------------------------------------------------------------------
# E -> RF

_NUMERIC_FNS_TRANSPARENT = {'clone', 'to_owned', 'into', 'from', 'borrow', 'deref', 'as_ref', 'copied', 'cloned'}
_COMMUTATIVE = {'max', 'min', 'hypot'}


def _const_fraction(c):
    v = c.get('v')
    ty = c.get('ty', '')
    if v is None:
        raise NotPoly('non-numeric constant')
    if isinstance(v, bool):
        raise NotPoly('bool constant')
    try:
        if ty in ('f32', 'f64'):
            # decimal literal as written (2.0, 0.5, 1e-5): the source's real number, not its binary rounding
            return Fraction(str(v))
        return Fraction(int(v))
    except (ValueError, TypeError):
        raise NotPoly('constant %r' % (v,))


def to_rf(e, atom_of=None, depth=0):
    """RF of expression `e`; `atom_of(place E) -> hashable key or None` names the leaves (None: not a number we know).
    Raises NotPoly when the expression is not straight-line arithmetic over atoms."""
    if depth > 200:
        raise NotPoly('too deep')
    if not isinstance(e, E):
        raise NotPoly('not an expression')
    k = e.kind
    if k == 'cast':
        return to_rf(e.args[0], atom_of, depth + 1)
    if k == 'const':
        if e.proj:
            raise NotPoly('projected constant')
        return const(_const_fraction(e.const))
    if k == 'place':
        key = atom_of(e) if atom_of else None
        if key is None:
            key = ('place', e.root, e.fields)
        return atom(key)
    if k == 'un':
        if e.name == 'Neg':
            return -to_rf(e.args[0], atom_of, depth + 1)
        raise NotPoly('unary ' + str(e.name))
    if k == 'bin':
        a = to_rf(e.args[0], atom_of, depth + 1)
        b = to_rf(e.args[1], atom_of, depth + 1)
        n = e.name
        if n in ('Add', 'AddUnchecked', 'AddWithOverflow'):
            return a + b
        if n in ('Sub', 'SubUnchecked', 'SubWithOverflow'):
            return a - b
        if n in ('Mul', 'MulUnchecked', 'MulWithOverflow'):
            return a * b
        if n == 'Div':
            return a / b
        raise NotPoly('binary ' + str(n))
    if k == 'call':
        if e.proj:
            leaf = e.name.rsplit('::', 1)[-1]
            if leaf == 'sin_cos' and e.proj in (('0',), ('1',)) and len(e.args) == 1:
                return fn_atom('sin' if e.proj == ('0',) else 'cos', to_rf(e.args[0], atom_of, depth + 1))
            raise NotPoly('projection of a call result')
        leaf = e.name.rsplit('::', 1)[-1]
        x = ops_to_bins(e)
        if x.kind == 'bin':
            return to_rf(x, atom_of, depth + 1)
        if leaf == 'neg' and len(e.args) == 1:
            return -to_rf(e.args[0], atom_of, depth + 1)
        if leaf in _NUMERIC_FNS_TRANSPARENT and len(e.args) == 1:
            return to_rf(e.args[0], atom_of, depth + 1)
        if leaf == 'mul_add' and len(e.args) == 3:
            a, b, c = (to_rf(z, atom_of, depth + 1) for z in e.args)
            return a * b + c
        if leaf == 'powi' and len(e.args) == 2:
            n = to_rf(e.args[1], atom_of, depth + 1).num.const_value()
            if n is None or n.denominator != 1 or not (0 <= n <= 8):
                raise NotPoly('powi with a non-constant exponent')
            r = const(1)
            b = to_rf(e.args[0], atom_of, depth + 1)
            for _ in range(int(n)):
                r = r * b
            return r
        if leaf == 'recip' and len(e.args) == 1:
            return const(1) / to_rf(e.args[0], atom_of, depth + 1)
        if leaf == 'sqrt' and len(e.args) == 1:
            return sqrt_of(to_rf(e.args[0], atom_of, depth + 1))
        if leaf == 'unwrap_or' and len(e.args) == 2:
            # Option<number> with a default: one opaque number named by the option it reads and the default
            inner = e.args[0].strip() if hasattr(e.args[0], 'strip') else e.args[0]
            if inner.kind == 'place':
                key = atom_of(inner) if atom_of else None
                dflt = to_rf(e.args[1], atom_of, depth + 1)
                return RF(Poly.atom(('fn', 'unwrap_or', ((key or ('place', inner.root, inner.fields)), dflt.key()))))
            raise NotPoly('unwrap_or of a computed option')
        # opaque numeric function of numeric arguments
        try:
            args = [to_rf(z, atom_of, depth + 1) for z in e.args]
        except NotPoly:
            raise
        if not args:
            raise NotPoly('call without arguments: ' + e.name)
        if leaf in _COMMUTATIVE:
            args = sorted(args, key=lambda r: repr(r.key()))
        return fn_atom(leaf, *args)
    raise NotPoly('expression kind ' + k)


def try_rf(e, atom_of=None):
    try:
        return to_rf(e, atom_of), None
    except NotPoly as x:
        return None, str(x)
    except RecursionError:
        return None, 'recursion'


def substitute(rf, env):
    """replace atoms by rational functions: env maps atom key -> RF (function atoms are substituted inside their
    arguments too)"""
    def sub_poly(p):
        out = const(0)
        for mono, c in p.t.items():
            term = const(c)
            for a, pw in mono:
                base = sub_atom(a)
                for _ in range(pw):
                    term = term * base
            out = out + term
        return out

    def sub_key(k):
        n, d = k
        pn = Poly({m: Fraction(*c) for m, c in n})
        pd = Poly({m: Fraction(*c) for m, c in d})
        return sub_poly(pn) / sub_poly(pd)

    def sub_atom(a):
        if a in env:
            return env[a]
        if isinstance(a, tuple) and a and a[0] == 'fn':
            if a[1] == 'unwrap_or':
                k0 = a[2][0]
                if k0 in env:
                    return env[k0]
                return RF(Poly.atom(a))
            return fn_atom(a[1], *[sub_key(x) for x in a[2]])
        if isinstance(a, tuple) and a and a[0] == 'sqrt':
            return sqrt_of(sub_key(a[1]))
        return RF(Poly.atom(a))

    return sub_poly(rf.num) / sub_poly(rf.den)
