"""P6 restore-on-error: forward dataflow over the fields of `self` (param 1) with lattice
Clean < Restored < Dirty, evaluated at error exits. Crate-local helpers taking the whole `&mut self`
are summarised (which fields they may dirty)."""
from mir import Tracer, proj_key, fields_of, norm
from lib import local_callee_bodies, ExprBuilder

CLEAN, RESTORED, DIRTY = 0, 1, 2
NAMES = {CLEAN: 'clean', RESTORED: 'restored', DIRTY: 'dirty'}


_ALIASES = {}


def self_aliases(body):
    """locals that are (re)borrows or copies of the whole `self` reference (`&mut *self`, `move self_ref`): writes
    through them are writes to self — this is what a helper taking `&mut self` looks like after it was inlined"""
    key = id(body)
    if key in _ALIASES:
        return _ALIASES[key]
    al = {1}
    changed = True
    while changed:
        changed = False
        for blk in body.blocks:
            for s in blk['st']:
                if s['k'] != 'assign' or s['lhs']['p'] or s['lhs']['l'] in al:
                    continue
                rv = s['rv']
                src = None
                if rv['k'] in ('ref', 'rawptr'):
                    pk = [p for p in rv['pl']['p'] if p != '*']
                    if not pk:
                        src = rv['pl']['l']
                elif rv['k'] == 'use' and rv['op']['k'] in ('move', 'copy') and not rv['op']['pl']['p']:
                    src = rv['op']['pl']['l']
                if src in al and ('&' in body.locals[s['lhs']['l']][:5]) and \
                        body.locals[s['lhs']['l']].lstrip('&mut ').split('<')[0] == body.locals[1].lstrip('&mut ').split('<')[0]:
                    al.add(s['lhs']['l'])
                    changed = True
    _ALIASES[key] = al
    return al


def self_field(pl, self_local=1, aliases=None):
    """(field name | None for whole self, rest) if the place is rooted at *self"""
    if pl['l'] != self_local and not (aliases and pl['l'] in aliases):
        return False, None
    pk = [proj_key(p) for p in pl['p']]
    pk = [p for p in pk if p != '*']
    if not pk:
        return True, None
    if pk[0][0] == 'f':
        return True, pk[0][1]
    return True, None


class Summary:
    def __init__(self, facts):
        self.facts = facts
        self.memo = {}
        self.restore_memo = {}

    def dirty_on_err(self, body, all_fields, _stack=()):
        """fields a crate-local helper (whole `&mut self`) may leave modified when it returns Err; None when the helper
        does not return a Result (then every field it touches counts)"""
        key = ('err', body.npath)
        if key in self.restore_memo:
            return self.restore_memo[key]
        if 'Result<' not in body.locals[0] or body.npath in _stack or len(_stack) > 3:
            return None
        ra = RestoreAnalysis(self.facts, body, all_fields, _stack=_stack + (body.npath,))
        out = set()
        found = False
        for bb, kind, desc in exits(body):
            if kind == 'unknown':
                # tail call `other(..)` / `return res`: whatever is dirty there may be dirty on Err
                kind = 'err'
            if kind == 'err':
                found = True
                st = ra.state_after(bb)
                if st:
                    out |= {f for f in all_fields if st.get(f) == DIRTY and not ra.ok_only(st, f, bb)}
        res = out if found else set()
        self.restore_memo[key] = res
        return res

    def restores_from_params(self, body, all_fields):
        """{field: param index} for helpers whose only effect on `field` is `self.field = <param k>` (a rollback helper)"""
        key = body.npath
        if key in self.restore_memo:
            return self.restore_memo[key]
        out = {}
        bad = set()
        eb = ExprBuilder(body)
        for i in sorted(body.live_blocks()):
            b = body.blocks[i]
            for si, s in enumerate(b['st']):
                if s['k'] != 'assign':
                    continue
                is_self, f = self_field(s['lhs'], aliases=self_aliases(body))
                rv = s['rv']
                if is_self and s['lhs']['p'] and f is not None:
                    pk = [p for p in (proj_key(p) for p in s['lhs']['p']) if p != '*']
                    src = eb._rvalue(rv, (), 0, (i, si)) if rv['k'] == 'use' else None
                    if len(pk) == 1 and src is not None and src.kind == 'place' and src.root[0] == 'param' and \
                            src.root[1] >= 2 and not src.fields and f not in out:
                        out[f] = src.root[1]
                    else:
                        bad.add(f)
                if rv['k'] in ('ref', 'rawptr') and (rv.get('mut') or rv['k'] == 'rawptr'):
                    is_self2, f2 = self_field(rv['pl'], aliases=self_aliases(body))
                    if is_self2 and f2 is not None:
                        bad.add(f2)
                    elif is_self2:
                        bad |= set(all_fields)
        out = {f: k for f, k in out.items() if f not in bad}
        self.restore_memo[key] = out
        return out

    def dirty_fields(self, body, all_fields, depth=3):
        """fields of *self a crate-local body with whole `&mut self` may modify"""
        key = body.npath
        if key in self.memo:
            return self.memo[key]
        self.memo[key] = set(all_fields)  # recursion guard: conservative
        out = set()
        reborrows = set()
        for i in sorted(body.live_blocks()):
            b = body.blocks[i]
            for s in b['st']:
                if s['k'] != 'assign':
                    continue
                is_self, f = self_field(s['lhs'], aliases=self_aliases(body))
                if is_self and s['lhs']['p']:
                    if f is None:
                        out |= set(all_fields)
                    else:
                        out.add(f)
                rv = s['rv']
                if rv['k'] == 'ref' and rv['mut']:
                    is_self, f = self_field(rv['pl'], aliases=self_aliases(body))
                    if is_self:
                        if f is None:
                            reborrows.add(s['lhs']['l'])
                        else:
                            out.add(f)
            c = body.call_at(i)
            if c:
                for a in c.args:
                    if a['k'] in ('copy', 'move') and not a['pl']['p'] and (
                            a['pl']['l'] in reborrows or a['pl']['l'] == 1):
                        if not body.locals[a['pl']['l']].startswith('&mut'):
                            continue
                        cbs = local_callee_bodies(self.facts, c)
                        if not cbs or depth == 0:
                            out |= set(all_fields)
                        else:
                            for cb in cbs:
                                out |= self.dirty_fields(cb, all_fields, depth - 1)
        self.memo[key] = out
        return out


class RestoreAnalysis:
    def __init__(self, facts, body, fields, _stack=()):
        self.F = facts
        self.body = body
        self.fields = list(fields)
        self.summary = Summary(facts)
        self._stack = _stack
        self.snap_state = {}      # clone-call bb -> {field: state at the snapshot}
        self.state_in = {}
        self.events = []          # (bb, text) for diagnostics
        self.tracer = Tracer(body, transparent=set())
        self._solve()

    # snapshot classification: does local X (moved into self.f) hold a clone of self.f?
    def _snapshot_sites(self, op, field):
        sites = []
        for t in self.tracer.of_operand(op):
            if t.kind == 'call' and t.data.is_('std::clone::Clone::clone', 'to_owned') and t.data.args:
                arg = t.data.args[0]
                for a in self.tracer.of_operand(arg):
                    if a.kind == 'param' and a.data == 1:
                        fs = fields_of(a.proj) + fields_of(t.proj)
                        if fs[:1] == (field,) and len(fs) == 1:
                            sites.append(t.data.bb)
            elif t.kind in ('call', 'agg', 'const', 'param', 'bin', 'local', 'other', 'cast', 'un', 'discr'):
                sites.append(None)
        return sites

    def _transfer(self, bb, st, record):
        body = self.body
        b = body.blocks[bb]
        st = dict(st)
        reborrows = getattr(self, '_reborrows', set())
        for si, s in enumerate(b['st']):
            if s['k'] != 'assign':
                continue
            rv = s['rv']
            is_self, f = self_field(s['lhs'], aliases=self_aliases(body))
            if is_self and s['lhs']['p']:
                pk = [p for p in (proj_key(p) for p in s['lhs']['p']) if p != '*']
                whole_field = len(pk) == 1
                if f is None:
                    for x in self.fields:
                        st[x] = DIRTY
                        st[('tag', x)] = None
                elif f in st:
                    st[('tag', f)] = None
                    new = DIRTY
                    if whole_field and rv['k'] == 'use' and rv['op']['k'] in ('move', 'copy'):
                        sites = self._snapshot_sites(rv['op'], f)
                        if sites and all(x is not None for x in sites):
                            if all(self.snap_state.get(x, {}).get(f, CLEAN) == CLEAN for x in sites):
                                new = RESTORED
                            elif record:
                                self.events.append((bb, 'restore of `%s` uses a snapshot taken after the field was '
                                                    'already modified' % f))
                    st[f] = new
            if rv['k'] in ('ref', 'rawptr') and (rv.get('mut') or rv['k'] == 'rawptr'):
                is_self, f = self_field(rv['pl'], aliases=self_aliases(body))
                if is_self:
                    if f is None:
                        reborrows.add(s['lhs']['l'])
                    elif f in st:
                        st[f] = DIRTY
                        st[('tag', f)] = None
        self._reborrows = reborrows
        c = body.call_at(bb)
        if c:
            # snapshot points
            if c.is_('std::clone::Clone::clone', 'to_owned') and c.args:
                for a in self.tracer.of_operand(c.args[0]):
                    if a.kind == 'param' and a.data == 1:
                        fs = fields_of(a.proj)
                        cur = self.snap_state.setdefault(bb, {})
                        for f in (self.fields if not fs else [fs[0]]):
                            if f in st:
                                cur[f] = max(cur.get(f, CLEAN), st[f])
            for a in c.args:
                if a['k'] in ('copy', 'move') and not a['pl']['p'] and (
                        a['pl']['l'] in reborrows or a['pl']['l'] == 1) and body.locals[a['pl']['l']].startswith(
                        '&mut'):
                    cbs = local_callee_bodies(self.F, c)
                    dirty_err = None
                    if not cbs:
                        dirty = set(self.fields)
                        restores = {}
                    else:
                        dirty = set()
                        restores = None
                        dirty_err = set()
                        for cb in cbs:
                            dirty |= self.summary.dirty_fields(cb, self.fields)
                            de = self.summary.dirty_on_err(cb, self.fields, self._stack)
                            if de is None:
                                dirty_err = None
                            elif dirty_err is not None:
                                dirty_err |= de
                            rp = self.summary.restores_from_params(cb, self.fields)
                            restores = rp if restores is None else {f: k for f, k in restores.items() if rp.get(f) == k}
                    for f in dirty:
                        if f not in st:
                            continue
                        new = DIRTY
                        k = (restores or {}).get(f)
                        if k is not None and k - 1 < len(c.args):
                            # the helper assigns self.f from its k-th parameter: a restore if that argument is a valid
                            # snapshot of f
                            sites = self._snapshot_sites(c.args[k - 1], f)
                            if sites and all(x is not None for x in sites) and all(
                                    self.snap_state.get(x, {}).get(f, CLEAN) == CLEAN for x in sites):
                                new = RESTORED
                        if new == DIRTY and dirty_err is not None and f not in dirty_err and st[f] != DIRTY:
                            # the helper leaves f untouched when it fails: dirty only if this call succeeded
                            st[('tag', f)] = bb
                        elif new == DIRTY and not (dirty_err is not None and f not in dirty_err and
                                                   st.get(('tag', f)) is not None):
                            st[('tag', f)] = None
                        st[f] = new
        return st

    def ok_only(self, st, f, exit_bb):
        """field f is dirty only because a helper call succeeded, and this error exit propagates the failure of that
        very call"""
        t = st.get(('tag', f))
        if not isinstance(t, int):
            return False
        body = self.body
        d = [x for x in body.defs().get(0, []) if x[1] == exit_bb]
        if not d:
            return False
        eb = ExprBuilder(body)
        e = eb._call(d[0][2], (), 0) if d[0][0] == 'call' else eb._rvalue(d[0][3]['rv'], (), 0, (d[0][1], d[0][2]))
        return any(y.kind == 'call' and y.extra is not None and getattr(y.extra, 'bb', None) == t for y in e.walk())

    def _solve(self):
        body = self.body
        succ = body.succ()
        for _round in range(6):
            before = {k: dict(v) for k, v in self.snap_state.items()}
            self._reborrows = set()
            state_in = {0: dict([(f, CLEAN) for f in self.fields] + [(('tag', f), None) for f in self.fields])}
            work = [0]
            while work:
                bb = work.pop()
                out = self._transfer(bb, state_in[bb], False)
                for s in succ[bb]:
                    cur = state_in.get(s)
                    if cur is None:
                        state_in[s] = dict(out)
                        work.append(s)
                    else:
                        changed = False
                        for f in self.fields:
                            to, tc = out.get(('tag', f)), cur.get(('tag', f))
                            if out[f] > cur[f]:
                                cur[f] = out[f]
                                cur[('tag', f)] = to
                                changed = True
                            elif out[f] == cur[f] == DIRTY and to != tc and tc != 'mixed':
                                cur[('tag', f)] = 'mixed'
                                changed = True
                        if changed:
                            work.append(s)
            self.state_in = state_in
            if before == self.snap_state:
                break

    def state_after(self, bb):
        if bb not in self.state_in:
            return None
        return self._transfer(bb, self.state_in[bb], True)


def exits(body):
    """classify the definitions of the Result-typed return place: [(bb, 'err'|'ok'|'unknown', description)]"""
    out = []
    live = body.live_blocks()
    for d in body.defs().get(0, []):
        if d[1] not in live:
            continue
        if d[0] == 'call':
            c = d[2]
            if c.is_('std::ops::FromResidual::from_residual'):
                out.append((d[1], 'err', '`?` at %s' % c.ln))
            else:
                out.append((d[1], 'unknown', 'result of %s at %s' % (c.callee, c.ln)))
        else:
            rv = d[3]['rv']
            if rv['k'] == 'agg' and rv['ak'] == 'adt' and norm(rv['adt']) == 'std::result::Result':
                out.append((d[1], 'err' if rv['v'] == 'Err' else 'ok', '%s at %s' % (rv['v'], d[3]['ln'])))
            elif rv['k'] == 'use' and rv['op']['k'] in ('move', 'copy'):
                # `return res;` of a local: look at its origin
                e = ExprBuilder(body).operand(rv['op'])
                kinds = set()
                for x in ([e] if e.kind != 'phi' else e.args):
                    if x.kind == 'agg' and x.name.endswith('Result::Err'):
                        kinds.add('err')
                    elif x.kind == 'agg' and x.name.endswith('Result::Ok'):
                        kinds.add('ok')
                    else:
                        kinds.add('unknown')
                k = kinds.pop() if len(kinds) == 1 else 'unknown'
                out.append((d[1], k, 'value %r at %s' % (e, d[3]['ln'])))
            else:
                out.append((d[1], 'unknown', 'at %s' % d[3]['ln']))
    return out
