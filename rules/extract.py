"""Facts extraction: runs simlint (rustc_private driver) over /repo's current working tree through
`cargo +nightly check` and caches the result by a hash of the tree. Nothing of /repo is executed
except its build script (as in any build)."""
import fcntl
import glob
import hashlib
import os
import shutil
import subprocess
import sys
import time

VERIF = os.path.dirname(os.path.dirname(os.path.abspath(__file__)))
REPO = os.environ.get('SIMLINT_REPO', '/repo')
BUILD = os.path.join(VERIF, '.build')
DRIVER_SRC = os.path.join(VERIF, 'simlint')
DRIVER = os.path.join(BUILD, 'simlint', 'release', 'simlint')
FACTS = os.path.join(BUILD, 'facts')


def sh(cmd, **kw):
    return subprocess.run(cmd, shell=isinstance(cmd, str), stdout=subprocess.PIPE, stderr=subprocess.STDOUT,
                          text=True, **kw)


def sysroot():
    r = sh('rustc +nightly --print sysroot')
    return r.stdout.strip().split('\n')[-1]


def base_env():
    env = dict(os.environ)
    env['CARGO_NET_OFFLINE'] = 'true'
    env['LD_LIBRARY_PATH'] = os.path.join(sysroot(), 'lib') + ':' + env.get('LD_LIBRARY_PATH', '')
    return env


def build_driver(force=False):
    os.makedirs(BUILD, exist_ok=True)
    src_m = max(os.path.getmtime(p) for p in
                [os.path.join(DRIVER_SRC, 'src', 'main.rs'), os.path.join(DRIVER_SRC, 'Cargo.toml')])
    if not force and os.path.exists(DRIVER) and os.path.getmtime(DRIVER) >= src_m:
        return
    env = base_env()
    env['CARGO_TARGET_DIR'] = os.path.join(BUILD, 'simlint')
    r = sh('cargo +nightly build --release --offline', cwd=DRIVER_SRC, env=env)
    if r.returncode != 0 or not os.path.exists(DRIVER):
        sys.stderr.write(r.stdout)
        raise SystemExit('MACHINERY-ERROR: cannot build simlint driver')


def tree_files(repo):
    out = []
    for root, dirs, files in os.walk(os.path.join(repo, 'src')):
        dirs.sort()
        for f in sorted(files):
            out.append(os.path.join(root, f))
    for f in ('Cargo.toml', 'Cargo.lock', 'build.rs', '.cargo/config.toml'):
        p = os.path.join(repo, f)
        if os.path.exists(p):
            out.append(p)
    return out


def tree_hash(repo, extra=''):
    h = hashlib.sha256()
    for p in tree_files(repo):
        h.update(os.path.relpath(p, repo).encode())
        h.update(b'\0')
        with open(p, 'rb') as f:
            h.update(f.read())
        h.update(b'\0')
    with open(DRIVER, 'rb') as f:
        h.update(hashlib.sha256(f.read()).digest())
    h.update(extra.encode())
    return h.hexdigest()[:20]


CONFIGS = {
    'default': [],
    'nopython': ['--no-default-features'],
}


def facts_for(repo=None, cfg='default', target_dir=None, quiet=False):
    """returns (facts_path, info dict). Re-extracts when the working tree (or driver) changed."""
    repo = repo or REPO
    build_driver()
    os.makedirs(FACTS, exist_ok=True)
    key = tree_hash(repo, cfg)
    out = os.path.join(FACTS, '%s.%s.jsonl' % (key, cfg))
    info = {'tree_hash': key, 'cfg': cfg, 'cached': True, 'extract_s': 0.0}
    if os.path.exists(out) and os.path.getsize(out) > 0:
        try:
            os.utime(out, None)
        except OSError:
            pass
        return out, info
    lock = open(os.path.join(BUILD, 'extract.%s.lock' % (cfg if target_dir is None else os.path.basename(target_dir))), 'w')
    fcntl.flock(lock, fcntl.LOCK_EX)
    try:
        if os.path.exists(out) and os.path.getsize(out) > 0:
            return out, info
        t0 = time.time()
        tdir = target_dir or os.path.join(BUILD, 'target-' + cfg)
        tmp = os.path.join(BUILD, 'facts_tmp.%s.%d' % (cfg, os.getpid()))
        shutil.rmtree(tmp, ignore_errors=True)
        os.makedirs(tmp)
        # cargo's freshness cache would skip the wrapper: forget the member's fingerprints
        for fp in glob.glob(os.path.join(tdir, 'debug', '.fingerprint', 'similari-trackers-rs-*')):
            shutil.rmtree(fp, ignore_errors=True)
        env = base_env()
        env['SIMLINT_OUT'] = tmp
        env['SIMLINT_CRATES'] = 'similari'
        env['RUSTFLAGS'] = '-C target-cpu=x86-64-v3 -Zmir-opt-level=0 -Awarnings'
        env['RUSTC_WORKSPACE_WRAPPER'] = DRIVER
        env['CARGO_TARGET_DIR'] = tdir
        cmd = ['cargo', '+nightly', 'check', '--offline', '--lib'] + CONFIGS[cfg]
        r = sh(cmd, cwd=repo, env=env)
        got = glob.glob(os.path.join(tmp, 'similari.*.jsonl'))
        if r.returncode != 0 or len(got) != 1:
            sys.stderr.write(r.stdout[-6000:])
            shutil.rmtree(tmp, ignore_errors=True)
            raise SystemExit('MACHINERY-ERROR: facts extraction failed (does /repo compile?) rc=%s files=%d' %
                             (r.returncode, len(got)))
        os.replace(got[0], out)
        shutil.rmtree(tmp, ignore_errors=True)
        info['cached'] = False
        info['extract_s'] = round(time.time() - t0, 2)
        # keep the cache small
        def _mtime(p_):
            try:
                return os.path.getmtime(p_)
            except OSError:      # removed by a concurrent run between glob and stat
                return 0.0
        olds = sorted(glob.glob(os.path.join(FACTS, '*.jsonl')), key=_mtime)
        for p in olds[:-int(os.environ.get('SIMLINT_FACTS_KEEP', '60'))]:
            try:
                os.remove(p)
            except OSError:
                pass
        if not quiet:
            sys.stderr.write('simlint: extracted %s in %.1fs\n' % (os.path.basename(out), info['extract_s']))
        return out, info
    finally:
        fcntl.flock(lock, fcntl.LOCK_UN)
        lock.close()


if __name__ == '__main__':
    cfg = sys.argv[1] if len(sys.argv) > 1 else 'default'
    p, info = facts_for(cfg=cfg)
    print(p, info)
