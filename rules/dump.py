"""debug helper: python3 rules/dump.py <regex> [--list]"""
import sys, os
sys.path.insert(0, os.path.dirname(os.path.abspath(__file__)))
import mir, extract
p, _ = extract.facts_for()
F = mir.Facts(p)
rx = sys.argv[1]
for b in F.search(rx):
    if '--list' in sys.argv:
        print(b.npath, b.kind, b.span)
    else:
        b.dump()
        print()
