"""Normal form of linear-algebra expressions (non-commutative, with transpose and inverse) - used by R07.11 to compare
the recurrences of the Kalman filters with the textbook ones *as matrix expressions* (static: no numbers involved).

A value is a sum of words; a word is a product of factors (atom, transposed?, inverted?).  Rules applied:
   (A B)^T = B^T A^T,  (A^T)^T = A,  (A + B)^T = A^T + B^T,  X^-1 X = X X^-1 = I,  (X^-1)^T = (X^T)^-1,
   X^T = X for atoms declared symmetric,  distributivity, scalar coefficients.
`solve_lower_triangular(A, B)` is read as A^-1 B (for the diagonal / triangular systems it is applied to in this crate),
`cholesky(S).l()` as an atom L with  L^-T L^-1 = S^-1  (used only through  sum(component_mul(r, r)) = r^T r).
The theory is incomplete for arbitrary identities (no factoring of sums), so the comparison is made against the textbook
formula written with the same intermediate atoms (S is kept as an atom: the projected covariance); a rule using this
module gives a verdict only when both sides reduce completely, otherwise "not evaluated".
"""
from fractions import Fraction

from lib import E, ops_to_bins


class NotLinear(Exception):
    pass


class Mat:
    __slots__ = ('t', 'sym')

    def __init__(self, t=None, sym=frozenset()):
        self.t = {k: v for k, v in (t or {}).items() if v != 0}
        self.sym = sym

    @staticmethod
    def atom(name, sym):
        return Mat({((name, False, False),): Fraction(1)}, sym)

    @staticmethod
    def ident(sym):
        return Mat({(): Fraction(1)}, sym)

    def _word(self, w):
        """cancel X^-1 X / X X^-1 and L^-T L^-1 -> S^-1"""
        out = []
        for f in w:
            n, t, inv = f
            if n in self.sym:
                t = False
            f = (n, t, inv)
            if out:
                pn, pt, pinv = out[-1]
                if pn == n and pt == t and pinv != inv:
                    out.pop()
                    continue
                if pn == n and isinstance(n, tuple) and n[0] == 'chol' and pinv and inv and pt and not t:
                    out.pop()
                    out.append((n[1], False, True))
                    continue
            out.append(f)
        return tuple(out)

    def __add__(self, o):
        d = dict(self.t)
        for k, v in o.t.items():
            d[k] = d.get(k, 0) + v
        return Mat(d, self.sym)

    def __neg__(self):
        return Mat({k: -v for k, v in self.t.items()}, self.sym)

    def __sub__(self, o):
        return self + (-o)

    def __mul__(self, o):
        d = {}
        for k1, v1 in self.t.items():
            for k2, v2 in o.t.items():
                k = self._word(k1 + k2)
                d[k] = d.get(k, 0) + v1 * v2
        return Mat(d, self.sym)

    def T(self):
        d = {}
        for k, v in self.t.items():
            w = self._word(tuple((n, (not t) if n not in self.sym else False, inv) for n, t, inv in reversed(k)))
            d[w] = d.get(w, 0) + v
        return Mat(d, self.sym)

    def inv(self):
        if len(self.t) != 1:
            raise NotLinear('inverse of a sum')
        (k, v), = self.t.items()
        w = self._word(tuple((n, t, not i) for n, t, i in reversed(k)))
        return Mat({w: 1 / v}, self.sym)

    def same(self, o):
        return self.t == o.t

    def __repr__(self):
        if not self.t:
            return '0'
        out = []
        for k, v in sorted(self.t.items(), key=repr):
            w = ' '.join('%s%s%s' % (n if not isinstance(n, tuple) else '%s(%s)' % (n[0], n[1]), "'" if t else '',
                                     '^-1' if i else '') for n, t, i in k) or 'I'
            c = '' if v == 1 else '-' if v == -1 else '%s*' % v
            out.append(c + w)
        return ' + '.join(out).replace('+ -', '- ')


LEAF_TRANSPARENT = ('unwrap', 'clone', 'into', 'from', 'deref', 'to_owned', 'into_owned', 'clone_owned', 'expect', 'copied')


def to_mat(e, atom_of, sym, mutations=None, depth=0):
    """Mat of expression e. atom_of(E) -> name | Mat | None decides the leaves (places and calls it recognises)."""
    if depth > 120:
        raise NotLinear('too deep')
    if not isinstance(e, E):
        raise NotLinear('not an expression')
    a = atom_of(e)
    if isinstance(a, Mat):
        return a
    if a is not None:
        return Mat.atom(a, sym)
    k = e.kind
    if k == 'cast':
        return to_mat(e.args[0], atom_of, sym, mutations, depth + 1)
    if k == 'bin':
        x = to_mat(e.args[0], atom_of, sym, mutations, depth + 1)
        y = to_mat(e.args[1], atom_of, sym, mutations, depth + 1)
        if e.name == 'Add':
            return x + y
        if e.name == 'Sub':
            return x - y
        if e.name == 'Mul':
            return x * y
        raise NotLinear('binary ' + str(e.name))
    if k == 'un' and e.name == 'Neg':
        return -to_mat(e.args[0], atom_of, sym, mutations, depth + 1)
    if k == 'call':
        if e.proj:
            raise NotLinear('projection %s of %s' % (e.proj, e.name))
        b = ops_to_bins(e)
        if b.kind == 'bin':
            return to_mat(b, atom_of, sym, mutations, depth + 1)
        leaf = e.name.rsplit('::', 1)[-1]
        if leaf in LEAF_TRANSPARENT and e.args:
            return to_mat(e.args[0], atom_of, sym, mutations, depth + 1)
        if leaf == 'transpose' and len(e.args) == 1:
            return to_mat(e.args[0], atom_of, sym, mutations, depth + 1).T()
        if leaf == 'neg' and len(e.args) == 1:
            return -to_mat(e.args[0], atom_of, sym, mutations, depth + 1)
        if leaf in ('solve_lower_triangular', 'solve', 'solve_upper_triangular') and len(e.args) == 2:
            A = to_mat(e.args[0], atom_of, sym, mutations, depth + 1)
            B = to_mat(e.args[1], atom_of, sym, mutations, depth + 1)
            return A.inv() * B
        if leaf in ('try_inverse', 'inverse') and len(e.args) == 1:
            return to_mat(e.args[0], atom_of, sym, mutations, depth + 1).inv()
        if leaf == 'l' and len(e.args) == 1:
            inner = e.args[0]
            while inner.kind == 'call' and inner.name.rsplit('::', 1)[-1] in LEAF_TRANSPARENT and inner.args:
                inner = inner.args[0]
            if inner.kind == 'call' and inner.name.rsplit('::', 1)[-1] == 'cholesky' and inner.args:
                S = to_mat(inner.args[0], atom_of, sym, mutations, depth + 1)
                if len(S.t) == 1:
                    (w, c), = S.t.items()
                    if len(w) == 1 and c == 1 and not w[0][2]:
                        return Mat.atom(('chol', w[0][0]), sym)
            raise NotLinear('cholesky factor of a compound expression')
        if leaf == 'sum' and len(e.args) == 1:
            inner = e.args[0]
            if inner.kind == 'call' and inner.name.rsplit('::', 1)[-1] == 'component_mul' and len(inner.args) == 2:
                x = to_mat(inner.args[0], atom_of, sym, mutations, depth + 1)
                y = to_mat(inner.args[1], atom_of, sym, mutations, depth + 1)
                return x.T() * y
            raise NotLinear('sum of something that is not a component product')
        if leaf == 'dot' and len(e.args) == 2:
            return to_mat(e.args[0], atom_of, sym, mutations, depth + 1).T() * to_mat(e.args[1], atom_of, sym, mutations, depth + 1)
        if leaf == 'norm_squared' and len(e.args) == 1:
            x = to_mat(e.args[0], atom_of, sym, mutations, depth + 1)
            return x.T() * x
        raise NotLinear('call ' + e.name)
    raise NotLinear('expression kind %s (%r)' % (k, e))
