"""Resolves the names of private helpers (discovered through the call graph from public anchors, see helpers.py) and
patches the module-level name tables of the rule libraries. Called once per run before the rules."""
import helpers as H


_DEFAULTS = {}


def _snapshot():
    import copy
    import metriclib
    import storelib
    import trackerlib
    if not _DEFAULTS:
        _DEFAULTS['worker'] = storelib.WORKER
        _DEFAULTS['trackers'] = copy.deepcopy(trackerlib.TRACKERS)
        _DEFAULTS['uh'] = dict(trackerlib.UPDATE_HISTORY)
        _DEFAULTS['helper'] = dict(metriclib.HELPER)
        _DEFAULTS['positional'] = dict(metriclib.POSITIONAL)
    else:
        storelib.WORKER = _DEFAULTS['worker']
        for k, v in _DEFAULTS['trackers'].items():
            trackerlib.TRACKERS[k].update(v)
        trackerlib.UPDATE_HISTORY.update(_DEFAULTS['uh'])
        metriclib.HELPER.update(_DEFAULTS['helper'])
        metriclib.POSITIONAL.update(_DEFAULTS['positional'])


def resolve_all(F):
    import metriclib
    import storelib
    import trackerlib
    _snapshot()
    notes = []
    w = H.store_worker(F)
    if w is not None:
        storelib.WORKER = w.npath
    from lib import all_closures
    for name, t in trackerlib.TRACKERS.items():
        t['result'] = None
        if not t['batch']:
            # the result stage (one record per candidate) is the loop of predict() or — when written as
            # `candidates.iter_mut().map(|c| ..record..).collect()` — the closure that holds the per-candidate decision
            pb = F.one(t['predict'])
            if pb is not None and not pb.find_calls('track::store::TrackStore::add_track',
                                                    'track::store::TrackStore::merge_external'):
                for cb in all_closures(F, pb):
                    if cb.find_calls('track::store::TrackStore::add_track') and cb.find_calls(
                            'track::store::TrackStore::merge_external'):
                        t['result'] = cb.npath
                        break
        if t['batch']:
            mod = t['predict'].rsplit('::', 2)[0] + '::'
            vt = H.voting_thread(F, mod)
            if vt is not None:
                t['loop'] = vt.npath
    for kind, opt in (('sort', metriclib.SORT_METRIC + '::optimize'), ('visual', metriclib.VIS_METRIC + '::optimize')):
        b = H.update_history(F, trackerlib.ATTRS[kind], opt)
        if b is not None:
            trackerlib.UPDATE_HISTORY[kind] = b.npath
    for role in ('usable', 'visual', 'positional', 'gallery'):
        b = H.visual_helper(F, role)
        if b is not None:
            metriclib.HELPER[role] = b.npath
    metriclib.POSITIONAL['visual'] = metriclib.HELPER['positional']
    return notes
