"""P10 lock / blocking discipline: guard-liveness dataflow per body, lock classes from the lock's type and field,
interprocedural may-acquire / may-block summaries over the crate-local call graph."""
import re
from lib import ExprBuilder, closure_args_of_call, local_callee_bodies

GUARD_RX = re.compile(r'^std::sync::(MutexGuard|RwLockReadGuard|RwLockWriteGuard)<')


def class_of_type(ty, hint=''):
    """lock class from the protected type (and a field-name hint)"""
    if 'track::store::TrackStore<' in ty:
        return 'wasted_store' if 'wasted_store' in hint else 'store'
    if 'std::collections::HashMap<u64, track::Track<' in ty:
        return 'shard'
    if 'std::collections::HashMap<u64, usize>' in ty:
        return 'epoch_db'
    if re.search(r'<(\'_, )?u64>', ty):
        return 'track_id'
    if re.search(r'<(\'_, )?usize>', ty):
        return 'batch_size' if 'batch_size' in hint else 'monitor'
    return 'other:' + ty[:60]


LAZY_ADAPTORS = {'map', 'filter', 'flat_map', 'filter_map', 'enumerate', 'into_iter', 'iter', 'iter_mut', 'take',
                 'skip', 'chain', 'zip', 'cloned', 'copied', 'rev', 'inspect', 'by_ref', 'peekable', 'map_while',
                 'take_while', 'skip_while', 'flatten', 'values', 'keys', 'values_mut', 'step_by', 'scan', 'fuse'}

LOCK_CALLS = {
    'std::sync::Mutex::lock': 'Mutex', 'std::sync::RwLock::read': 'RwLock', 'std::sync::RwLock::write': 'RwLock',
    'std::sync::Mutex::try_lock': 'Mutex', 'std::sync::RwLock::try_read': 'RwLock', 'std::sync::RwLock::try_write': 'RwLock',
}


def blocking_kind(body, c):
    """which party a call waits for, or None"""
    if c.callee == 'crossbeam::crossbeam_channel::Receiver::recv':
        ty = body.locals[c.dest['l']]
        if 'track::store::Results' in ty:
            return 'worker'
        if 'SortTrack' in ty:
            return 'voter'       # the consumer waits for a voting thread
        if 'VotingCommands' in ty or 'track::store::Commands' in ty:
            return None          # a service loop waiting for work: not a wait while holding the caller's locks
        return 'other'
    if c.callee in ('std::sync::Condvar::wait_while', 'std::sync::Condvar::wait', 'std::sync::Condvar::wait_timeout',
                    'std::sync::Condvar::wait_timeout_while'):
        return 'voter'
    if c.callee == 'std::thread::JoinHandle::join':
        ty = ' '.join(c.ga)
        return 'voter'
    if c.callee == 'crossbeam::crossbeam_channel::Sender::send':
        ty = ' '.join(c.ga)
        if 'SortTrack' in ty:
            return 'consumer'    # bounded result channel
        return None
    return None


FORBIDDEN = {
    'worker': {'shard'},
    'voter': {'store', 'shard', 'track_id'},
    'consumer': {'store', 'wasted_store', 'shard', 'track_id', 'monitor', 'epoch_db', 'batch_size'},
    'other': set(),
}


class LockAnalysis:
    def __init__(self, facts):
        self.F = facts
        self.summaries = {}
        self.alive_cache = {}

    # ---- per body: guards alive at each call site
    def guard_class(self, body, local):
        ty = body.locals[local]
        # field hint: origin of the lock receiver
        hint = ''
        for d in body.defs().get(local, []):
            if d[0] == 'call':
                e = ExprBuilder(body)._call(d[2], (), 0)
            else:
                e = ExprBuilder(body)._rvalue(d[3]['rv'], (), 0, (d[1], d[2]))
            for p in e.places():
                hint += ' ' + ' '.join(p.fields)
            for x in e.walk():
                if x.kind == 'call' and x.name.startswith('trackers::tracker_api::TrackerAPI::get_'):
                    hint += ' ' + ('wasted_store' if 'wasted' in x.name else 'store')
        return class_of_type(ty, hint)

    def alive_at_calls(self, body):
        """{bb: set(local)} guard locals alive when the terminator of bb executes"""
        if body.npath in self.alive_cache:
            return self.alive_cache[body.npath]
        guards = [i for i, t in enumerate(body.locals) if GUARD_RX.match(t)]
        res = {}
        if not guards:
            self.alive_cache[body.npath] = res
            return res
        gset = set(guards)
        succ = body.succ()
        state = {0: frozenset()}
        work = [0]

        def step(bb, s):
            s = set(s)
            for st in body.blocks[bb]['st']:
                if st['k'] == 'dead' and st['l'] in s:
                    s.discard(st['l'])
                elif st['k'] == 'assign':
                    rv = st['rv']
                    for key in ('op', 'a', 'b'):
                        o = rv.get(key)
                        if isinstance(o, dict) and o.get('k') == 'move' and not o['pl']['p'] and o['pl']['l'] in s:
                            s.discard(o['pl']['l'])
                    for o in rv.get('ops', []) or []:
                        if o.get('k') == 'move' and not o['pl']['p'] and o['pl']['l'] in s:
                            s.discard(o['pl']['l'])
                    if not st['lhs']['p'] and st['lhs']['l'] in gset:
                        s.add(st['lhs']['l'])
            return s

        at_term = {}
        while work:
            bb = work.pop()
            s = step(bb, state[bb])
            at_term[bb] = set(s) | at_term.get(bb, set())
            t = body.blocks[bb]['t']
            out = set(s)
            if t['k'] == 'drop' and not t['pl']['p'] and t['pl']['l'] in out:
                out.discard(t['pl']['l'])
            if t['k'] == 'call':
                for a in t['args']:
                    if a.get('k') == 'move' and not a['pl']['p'] and a['pl']['l'] in out:
                        out.discard(a['pl']['l'])
                        at_term[bb].discard(a['pl']['l'])   # moved into the callee: not held by us during the call
                if not t['dest']['p'] and t['dest']['l'] in gset:
                    out.add(t['dest']['l'])
            for nx in succ[bb]:
                cur = state.get(nx)
                new = frozenset(out) | (cur or frozenset())
                if new != cur:
                    state[nx] = new
                    work.append(nx)
        self.alive_cache[body.npath] = at_term
        return at_term

    # ---- summaries
    def summary(self, body, depth=6, _stack=None):
        """(acquires: {class}, blocks: {kind}) of a body including crate-local callees"""
        key = body.npath
        if key in self.summaries:
            return self.summaries[key]
        _stack = _stack or set()
        if key in _stack or depth == 0:
            return (set(), set())
        _stack = _stack | {key}
        acq, blk = set(), set()
        for bb, c in body.calls().items():
            if body.blocks[bb]['cleanup'] or bb not in body.live_blocks():
                continue
            if c.callee in LOCK_CALLS:
                acq.add(self.lock_class_of_call(body, c))
                continue
            k = blocking_kind(body, c)
            if k:
                blk.add(k)
            for cb in local_callee_bodies(self.F, c):
                a2, b2 = self.summary(cb, depth - 1, _stack)
                acq |= a2
                blk |= b2
        for cb in self.F.closures_of(body):
            # closures run when the adaptor that received them runs: attribute them to the constructing body
            a2, b2 = self.summary(cb, depth - 1, _stack)
            acq |= a2
            blk |= b2
        self.summaries[key] = (acq, blk)
        return acq, blk

    def lock_class_of_call(self, body, c):
        ty = body.locals[c.args[0]['pl']['l']] if c.args and c.args[0].get('pl') else ''
        e = ExprBuilder(body).arg(c, 0)
        hint = ' '.join(' '.join(p.fields) for p in e.places())
        for x in e.walk():
            if x.kind == 'call' and x.name.startswith('trackers::tracker_api::TrackerAPI::get_'):
                hint += ' ' + ('wasted_store' if 'wasted' in x.name else 'store')
        return class_of_type(ty, hint)

    # ---- the rule
    def check_body(self, body):
        """returns (edges [(held, acquired, site)], violations [(kind, held classes, callee, site)])"""
        edges, viol = [], []
        alive = self.alive_at_calls(body)
        for bb, c in body.calls().items():
            if body.blocks[bb]['cleanup'] or bb not in body.live_blocks():
                continue
            held_locals = alive.get(bb, set())
            if not held_locals:
                continue
            held = {self.guard_class(body, l) for l in held_locals}
            if c.callee in LOCK_CALLS:
                a = self.lock_class_of_call(body, c)
                for h in held:
                    edges.append((h, a, c.ln, body.npath))
                continue
            acq, blk = set(), set()
            k = blocking_kind(body, c)
            if k:
                blk.add(k)
            for cb in local_callee_bodies(self.F, c):
                a2, b2 = self.summary(cb)
                acq |= a2
                blk |= b2
            # closures handed to this call run inside it (adaptors are lazy: also those built earlier in the chain)
            e0 = ExprBuilder(body).arg(c, 0) if c.args else None
            chain_closures = []
            cur = e0
            while cur is not None and cur.kind == 'call' and cur.name.rsplit('::', 1)[-1] in LAZY_ADAPTORS:
                for x in cur.args[1:]:
                    for y in (x.args if x.kind == 'phi' else [x]):
                        if y.kind == 'agg' and y.name.startswith('closure:'):
                            cb = self.F.closure_body(y.name[len('closure:'):])
                            if cb is not None:
                                chain_closures.append(cb)
                cur = cur.args[0] if cur.args else None
            for cb in closure_args_of_call(self.F, body, c) + chain_closures:
                a2, b2 = self.summary(cb)
                acq |= a2
                blk |= b2
            for h in held:
                for a in acq:
                    edges.append((h, a, c.ln, body.npath))
            for k in blk:
                bad = held & FORBIDDEN.get(k, set())
                if bad:
                    viol.append((k, sorted(bad), c.callee, c.ln, body.npath))
        return edges, viol


def find_cycle(edges):
    g = {}
    for h, a, ln, p in edges:
        if h == a:
            continue
        g.setdefault(h, set()).add(a)
    color = {}
    stack = []

    def dfs(u):
        color[u] = 1
        stack.append(u)
        for v in g.get(u, ()):
            if color.get(v) == 1:
                return stack[stack.index(v):] + [v]
            if v not in color:
                r = dfs(v)
                if r:
                    return r
        stack.pop()
        color[u] = 2
        return None

    for u in list(g):
        if u not in color:
            r = dfs(u)
            if r:
                return r
    return None


def rule_command_channels(ctx, R):
    """submitting work never blocks: every channel that carries COMMANDS to a worker (store workers, voting threads) is
    unbounded.  The blocking analysis (R06.2) treats a command send as non-blocking; with a bounded command channel the
    submitting thread can block in `send` while the worker it waits for is itself blocked on the bounded(1) result
    channel whose only reader is that same submitting thread - a wait cycle for batches with enough scenes."""
    n = 0
    for b in ctx.F.all_bodies():
        for c in b.find_calls():
            if c.name in ('bounded', 'unbounded') and 'channel' in c.callee:
                ty = b.locals[c.dest['l']]
                if 'Commands' not in ty.split('Receiver')[0]:
                    continue
                n += 1
                ctx.read(b)
                ctx.check(c.name == 'unbounded', R, b, 'command-channel-unbounded:' + ty.split('Sender<')[1].split('>')[0].split('<')[0].rsplit('::', 1)[-1],
                          c.name, 'the channel that carries %s to a worker is created with %s(..): a submission can block '
                          'while results are only read by the submitting thread afterwards (deadlock for large batches)'
                          % (ty.split('Sender<')[1].split(',')[0][:60], c.name), c.ln)
    return n
