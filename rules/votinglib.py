"""Rules over the voting engines (shared by C05, C12, C17, C02)."""
from lib import (Cond, count_on_paths, all_closures, ref_targets, ExprBuilder, as_cmp, closure_aggregates, closure_args_of_call, orient, path_conditions,
                 result_assignments, upvar_expr)
from mir import FLIP, norm

TOPN = '<track::voting::topn::TopNVoting as track::voting::Voting>::winners'
BEST = '<track::voting::best::BestFitVoting as track::voting::Voting>::winners'
SORTV = '<trackers::sort::voting::SortVoting as track::voting::Voting>::winners'

BARRIERS = ('into_group_map', 'collect', 'sorted', 'sorted_by', 'fold', 'count', 'sum', 'last', 'max', 'min',
            'into_grouping_map', 'collect_vec')


def comparator_direction(cb):
    """closure(a, b) used for sorting: returns ('desc'|'asc'|None, field) by the receiver of partial_cmp/cmp/total_cmp"""
    eb = ExprBuilder(cb)
    e = eb.place(0, ())
    calls = [x for x in e.walk() if x.kind == 'call' and x.name.rsplit('::', 1)[-1] in ('partial_cmp', 'cmp',
                                                                                       'total_cmp')]
    if len(calls) != 1:
        return None, None
    c = calls[0]
    recv = [p for p in c.args[0].places() if p.root[0] == 'param']
    arg = [p for p in c.args[1].places() if p.root[0] == 'param']
    if not recv or not arg:
        return None, None
    r, a = recv[0], arg[0]
    if r.fields[-1:] != a.fields[-1:]:
        return None, None
    fname = r.fields[-1] if r.fields else None
    if fname is None:
        # ordering key computed by a method of the element: use the outermost method name
        k0, k1 = c.args[0], c.args[1]
        while k0.kind == 'call' and k0.name.rsplit('::', 1)[-1] in ('unwrap', 'as_ref', 'deref', 'clone', 'expect'):
            k0 = k0.args[0]
        while k1.kind == 'call' and k1.name.rsplit('::', 1)[-1] in ('unwrap', 'as_ref', 'deref', 'clone', 'expect'):
            k1 = k1.args[0]
        if k0.kind == 'call' and k1.kind == 'call' and k0.name == k1.name:
            fname = k0.name.rsplit('::', 1)[-1]
    rev = any(x.kind == 'call' and x.name.endswith('::reverse') for x in e.walk())
    if r.root == ('param', 2) and a.root == ('param', 3):
        d = 'asc'
    elif r.root == ('param', 3) and a.root == ('param', 2):
        d = 'desc'
    else:
        return None, None
    if rev:
        d = 'asc' if d == 'desc' else 'desc'
    return d, fname


def sort_semantics(F, body, call):
    """(direction, key field) of a sort call whatever its form: comparator closure (`*_by`), key closure
    (`*_by_key`, `Reverse(..)` flips) or natural order"""
    nm = call.name
    if nm in ('sort', 'sorted', 'sort_unstable', 'sorted_unstable'):
        return 'asc', None
    for cb in closure_args_of_call(F, body, call):
        if 'by_key' in nm or 'by_cached_key' in nm:
            e = ExprBuilder(cb).place(0, ())
            d = 'asc'
            x = e
            while x.kind in ('agg', 'call') and ('Reverse' in (x.name or '')) and x.args:
                d = 'desc' if d == 'asc' else 'asc'
                x = x.args[0]
            x = x.strip()
            if x.kind == 'place' and x.root == ('param', 2) and x.fields:
                return d, x.fields[-1]
            if x.kind == 'call' and x.args and any(p.root == ('param', 2) for p in x.args[0].places()):
                return d, x.name.rsplit('::', 1)[-1]
            return None, None
        return comparator_direction(cb)
    return None, None


def dedup_key(F, body, call):
    """field by which a dedup call identifies duplicates: dedup_by(|a, b| a.f == b.f) / dedup_by_key(|x| x.f)"""
    for cb in closure_args_of_call(F, body, call):
        e = ExprBuilder(cb).place(0, ())
        if call.name == 'dedup_by_key':
            x = e.strip()
            return x.fields[-1] if x.kind == 'place' and x.root == ('param', 2) and x.fields else None
        cm = as_cmp(e, True)
        if cm is not None and cm[0] == 'Eq':
            a, b_ = cm[1].strip(), cm[2].strip()
            if a.kind == 'place' and b_.kind == 'place' and a.fields[-1:] == b_.fields[-1:] and a.fields and \
                    {a.root, b_.root} == {('param', 2), ('param', 3)}:
                return a.fields[-1]
        return None
    return None


def _upvar_written_fields(cb, k):
    """field paths of upvar k that closure cb writes (() = the captured variable itself; ('max_seen',) = a field of a
    captured struct that carries the running state)"""
    eb = ExprBuilder(cb)
    out = set()
    for i in sorted(cb.live_blocks()):
        for si, s in enumerate(cb.blocks[i]['st']):
            if s['k'] != 'assign':
                continue
            lhs = s['lhs']
            if lhs['p'] and lhs['p'][0] == '*':
                tgt = eb.place(lhs['l'], tuple(proj_key_(p) for p in lhs['p']), 0, (i, si))
                if tgt.kind == 'place' and tgt.root == ('upvar', k):
                    out.add(tuple(tgt.fields))
    return out


def _upvar_uses(cb, k, fields=()):
    """classify the uses of upvar k (or of its field path `fields`) inside closure body cb: returns dict(writes=[ln],
    cmp_reads=[ln], other_reads=[ln], nested=[(closure body, k2)])"""
    eb = ExprBuilder(cb)
    res = {'writes': [], 'cmp_reads': [], 'other_reads': [], 'nested': [], 'write_blocks': []}
    fields = tuple(fields)

    def is_acc(e):
        e = e.strip() if e.kind in ('call', 'cast') else e
        return e.kind == 'place' and e.root == ('upvar', k) and tuple(e.fields) == fields

    for i in sorted(cb.live_blocks()):
        for si, s in enumerate(cb.blocks[i]['st']):
            if s['k'] != 'assign':
                continue
            lhs = s['lhs']
            # write through the captured reference
            if lhs['p'] and lhs['p'][0] == '*':
                tgt = eb.place(lhs['l'], tuple(proj_key_(p) for p in lhs['p']), 0, (i, si))
                if tgt.kind == 'place' and tgt.root == ('upvar', k) and tuple(tgt.fields) == fields:
                    res['writes'].append(s['ln'])
                    res['write_blocks'].append(i)
                    continue
            rv = s['rv']
            if rv['k'] == 'bin':
                a = eb.operand(rv['a'], at=(i, si))
                b_ = eb.operand(rv['b'], at=(i, si))
                if is_acc(a) or is_acc(b_):
                    if rv['op'] in ('Lt', 'Le', 'Gt', 'Ge'):
                        res['cmp_reads'].append(s['ln'])
                    else:
                        res['other_reads'].append('%s at %s' % (rv['op'], s['ln']))
            elif rv['k'] == 'agg' and rv['ak'] == 'closure':
                for k2, op in enumerate(rv['ops']):
                    for (l, pj) in ref_targets(cb, op):
                        if l == 1 and any(isinstance(p, tuple) and p[0] == 'upvar' and p[1] == k for p in pj):
                            res['nested'].append((norm(rv['def']), k2))
                    e = eb.operand(op, at=(i, si))
                    if is_acc(e):
                        res['nested'].append((norm(rv['def']), k2))
        c = cb.call_at(i)
        if c:
            for j, a in enumerate(c.args):
                e = eb.arg(c, j)
                if is_acc(e):
                    if c.name in ('lt', 'le', 'gt', 'ge', 'partial_cmp', 'max', 'min', 'total_cmp'):
                        res['cmp_reads'].append(c.ln)
                    else:
                        res['other_reads'].append('%s(..) at %s' % (c.name, c.ln))
    return res


def proj_key_(p):
    from mir import proj_key
    return proj_key(p)


def accumulator_analysis(F, body):
    """locals of `body` captured by reference by closures, with per top-level closure: writes / value reads.
    returns {local: {'writers': [(closure, aggregate bb)], 'readers': [(closure, aggregate bb, where)]}}"""
    out = {}
    for bb, si, dp, ops, lhs in closure_aggregates(body):
        top = F.closure_body(dp)
        if top is None:
            continue
        for k, op in enumerate(ops):
            for (l, pj) in ref_targets(body, op):
                if pj:
                    continue
                # which part of the captured variable carries running state: the variable itself, or fields of a
                # captured struct (every field path written by some closure of this body)
                fps = {()} | ACC_FIELDS.setdefault((body.npath, l), set()) | _upvar_written_fields(top, k)
                ACC_FIELDS[(body.npath, l)] |= fps
                for fp in sorted(fps):
                    # walk the capture chain
                    stack = [(top, k)]
                    writes, reads = [], []
                    seen = set()
                    while stack:
                        cb, kk = stack.pop()
                        if (cb.npath, kk) in seen:
                            continue
                        seen.add((cb.npath, kk))
                        u = _upvar_uses(cb, kk, fp)
                        writes += u['writes']
                        reads += ['%s in %s' % (r, cb.npath.rsplit('::', 1)[-1]) for r in u['other_reads']]
                        for dp2, k2 in u['nested']:
                            nb = F.closure_body(dp2)
                            if nb is not None:
                                stack.append((nb, k2))
                    d = out.setdefault((l, fp), {'writers': [], 'readers': [], 'fields': fp})
                    if writes:
                        d['writers'].append((top, bb, reads))
                    elif reads:
                        d['readers'].append((top, bb, reads))
    return {l: d for l, d in out.items() if d['writers']}


ACC_FIELDS = {}


def rule_barrier(ctx, R, path, who):
    """R17.2 / R05.3: the running maximum distance is only *used* (beyond compare-and-update) behind a collecting
    barrier, i.e. after every distance of the stream has been seen"""
    F = ctx.F
    b = ctx.anchor(R, path)
    if b is None:
        return 0
    acc = accumulator_analysis(F, b)
    n = 0
    if not acc:
        ctx.fail(R, b, who + ':max-dist-accumulator', 'no stream-wide running maximum distance is maintained (no local '
                 'updated through a closure capture while the distance stream is filtered): vote weights are not '
                 '"largest distance seen minus distance" over the whole stream (ANCHOR-MISSING if the engine was '
                 'restructured)')
        return 0
    # votes of one (query, track) pair are grouped over the WHOLE stream (a map keyed by the pair), never by runs of
    # adjacent elements: the stream order is schedule dependent
    GROUPERS = ('into_group_map', 'into_group_map_by', 'into_grouping_map', 'into_grouping_map_by')
    CONSECUTIVE = ('group_by', 'chunk_by', 'dedup', 'dedup_by', 'dedup_by_key', 'dedup_with_count', 'coalesce',
                   'chunks', 'tuple_windows', 'dedup_by_with_count')
    SORTS = ('sorted', 'sorted_by', 'sorted_by_key', 'sorted_unstable', 'sorted_unstable_by', 'sorted_unstable_by_key',
             'sorted_by_cached_key')
    owners = [b] + all_closures(F, b)
    grp, bad = [], []
    for ob in owners:
        oeb = None
        for c in ob.find_calls():
            nm = c.name
            if nm in GROUPERS or (nm in ('entry', 'get_mut', 'insert') and 'HashMap' in c.callee):
                grp.append(c)
            if nm in CONSECUTIVE and ('itertools' in c.callee or 'Itertools' in c.callee or 'std::vec::Vec' in c.callee
                                      or 'slice' in c.callee):
                oeb = oeb or ExprBuilder(ob)
                recv = oeb.arg(c, 0)
                if not any(recv.has_call(x) for x in SORTS) and not recv.has_call('sort_by') and not recv.has_call('sort'):
                    bad.append((c, ob))
    n += 1
    ctx.check(bool(grp) and not bad, R, b, who + ':votes-grouped-over-the-whole-stream',
              'grouping by %s' % sorted({c.name for c in grp}),
              'the distances of a (query, track) pair are grouped by %s: only adjacent elements of the (schedule '
              'dependent, unsorted) stream are merged, so vote counts and weights depend on the arrival order' % (
                  sorted({c.name for c, _ in bad}) if bad else 'no whole-stream map (ANCHOR-MISSING)'),
              bad[0][0].ln if bad else None)
    for local, d in acc.items():
        for wcb, wbb, wreads in d['writers']:
            # the running maximum ranges over ALL distances of the stream: its update is not gated by the
            # acceptance test against max_distance
            from lib import subst_upvars as _su
            for k in range(0, 8):
                u = _upvar_uses(wcb, k, d.get('fields', ()))
                for wb in u['write_blocks']:
                    gated = []
                    for c in path_conditions(wcb, wb):
                        cm_ = c.cmp()
                        if not cm_:
                            continue
                        # the acceptance threshold, wherever it is kept (self.max_distance or a copy of it in a
                        # private state struct)
                        sides = [_su(F, wcb, cm_[1]), _su(F, wcb, cm_[2])]
                        if any(x.has_field('max_distance') for x in sides):
                            gated.append(c)
                    n += 1
                    ctx.check(not gated, R, wcb, who + ':running-max-over-all-distances',
                              'update of the running maximum is not conditioned on the acceptance test',
                              'the running maximum distance is only updated under %s: "largest distance seen" no '
                              'longer ranges over the whole stream, which changes every vote weight' % gated)
            n += 1
            ctx.check(not wreads, R, wcb, who + ':running-max-not-used-while-streaming',
                      'the updating closure only compares and updates the running maximum',
                      'the running maximum distance is used (%s) inside the lazily evaluated closure that is still '
                      'updating it: vote weights depend on the arrival order of the distance stream' % wreads)
            wcall = b.call_at(wbb)
            for rcb, rbb, rreads in d['readers']:
                rcall = b.call_at(rbb)
                if rcall is None or wcall is None:
                    continue
                recv = ExprBuilder(b).arg(rcall, 0)
                n += 1
                ok = False
                for x in recv.walk():
                    if x.kind == 'call' and x.name.rsplit('::', 1)[-1] in BARRIERS:
                        if any(y.kind == 'call' and y.extra is wcall for y in x.walk()):
                            ok = True
                ctx.check(ok, R, b, who + ':barrier-between-max-writer-and-reader',
                          'reader %s consumes a chain that is fully collected after writer %s' % (
                              rcb.npath.rsplit('::', 1)[-1], wcb.npath.rsplit('::', 1)[-1]),
                          'the closure reading the running maximum distance (%s) is lazily chained to the one updating '
                          'it (%s) without a collecting barrier: weights depend on the arrival order of the distance '
                          'stream' % (rcb.npath.rsplit('::', 1)[-1], wcb.npath.rsplit('::', 1)[-1]), rcall.ln)
    return n


def kept_sites(cb):
    """sites of a closure result that mean "element kept": [(bb, own condition E or None)]
    bool results: non-false definitions; Option results: Some aggregates and bool::then / then_some calls"""
    out = []
    eb = ExprBuilder(cb)
    rty = cb.locals[0]
    if rty == 'bool':
        for bb, kind, payload in result_assignments(cb):
            if kind == 'const' and payload is False:
                continue
            out.append((bb, payload if kind == 'expr' else None))
        return out
    for d in cb.defs().get(0, []):
        if d[1] not in cb.live_blocks():
            continue
        if d[0] == 'assign':
            rv = d[3]['rv']
            if rv['k'] == 'agg' and rv.get('v') == 'Some':
                out.append((d[1], None))
        else:
            c = d[2]
            if c.name in ('then', 'then_some') and 'bool' in (c.impl_self or c.callee):
                out.append((d[1], eb.arg(c, 0)))
    return out


def rule_running_max_source(ctx, R, path, who):
    """the largest distance "seen" is the largest distance that EXISTS: what is stored into the running maximum (a
    captured f32 written through the closure environment) is a distance read from the stream element, never a
    stand-in for a missing one (`unwrap_or(f32::MAX)`, a constant, a clamp) - a sentinel becomes the maximum and
    every weight (max - d) explodes"""
    F = ctx.F
    b = ctx.anchor(R, path)
    if b is None:
        return 0
    n = 0
    for cb in all_closures(F, b):
        eb = None
        for i in sorted(cb.live_blocks()):
            for si, s_ in enumerate(cb.blocks[i]['st']):
                if s_['k'] != 'assign' or s_['lhs']['p'] != ['*'] and s_['lhs']['p'] != [{'deref': True}] :
                    if not (s_['k'] == 'assign' and s_['lhs']['p'] and s_['lhs']['p'][0] == '*' and len(s_['lhs']['p']) == 1):
                        continue
                l = s_['lhs']['l']
                if cb.locals[l].replace(' ', '') != '&mutf32':
                    continue
                ds = [d for d in cb.defs().get(l, []) if d[0] == 'assign' and d[3]['rv']['k'] == 'use' and
                      d[3]['rv']['op'].get('k') in ('copy', 'move') and d[3]['rv']['op']['pl']['l'] == 1]
                if not ds:
                    continue
                eb = eb or ExprBuilder(cb)
                x = eb._rvalue(s_['rv'], (), 0, (i, si))
                # the element this closure sees may be the output of an upstream `.map(..)` of the same chain: read the
                # stored value in terms of the original stream element
                if any(p.root == ('param', 2) for p in x.places()):
                    from lib import adaptor_of_closure, subst_closure_param
                    try:
                        pb, ac = adaptor_of_closure(F, b, cb)
                    except Exception:
                        pb, ac = None, None
                    if pb is not None and ac is not None:
                        recv = ExprBuilder(pb).arg(ac, 0)
                        for y in recv.walk():
                            if y.kind == 'call' and y.name.rsplit('::', 1)[-1] == 'map' and hasattr(y.extra, 'args'):
                                ups = closure_args_of_call(F, pb, y.extra)
                                if len(ups) == 1:
                                    r = ExprBuilder(ups[0]).place(0, ())
                                    x = subst_closure_param(x, r)
                                break
                bad = [y.name.rsplit('::', 1)[-1] for y in x.walk() if y.kind == 'call' and y.name.rsplit('::', 1)[-1] in (
                    'unwrap_or', 'unwrap_or_else', 'unwrap_or_default', 'map_or', 'map_or_else', 'max', 'min', 'clamp')]
                consts = [y for y in x.walk() if y.kind == 'const']
                n += 1
                ctx.read(cb)
                ctx.check(not bad and not consts, R, cb, who + ':running-maximum-fed-by-existing-distances', repr(x)[:80],
                          'the running maximum of %s is assigned %r: a stand-in for a missing distance (%s) can become the '
                          '"largest distance seen" and every vote weight (max - d) is computed against it' % (
                              who, x, ', '.join(bad) or 'a constant'), s_.get('ln', ''))
    return n


def rule_filter_and_weights(ctx, R, path, who):
    """R17.1: d <= max_distance counted; groups with len >= min_votes kept; weight = sum(max_dist - d)"""
    F = ctx.F
    b = ctx.anchor(R, path)
    if b is None:
        return 0
    n = 0
    found = {'dist': False, 'votes': False, 'weight': False}
    dist_cbs, votes_cbs = [], []
    from lib import subst_upvars as _su2
    for cb in all_closures(F, b):
        ctx.read(cb)
        eb = ExprBuilder(cb)
        for bb, own in kept_sites(cb):
            facts = []
            for k in path_conditions(cb, bb):
                cm = k.cmp()
                if cm:
                    facts.append(cm)
            if own is not None:
                cm = as_cmp(own, True)
                if cm:
                    facts.append(cm)
            some = any(k.kind == 'discr' and k.variants == {'Some'} for k in path_conditions(cb, bb)) or \
                bool(cb.find_calls('std::ops::Try::branch'))
            from lib import subst_upvars as _su2
            facts = [(cm[0], _su2(F, cb, cm[1]), _su2(F, cb, cm[2])) for cm in facts]
            for cm in facts:
                o = orient(cm, lambda e: not (e.has_field('max_distance') or e.has_field('min_votes')))
                if o is None:
                    continue
                if o[2].has_field('max_distance'):
                    n += 1
                    found['dist'] = True
                    dist_cbs.append(cb)
                    ctx.check(o[0] == 'Le', R, cb, who + ':distance-counted-iff-le-max_distance',
                              '%r %s max_distance' % (o[1], o[0]),
                              'a distance is counted when `%r %s max_distance` (expected <=, i.e. "not exceeding")' % (
                                  o[1], o[0]))
                elif o[2].has_field('min_votes'):
                    n += 1
                    found['votes'] = True
                    votes_cbs.append(cb)
                    ctx.check(o[0] == 'Ge' and o[1].has_call('len'), R, cb, who + ':group-kept-iff-len-ge-min_votes',
                              '%r %s min_votes' % (o[1], o[0]),
                              'a (query, track) group is kept when `%r %s min_votes` (expected len >= min_votes)' % (
                                  o[1], o[0]))
        # weight term: Sub(running max (an upvar), distance)
        for i in sorted(cb.live_blocks()):
            for si, s_ in enumerate(cb.blocks[i]['st']):
                if s_['k'] == 'assign' and s_['rv']['k'] == 'bin' and s_['rv']['op'] == 'Sub':
                    a = eb.operand(s_['rv']['a'], at=(i, si)).strip()
                    b2 = eb.operand(s_['rv']['b'], at=(i, si)).strip()
                    if 'f32' not in cb.locals[s_['lhs']['l']]:
                        continue
                    # the running maximum is captured state: a bare captured variable, or a field of a captured
                    # accumulator struct — but never the configured threshold
                    def acc_like(x):
                        if not (x.kind == 'place' and x.root[0] == 'upvar'):
                            return False
                        if not x.fields:
                            return True
                        r = _su2(F, cb, x)
                        return not (x.has_field('max_distance') or r.has_field('max_distance') or
                                    r.has_field('min_votes'))
                    from lib import subst_upvars as _su2
                    a_up, b_up = acc_like(a), acc_like(b2)
                    if a_up and not b_up:
                        n += 1
                        found['weight'] = True
                        ctx.ok(R, cb, who + ':weight-term', 'max_dist - d: Sub(%r, %r)' % (a, b2), s_['ln'])
                    elif b_up and not a_up:
                        n += 1
                        found['weight'] = True
                        ctx.fail(R, cb, who + ':weight-term', 'vote weight is computed as Sub(%r, %r) (expected largest '
                                 'distance minus distance): closer matches get smaller weights' % (a, b2), s_['ln'])
    if not found['votes']:
        # loop form: `for (pair, dists) in groups { if dists.len() < min_votes { continue } .. push(elt) }` — the
        # element is built only on the `len >= min_votes` side
        for i in sorted(b.live_blocks()):
            for s_ in b.blocks[i]['st']:
                rv = s_.get('rv') or {}
                if s_['k'] == 'assign' and rv.get('k') == 'agg' and rv.get('ak') == 'adt' and \
                        norm(rv.get('adt', '')).endswith('TopNVotingElt') and b.in_loop(i):
                    for k in path_conditions(b, i):
                        cm = k.cmp()
                        if not cm:
                            continue
                        cm = (cm[0], _su2(F, b, cm[1]), _su2(F, b, cm[2]))
                        o = orient(cm, lambda e: not e.has_field('min_votes'))
                        if o and o[2].has_field('min_votes'):
                            n += 1
                            found['votes'] = True
                            votes_loop = True
                            ctx.check(o[0] == 'Ge' and o[1].has_call('len'), R, b,
                                      who + ':group-kept-iff-len-ge-min_votes', '%r %s min_votes' % (o[1], o[0]),
                                      'a (query, track) group is kept when `%r %s min_votes` (expected len >= '
                                      'min_votes)' % (o[1], o[0]))
    # only counted distances are grouped: the acceptance test sits UPSTREAM of the group that is measured against
    # min_votes, in the same adaptor chain
    if dist_cbs and votes_cbs:
        ebb = ExprBuilder(b)

        def taker(cb):
            for c in b.find_calls():
                if any(x.npath == cb.npath for x in closure_args_of_call(F, b, c)):
                    return c
            return None
        cv, cd = taker(votes_cbs[0]), taker(dist_cbs[0])
        ok = False
        if cv is not None and cd is not None:
            x = ebb.arg(cv, 0)
            while x is not None and x.kind == 'call':
                if x.extra is cd:
                    ok = True
                x = x.args[0] if x.args else None
        n += 1
        ctx.check(ok, R, b, who + ':votes-counted-after-distance-filter',
                  'the max_distance test is upstream of the min_votes test',
                  'the group size compared with min_votes is taken %s: distances exceeding max_distance are counted as '
                  'votes' % ('before the max_distance test is applied' if cd is None or cv is not None else
                             '(min_votes test not in the main chain)'))
    for k, v in found.items():
        if not v:
            ctx.fail(R, b, who + ':' + k, 'ANCHOR-MISSING: could not find the %s rule of %s' % (k, who))
    sums = False
    for cb in [b] + all_closures(F, b):
        if cb.find_calls('std::iter::Iterator::sum'):
            sums = True
    ctx.check(sums, R, b, who + ':weight-is-sum', 'weights are summed per (query, track) group',
              'the group weight is no longer the sum over the counted distances')
    return n


def sort_calls(body):
    return body.find_calls('core::slice::sort_by', 'std::slice::sort_by', 'sort_unstable_by', 'sort_by',
                           'sort_by_key', 'sort_unstable_by_key', 'sort_by_cached_key')


SORT_NAMES = ('sort_by', 'sort_unstable_by', 'sort_by_key', 'sort_unstable_by_key', 'sort_by_cached_key', 'sort',
              'sort_unstable', 'sorted_by', 'sorted_by_key', 'sorted_unstable_by')


def rule_topn_order(ctx, R):
    """every per-query list is sorted by decreasing weight and then truncated to N — whether the per-query step is the
    body of a `for` loop of winners() or a closure handed to for_each / map over the lists"""
    from lib import effective_sites, subst_upvars
    F = ctx.F
    b = ctx.anchor(R, TOPN)
    if b is None:
        return 0
    n = 0
    sc = [(site, c, o) for site, c, o in effective_sites(F, b) if c.name in SORT_NAMES and
          ('slice' in c.callee or 'Vec' in c.callee or 'itertools' in c.callee.lower())]
    tr = effective_sites(F, b, 'std::vec::Vec::truncate')
    ctx.check(len(sc) >= 1 and len(tr) >= 1, R, b, 'topn:sort-and-truncate-present', '',
              'top-N voting no longer sorts (%d) and truncates (%d) the per-query list' % (len(sc), len(tr)))
    for site, c, o in sc:
        d, f = sort_semantics(F, o, c)
        n += 1
        ctx.check(d == 'desc' and f == 'weight', R, o, 'topn:sorted-by-decreasing-weight',
                  'comparator: %s on %s' % (d, f),
                  'the per-query winners are sorted %s on `%s` (expected descending weight)' % (d, f), c.ln)
    for site, c, o in sc:
        n += 1
        detail = ''
        if o is not b:
            # the per-query step is a closure: the sort runs exactly once on every path through it
            r = count_on_paths(o, 0, o.returns(), [c.bb])
            okl = r == (1, 1)
            detail = 'per query (closure) %s' % (r,)
        else:
            # the sort is executed for every query: unconditional inside its loop
            hs = [h for h, blks in b.loops().items() if c.bb in blks]
            okl = bool(hs)
            if okl:
                h = max(hs, key=lambda x: len(b.loops()[x]) * -1)
                nx = [x for x in b.find_calls('std::iter::Iterator::next') if x.bb in b.loops()[h]]
                start = None
                for x in nx:
                    tb = b.blocks[x.target]['t']
                    if tb['k'] == 'switch':
                        for tg in set(tg for _, tg in b.switch_edges(x.target)):
                            if tg in b.diverging():
                                continue
                            cnd = Cond(b, x.target, tg)
                            if cnd.kind == 'discr' and cnd.variants == {'Some'}:
                                start, hdr = tg, x.bb
                if start is not None:
                    r = count_on_paths(b, start, [hdr], [c.bb])
                    detail = 'per query %s' % (r,)
                    okl = r == (1, 1)
        ctx.check(okl, R, b, 'topn:every-query-list-is-sorted', detail,
                  'the per-query winners are sorted only on some paths (%s): lists that skip the sort come out in '
                  'hash-map order' % detail, c.ln)
    for site, t, o in tr:
        n += 1
        ok = any(o2 is o and o.dominates(c.bb, t.bb) for _, c, o2 in sc) or \
            any(o2 is b and o is not b and b.dominates(c.bb, site) for _, c, o2 in sc)
        arg = subst_upvars(F, o, ExprBuilder(o).operand(t.args[1]))
        ctx.check(ok and arg.has_place(root=('param', 1), field='topn'), R, o, 'topn:truncate-after-sort',
                  'truncate(%r) dominated by the sort' % arg,
                  'truncate(%r) is not performed after the sort with N = self.topn' % arg, t.ln)
    return n


def rule_bestfit_claims(ctx, R):
    """claims are awarded in decreasing weight order; the taken-set holds awarded TRACKS; a loser falls back to itself.
    The claim loop may be a `for` loop of winners() or the closure of a `for_each`: all checks are made in the body
    that owns the taken-set operations, the ordering check at the block of winners() where that body runs."""
    from lib import effective_sites
    F = ctx.F
    b = ctx.anchor(R, BEST)
    if b is None:
        return 0
    n = 0
    sc = sort_calls(b)
    contains = effective_sites(F, b, 'std::collections::HashSet::contains')
    inserts = effective_sites(F, b, 'std::collections::HashSet::insert')
    if not inserts:
        ctx.fail(R, b, 'bestfit:claim-loop', 'ANCHOR-MISSING: no taken-set (HashSet::insert) found in best-fit voting')
        return 0
    for c in sc:
        d, f = sort_semantics(F, b, c)
        n += 1
        ctx.check(d == 'desc' and f == 'weight', R, b, 'bestfit:sorted-by-decreasing-weight',
                  'comparator: %s on %s' % (d, f),
                  'candidates are sorted %s on `%s` before tracks are awarded (expected descending weight: the '
                  'greatest weight must claim first)' % (d, f), c.ln)
    n += 1
    ctx.check(bool(sc) and all(any(b.dominates(s_.bb, site) for s_ in sc) for site, c, o in contains + inserts), R, b,
              'bestfit:sort-dominates-claim-loop', 'sort precedes the claim loop',
              'tracks are awarded in stream/group order: no sort by weight dominates the claim loop (first come wins '
              'instead of greatest weight)')
    for site, c, o in contains:
        a = ExprBuilder(o).arg(c, 1)
        n += 1
        ctx.check(a.has_field('winner_track') and not a.has_field('query_track'), R, o, 'bestfit:contains(winner)',
                  'contains(%r)' % a, 'the taken-set is queried with %r, not with the contested track' % a, c.ln)
    for site, c, o in inserts:
        a = ExprBuilder(o).arg(c, 1)
        n += 1
        ctx.check(a.has_field('winner_track') and not a.has_field('query_track'), R, o, 'bestfit:insert(winner)',
                  'insert(%r)' % a,
                  'the taken-set records %r instead of the awarded track: a track stops being exclusive' % a, c.ln)
        if [x for x in contains if x[2] is o]:
            conds = path_conditions(o, c.bb)
            neg = any(k.kind == 'bool' and k.truth is False and k.expr.kind == 'call' and k.expr.name.endswith(
                'HashSet::contains') for k in conds)
            ctx.check(neg, R, o, 'bestfit:insert-on-not-contains', '', 'the winner is recorded as taken although it '
                      'was already taken', c.ln)
    # loser keeps itself: winner_track := query_track on the already-taken side (contains == true | insert == false)
    found = False
    for o in {id(x[2]): x[2] for x in inserts + contains}.values():
        eo = ExprBuilder(o)
        for i in sorted(o.live_blocks()):
            for si, s in enumerate(o.blocks[i]['st']):
                if s['k'] == 'assign' and s['lhs']['p'] and isinstance(s['lhs']['p'][-1], dict) and \
                        s['lhs']['p'][-1].get('n') == 'winner_track':
                    rhs = eo._rvalue(s['rv'], (), 0, (i, si))
                    conds = path_conditions(o, i)
                    pos = any(k.kind == 'bool' and k.expr.kind == 'call' and (
                        (k.truth is True and k.expr.name.endswith('HashSet::contains')) or
                        (k.truth is False and k.expr.name.endswith('HashSet::insert'))) for k in conds)
                    found = True
                    n += 1
                    ctx.check(pos and rhs.has_field('query_track'), R, o, 'bestfit:loser-falls-back-to-itself',
                              'winner_track = %r on the already-taken side' % rhs,
                              'a query that loses a contest is assigned %r (taken-side=%s) instead of itself' % (
                                  rhs, pos), s['ln'])
    if not found:
        ctx.fail(R, b, 'bestfit:loser-falls-back-to-itself', 'a query that loses an appearance contest is no longer '
                 'redirected to itself: it stays attached to the contested track')
    return n


def rule_hungarian(ctx, R):
    """R02.2 / R17.5: SortVoting::winners goes through pathfinding's maximising kuhn_munkres"""
    b = ctx.anchor(R, SORTV)
    if b is None:
        return 0
    n = 0
    eb = ExprBuilder(b)
    km = [c for c in b.find_calls() if c.callee == 'pathfinding::kuhn_munkres::kuhn_munkres']
    n += 1
    ctx.check(len(km) == 1, R, b, 'hungarian:single-maximising-call', 'pathfinding::kuhn_munkres::kuhn_munkres',
              'SortVoting::winners calls pathfinding::kuhn_munkres::kuhn_munkres %d times (other assignment calls: %s)'
              % (len(km), [c.callee for c in b.find_calls() if 'kuhn' in c.callee and c not in km]))
    if not km:
        return n
    k = km[0]
    # every non-early return is dominated by the call and derives from its solution
    for d in b.defs().get(0, []):
        bb = d[1]
        if bb not in b.live_blocks():
            continue
        conds = path_conditions(b, bb)
        early = False
        for c in conds:
            cm = c.cmp()
            if cm and cm[0] == 'Eq':
                o = orient(cm, lambda e: e.strip().kind == 'place' and e.strip().root == ('param', 1) and
                           bool(e.strip().fields))
                # `self.<number of tracks> == 0` (the field is private: its name is not part of the rule)
                if o and o[2].kind == 'const' and o[2].const.get('v') == '0':
                    early = True
        if early:
            n += 1
            ctx.ok(R, b, 'hungarian:early-return-only-without-tracks', 'returns empty when track_num == 0')
            continue
        n += 1
        e = eb.place(0, ()) if d[0] == 'assign' else eb._call(d[2], (), 0)
        if d[0] == 'assign':
            for si_, s_ in enumerate(b.blocks[bb]['st']):
                if s_['k'] == 'assign' and s_['lhs']['l'] == 0 and not s_['lhs']['p'] and s_['rv'].get('k') == 'use':
                    e = eb.operand(s_['rv']['op'], at=(bb, si_))
        from_solution = any(y.kind == 'call' and y.extra is k for y in e.walk())
        if not from_solution and e.strip().kind == 'call' and e.strip().name.rsplit('::', 1)[-1] in ('new', 'default', 'with_capacity') \
                and not e.strip().proj:
            # loop form: the result is a fresh map filled by insert / extend calls — every filling call has to be
            # dominated by the assignment call and take its values from the solution
            src = [s_ for bb_ in [bb] for s_ in b.blocks[bb_]['st'] if s_['k'] == 'assign' and s_['lhs']['l'] == 0]
            loc = None
            if d[0] == 'assign' and src and src[-1]['rv'].get('k') == 'use' and src[-1]['rv']['op'].get('pl'):
                loc = src[-1]['rv']['op']['pl']['l']
            fills = []
            for c in b.find_calls():
                if c.name in ('insert', 'extend', 'push', 'entry', 'or_insert', 'or_insert_with') and c.args and \
                        (eb.arg(c, 0).strip().extra is e.strip().extra and e.strip().extra is not None or
                         loc is not None and eb.arg(c, 0).has_place(root=('local', loc))):
                    fills.append(c)
            from_solution = bool(fills) and all(
                b.dominates(k.bb, c.bb) and any(y.kind == 'call' and y.extra is k for i_ in range(1, len(c.args))
                                                for y in eb.arg(c, i_).walk()) for c in fills)
        ctx.check(b.dominates(k.bb, bb) and from_solution, R, b, 'hungarian:winners-from-solution',
                  'result derives from the kuhn_munkres solution',
                  'the returned winners do not derive from the kuhn_munkres solution on every path (greedy / '
                  'first-come choice possible)')
    # every element of the stream registers its query row, its track column and its weight
    ebx = ExprBuilder(b)
    for h, blks in b.loops().items():
        nx = [x for x in b.find_calls('std::iter::Iterator::next') if x.bb in blks and ebx.arg(x, 0).has_place(
            root=('param', 2))]
        if not nx:
            continue
        x = nx[0]
        start = None
        tb = b.blocks[x.target]['t']
        if tb['k'] == 'switch':
            for tg in set(tg for _, tg in b.switch_edges(x.target)):
                if tg in b.diverging():
                    continue
                cnd = Cond(b, x.target, tg)
                if cnd.kind == 'discr' and cnd.variants == {'Some'}:
                    start = tg
        if start is None:
            continue
        marks = {'row/column lookup': [c.bb for c in b.find_calls('std::collections::HashMap::get',
                                                                   'std::collections::HashMap::entry',
                                                                   'std::collections::HashMap::contains_key',
                                                                   'std::collections::HashMap::get_mut') if c.bb in blks],
                 'matrix write': [c.bb for c in b.find_calls('get_mut') if c.bb in blks and 'Matrix' in c.callee]}
        for what, ms in marks.items():
            r = count_on_paths(b, start, [x.bb], ms)
            n += 1
            want = 'at least 1' if what.startswith('row') else (1, 1)
            ctx.check((r is not None and r[0] >= 1) if what.startswith('row') else r == want, R, b, 'hungarian:every-stream-element-registers-' + what.split()[0],
                      'per element %s' % (r,),
                      'an element of the distance stream can be skipped before its %s (per element %s, expected %s): a '
                      'query that only has such elements disappears from the result instead of winning itself' % (
                          what, r, want))
    # the row of a query and the column of a track are found BY ID: the cell index of a stream element is read from
    # (or freshly registered in) the id -> index map under the element's own `from` / `to`. Rows opened by adjacency
    # ("a new row whenever `from` differs from the previous element") depend on how the shard workers' chunks
    # interleave in the stream.
    def keyed(e, field):
        for y in e.walk():
            if y.kind == 'call' and y.name.rsplit('::', 1)[-1] in ('get', 'entry', 'get_mut', 'get_or_insert_with', 'remove') \
                    and 'HashMap' in y.name and len(y.args) >= 2 and y.args[1].has_field(field):
                return True
        return False
    ins = {f: [c for c in b.find_calls('std::collections::HashMap::insert', 'std::collections::HashMap::entry')
               if len(c.args) >= 2 and ebx.arg(c, 1).has_field(f)] for f in ('from', 'to')}
    for c in b.find_calls('get_mut'):
        if 'Matrix' not in c.callee or not b.in_loop(c.bb):
            continue
        idx = ebx.arg(c, 1).strip()
        if not (idx.kind == 'agg' and len(idx.args) == 2 and (idx.has_field('from') or idx.has_field('to'))):
            continue
        for comp, f, what in ((idx.args[0], 'from', 'row'), (idx.args[1], 'to', 'column')):
            n += 1
            ctx.check(keyed(comp, f) and bool(ins[f]), R, b, 'hungarian:%s-found-by-id' % what, repr(comp)[:100],
                      'the %s of a stream element in the cost matrix is %r: it is not looked up in / registered under the '
                      "element's `%s` id in the id -> index map (%d registration site(s)); indices assigned by position or "
                      'adjacency in the stream depend on the order in which the shard workers answer' % (
                          what, comp, f, len(ins[f])), c.ln)
    return n


def rule_hungarian_matrix(ctx, R):
    """R02.1(diag) / R02.3: own column = self.threshold on (i, i); threshold and weights share one scale constant"""
    F = ctx.F
    b = ctx.anchor(R, SORTV)
    nb = ctx.anchor(R, 'trackers::sort::voting::SortVoting::new')
    if b is None or nb is None:
        return 0
    n = 0
    from lib import subst_upvars
    # assignments through get_mut((r, c)) / index_mut results, in winners() or in closures nested in it
    diag = False
    weight_scale = None
    for ob in [b] + all_closures(F, b):
      eb = ExprBuilder(ob)
      for i in sorted(ob.live_blocks()):
        for si, s in enumerate(ob.blocks[i]['st']):
            if s['k'] != 'assign' or not s['lhs']['p'] or s['lhs']['p'][0] != '*':
                continue
            tgt = eb.place(s['lhs']['l'], (), 0, (i, si))
            gm = [x for x in tgt.walk() if x.kind == 'call' and (x.name.endswith('get_mut') or
                                                                 x.name.endswith('index_mut')) and
                  ('Matrix' in x.name or 'matrix' in x.name)]
            if not gm:
                continue
            rhs = subst_upvars(F, ob, eb._rvalue(s['rv'], (), 0, (i, si)))
            idx = gm[0].args[1]
            if rhs.has_place(root=('param', 1), field='threshold'):
                same = idx.kind == 'agg' and len(idx.args) == 2 and repr(idx.args[0]) == repr(idx.args[1])
                diag = True
                n += 1
                ctx.check(same, R, b, 'matrix:own-column-is-threshold', 'cost[(i, i)] = self.threshold',
                          'self.threshold is written to cell %r, not to the diagonal (i, i): leaving a detection '
                          'unmatched no longer counts as the threshold weight' % idx, s['ln'])
            else:
                muls = [x for x in rhs.walk() if x.kind == 'bin' and x.name == 'Mul']
                for m in muls:
                    cs = [a for a in m.args if a.kind == 'const']
                    if cs and m.args[0 if m.args[1] is cs[0] else 1].has_field('attribute_metric'):
                        weight_scale = cs[0]
    if not diag:
        ctx.fail(R, b, 'matrix:own-column-is-threshold', 'no assignment of self.threshold to the cost matrix found: '
                 'the "start a new track" alternative has no weight')
    # scale in new()
    e = ExprBuilder(nb).place(0, ())
    thr = None
    for x in e.walk():
        if x.kind == 'bin' and x.name == 'Mul':
            cs = [a for a in x.args if a.kind == 'const']
            oth = [a for a in x.args if a.kind != 'const']
            if cs and oth and oth[0].has_place(root=('param', 1)):
                thr = cs[0]
    n += 1
    ok = thr is not None and weight_scale is not None and thr.const.get('v') == weight_scale.const.get('v')
    ctx.check(ok, R, b, 'matrix:one-scale-for-threshold-and-weights',
              'threshold scale %r == weight scale %r' % (thr, weight_scale),
              'the threshold is scaled by %r but the pair weights by %r: gated weights and the new-track weight are '
              'not comparable' % (thr, weight_scale))
    # output filter: a pair is reported only if from > 0 && to > 0 (padding rows / columns are ids 0)
    from lib import necessary_keep_facts
    for cb in F.closures_of(b):
        if 'Option' not in cb.locals[0] and cb.locals[0] != 'bool':
            continue
        kf, pay = necessary_keep_facts(cb)
        if 'Option' in cb.locals[0] and not pay:
            continue
        gts = [v for v in kf.values() if v[0] in ('Gt', 'Lt', 'Ne', 'Ge')]
        pos = 0
        for g in gts:
            o = orient(g, lambda e: e.kind != 'const')
            if o and o[2].kind == 'const' and ((o[0] in ('Gt', 'Ne') and o[2].const.get('v') == '0') or
                                               (o[0] == 'Ge' and o[2].const.get('v') == '1')):
                pos += 1
        if not gts and not any(v[0] == 'bool' for v in kf.values()):
            continue
        n += 1
        ctx.check(pos >= 2, R, cb, 'hungarian:pairs-filtered-by-positive-ids', 'from > 0 && to > 0',
                  'an assignment pair is reported without the from > 0 && to > 0 filter (padding rows/columns '
                  'leak into the winners): %s' % list(kf))
    return n
