"""Check front end plumbing: obligations, findings, known-findings, evidence."""
import json
import os
import time

VERIF = os.path.dirname(os.path.dirname(os.path.abspath(__file__)))


class Finding:
    def __init__(self, prop, rule, defpath, instance, msg, site=''):
        self.prop = prop
        self.rule = rule
        self.defpath = defpath
        self.instance = instance
        self.msg = msg
        self.site = site

    @property
    def key(self):
        return '%s|%s|%s' % (self.rule, self.defpath, self.instance)

    def as_dict(self):
        return {'property': self.prop, 'rule': self.rule, 'def_path': self.defpath, 'instance': self.instance,
                'site': self.site, 'message': self.msg, 'key': self.key}


class Ctx:
    """collects obligations of one property run"""

    def __init__(self, prop, facts, tier='quick'):
        self.prop = prop
        self.F = facts
        self.tier = tier
        self.obligations = []   # dicts
        self.findings = []
        self.notes = []         # informational (never alarm)
        self.floors = {}        # rule -> (count, floor)
        self.bodies_read = set()
        self.rule_docs = {}
        self.extra = {}

    # ---- rule bookkeeping
    def rule(self, rid, doc):
        self.rule_docs[rid] = doc

    def read(self, body):
        if body is not None:
            self.bodies_read.add(body.npath)
        return body

    def anchor(self, rule, npath, multi=False):
        """public API / trait-method anchors: fail closed when missing"""
        bs = self.F.get(npath)
        if not bs:
            self.fail(rule, npath, 'ANCHOR-MISSING', 'anchor %s not found in the analysed crate' % npath)
            return [] if multi else None
        for b in bs:
            self.read(b)
        return bs if multi else bs[0]

    def ok(self, rule, body, instance, detail='', site=''):
        self.obligations.append({'rule': rule, 'def_path': body if isinstance(body, str) else body.npath,
                                 'instance': instance, 'verdict': 'ok', 'detail': detail,
                                 'site': site or (body.span if not isinstance(body, str) else '')})

    def fail(self, rule, body, instance, msg, site=''):
        dp = body if isinstance(body, str) else body.npath
        st = site or (body.span if not isinstance(body, str) else '')
        self.obligations.append({'rule': rule, 'def_path': dp, 'instance': instance, 'verdict': 'VIOLATED',
                                 'detail': msg, 'site': st})
        self.findings.append(Finding(self.prop, rule, dp, instance, msg, st))

    def check(self, cond, rule, body, instance, okmsg='', failmsg='', site=''):
        if cond:
            self.ok(rule, body, instance, okmsg, site)
        else:
            self.fail(rule, body, instance, failmsg or okmsg, site)
        return cond

    def note(self, rule, text):
        self.notes.append({'rule': rule, 'note': text})

    def floor(self, rule, count, floor):
        """a rule that matches fewer sites than confirmed by hand fails closed"""
        # `floor` is the number of instances confirmed by hand on the reference tree. Behaviour-preserving edits merge
        # duplicated branches or fold two sites into one helper, which lowers the count without removing an
        # obligation; the rule fails closed only when it lost more than a third of its instances (a missing anchor is
        # reported by the rule itself as ANCHOR-MISSING, independently of this count).
        confirmed = floor
        floor = max(1, (2 * floor + 2) // 3) if floor > 2 else floor
        self.floors[rule] = (count, floor)
        self.floors_confirmed = getattr(self, 'floors_confirmed', {})
        self.floors_confirmed[rule] = confirmed
        if count < floor:
            self.fail(rule, '<crate>', 'FLOOR', 'rule matched %d instance(s), expected at least %d (fail closed: '
                      'the rule would otherwise pass vacuously)' % (count, floor))


def _evaluated(self, rule, count, expected):
    """soft floor of an exact-formula rule: it gives a verdict only where the code is straight-line arithmetic; on any
    other shape it records 'not evaluated' (the structural rules of the same clause still apply) and never alarms.
    The count is kept in the evidence; tools/run_all.sh asserts that on /repo HEAD every such rule is fully evaluated."""
    self.soft_floors = getattr(self, 'soft_floors', {})
    self.soft_floors[rule] = (count, expected)
    if count < expected:
        self.note(rule, 'evaluated %d of the %d instances evaluated on the reference tree' % (count, expected))


Ctx.evaluated = _evaluated


def load_known():
    p = os.path.join(VERIF, 'known_findings.json')
    if not os.path.exists(p):
        return {'known': [], 'fixed': []}
    with open(p) as f:
        return json.load(f)


def finish(ctx, t0, seed, extract_info, explanation, not_decided, assumptions):
    """prints KNOWN-FINDING / VIOLATION lines, writes evidence; returns exit code"""
    known = load_known()
    known_keys = {k['key']: k for k in known.get('known', []) if k.get('property') == ctx.prop}
    unknown = []
    for f in ctx.findings:
        if f.key in known_keys:
            print('KNOWN-FINDING: property=%s %s %s' % (ctx.prop, f.key, known_keys[f.key].get('what', f.msg)))
        else:
            unknown.append(f)
    ev_dir = os.environ.get('SIMLINT_EVIDENCE_DIR') or os.path.join(VERIF, 'evidence')
    os.makedirs(ev_dir, exist_ok=True)
    obl = ctx.obligations
    sites = {(o['rule'], o['def_path'], o['instance']) for o in obl}
    samples = []
    seen_rules = set()
    for o in obl:   # one sample per rule first, then fill
        if o['rule'] not in seen_rules:
            seen_rules.add(o['rule'])
            samples.append(o)
    for o in obl:
        if len(samples) >= 40:
            break
        if o not in samples:
            samples.append(o)
    ev = {
        'property_id': ctx.prop,
        'tier': ctx.tier,
        'seed': seed,
        'level': 'other',
        'coverage': {
            'explanation': explanation,
            'evaluations': len(obl),
            'distinct_nontrivial': len(sites),
            'rule': 'one evaluation = one rule instance (rule id, def-path, instance key) decided on the MIR of '
                    "/repo's current working tree; distinct = distinct (rule, def-path, instance) triples; every "
                    'instance carries a non-vacuous obligation (rules with zero matches fail closed via floors)',
            'obligations': len(obl),
            'discharged': len([o for o in obl if o['verdict'] == 'ok']),
            'samples': samples,
            'rules': ctx.rule_docs,
            'floors': {k: {'matched': v[0], 'floor': v[1]} for k, v in ctx.floors.items()},
            'formula_rules_evaluated': {k: {'evaluated': v[0], 'on_reference_tree': v[1]}
                                        for k, v in getattr(ctx, 'soft_floors', {}).items()},
            'analysed': {'bodies_in_crate': ctx.F.n_bodies, 'bodies_read_for_this_property': len(ctx.bodies_read),
                         'bodies': sorted(ctx.bodies_read)[:200], 'facts': extract_info},
            'not_decided': not_decided,
            'informational': ctx.notes[:60],
            'known_findings_matched': [f.key for f in ctx.findings if f.key in known_keys],
            'exhaustive': False,
            'thorough': getattr(ctx, 'extra', {}),
        },
        'assumptions': assumptions,
        'wall_s': round(time.time() - t0, 3),
        'violations': len(unknown),
    }
    with open(os.path.join(ev_dir, ctx.prop + '.json'), 'w') as f:
        json.dump(ev, f, indent=1)
    vpath = os.path.join(ev_dir, ctx.prop + '.violation.json')
    if unknown:
        with open(vpath, 'w') as f:
            json.dump({'property': ctx.prop, 'violations': [u.as_dict() for u in unknown]}, f, indent=1)
        for u in unknown:
            print('  %s  %s  [%s] %s: %s' % (u.site, u.defpath, u.rule, u.instance, u.msg))
        print('VIOLATION property=%s replay=%s' % (ctx.prop, vpath))
        return 1
    if os.path.exists(vpath):
        os.remove(vpath)
    print('OK property=%s obligations=%d discharged=%d known=%d wall=%.2fs' % (
        ctx.prop, len(obl), len([o for o in obl if o['verdict'] == 'ok']), len(ctx.findings) - len(unknown),
        time.time() - t0))
    return 0


def run_module(mod, ctx):
    """runs a property module; a rule that raises on a shape it cannot interpret fails closed (like a missing anchor)"""
    import os
    import traceback
    try:
        mod.run(ctx)
    except SystemExit:
        raise
    except Exception as e:
        tb = traceback.extract_tb(e.__traceback__)
        where = '%s:%d in %s' % (os.path.basename(tb[-1].filename), tb[-1].lineno, tb[-1].name)
        ctx.rule('RULE-CRASH', 'a rule could not interpret the shape of the code it is anchored in')
        ctx.fail('RULE-CRASH', '<crate>', 'rule-evaluation', 'ANCHOR-MISSING: rule code raised %s: %s at %s - the '
                 'construct the rule reads has a shape the rule does not recognise; remaining rules of this '
                 'property were not evaluated' % (type(e).__name__, e, where))
