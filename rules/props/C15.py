"""C15 — exclusively-owned area share (partial claim: subtraction discipline, pair pre-filter, share formula, wiring)."""
from lib import (ExprBuilder, all_closures, as_cmp, closure_args_of_call, orient, path_conditions, subst_upvars,
                 expand_conditions)
import props.C20 as C20
from props import C08

EXPLANATION = (
    "Only the clauses of C15 whose truth is visible in the shape of the code are decided; the exactness and robustness "
    "of geo's polygon difference is NOT. (R15.1) the region computed for a box starts as the polygon of that box and "
    "is changed only by BooleanOps::difference whose operand is the polygon of ANOTHER element of the same slice; the "
    "accumulated value is what is returned for the box (no union / intersection / xor anywhere in the computation); "
    "(R15.2) when the near-pair pre-filter is the recognised set-of-index-pairs mechanism: a pair is recorded exactly "
    "on the `too_far == false` side for the two boxes whose indices form the pair, the recorded second index is the "
    "inner counter plus the start of the inner sub-slice, and the per-box stage looks a pair up in BOTH orientations "
    "(necessary for 'does not depend on the order of the boxes' and for 'every overlapping box is subtracted'); "
    "(R15.3) the share is unsigned_area(own region) / (area(box) + EPS) with the region and the box taken from the same "
    "position of the two slices, followed by a clamp to 1 (necessary for 'lies in [0,1]' and for a zero-area box not "
    "to yield NaN); (R15.4) the pre-filter compares the distance of both centres with the sum of BOTH bounding radii "
    "and the radius reads both half extents (shared with C08: necessary for 'never skips an overlapping box'); "
    "(R15.5) both VisualSORT trackers compute the regions and the shares from one and the same list of boxes, which "
    "holds the box of every observation of the scene in order, and hand share[i] to the observation with index i."
    " (R15.6) the polygon a box contributes is its rectangle rotated by +angle about its centre with vertices in boundary order, and area() in the denominator is that rectangle's area (exact formulas by rational-function normal form, evaluated where the code is straight-line arithmetic; a `match x % n` on a signed remainder with a wildcard arm for the last residue is reported)."
    ' R15.1 also requires that every way out of the per-box stage derives from the running region (no containment shortcut that returns a region without subtracting); (R15.7) the epsilon of the share denominator is the public constant EPS = 1e-5.')
EXPLANATION += ' R15.1 also requires the operands of `difference` to be plain conversions of the boxes (no coordinate rewriting); R15.2 requires that a near pair is recorded under the bounding-circle test alone, whatever container holds the pairs.'
NOT_DECIDED = ["exactness / robustness of geo::BooleanOps::difference on near-degenerate inputs",
               "the numeric value of the share (only its formula, operand pairing and clamp are decided)",
               "soundness of the pre-filter bound as an inequality (only its wiring is decided)",
               "the polygon generated for a rotated box (vertex arithmetic; its f64 widening is R08.8)"]
ASSUMPTIONS = ["geo::BooleanOps::difference and geo::Area::unsigned_area are exact enough (C15 numeric part)",
               "rayon's indexed collect preserves the order of the input slice (documented)",
               "rustc nightly MIR construction"]

AREAS = 'utils::clipping::bbox_own_areas::exclusively_owned_areas'
SHARES = 'utils::clipping::bbox_own_areas::exclusively_owned_areas_normalized_shares'
BOOLEAN_OPS = ('difference', 'union', 'intersection', 'xor', 'boolean_op', 'clip')


def uncast(e):
    while e.kind == 'cast' and e.args:
        e = e.args[0]
    return e


def flat(e):
    out = []

    def rec(x):
        if x.kind == 'phi':
            for y in x.args:
                rec(y)
        else:
            out.append(x)
    rec(e)
    return out


def linear(e):
    """multiset of the terms of a sum (association and order of `+` do not matter)"""
    e = uncast(e)
    e = e.strip() if e.kind == 'call' else e
    if e.kind == 'bin' and e.name == 'Add':
        return sorted(linear(e.args[0]) + linear(e.args[1]))
    return [repr(e)]


from lib import E, elem_key, FOLDS  # noqa: E402


def element_source(e):
    return None


DROPPING = ('index', 'skip', 'take', 'step_by', 'rev', 'get', 'skip_while', 'take_while', 'split_at', 'chunks',
            'windows', 'dedup', 'chain', 'cycle', 'filter_map', 'flat_map')


def whole_input(chain):
    """the iterated expression is the boxes parameter of the function, un-sliced and un-reordered (a `filter` is the
    near-pair test itself and is judged by R15.2)"""
    if chain is None:
        return False
    bad = [y.name.rsplit('::', 1)[-1] for y in chain.walk() if y.kind == 'call' and
           y.name.rsplit('::', 1)[-1] in DROPPING]
    for y in chain.walk():
        # an index range: 0..boxes.len()
        if y.kind == 'agg' and y.name.endswith('Range::Range') and len(y.args) == 2:
            lo, hi = uncast(y.args[0]), y.args[1]
            if not (lo.kind == 'const' and str(lo.const.get('v')) == '0' and hi.has_call('len')):
                bad.append('range')
    return any(p.root == ('param', 1) for p in chain.places()) and not bad


CONVERSIONS = ('from', 'into', 'new', 'deref', 'clone', 'borrow', 'as_ref', 'to_owned', 'into_iter', 'collect', 'unwrap',
               'from_iter', 'into_vec', 'into_boxed_slice', 'box_new', 'to_vec', 'try_from', 'try_into', 'expect', 'iter',
               'cloned', 'copied', 'once', 'exterior', 'into_inner', 'as_slice', 'unsize', 'from_elem')


def reshaped_between(e):
    """the polygon handed to `difference` is the CONVERSION of the box: on the way from the box to the operand (the spine
    of first arguments down to the innermost `from`) only conversions occur. A call that rewrites coordinates in
    between (map_coords with a snapping closure, a simplification, a buffer) subtracts / keeps a different shape from
    the rectangle of the box. Returns the offending call name or None."""
    spine = []
    x = e
    while isinstance(x, E) and len(spine) < 40:
        spine.append(x)
        if x.kind in ('cast', 'call', 'agg') and x.args and isinstance(x.args[0], E):
            x = x.args[0]
        else:
            break
    froms = [i for i, y in enumerate(spine) if y.kind == 'call' and y.name.rsplit('::', 1)[-1] in ('from', 'into')]
    if not froms:
        return None
    for y in spine[:froms[-1]]:
        if y.kind == 'call' and y.name.rsplit('::', 1)[-1] not in CONVERSIONS:
            return y.name.rsplit('::', 1)[-1]
    return None


def subtraction_rule(ctx, R):
    F = ctx.F
    fb = ctx.anchor(R, AREAS)
    if fb is None:
        return 0
    n = 0
    bodies = [fb] + all_closures(F, fb)
    ops = [(b, c) for b in bodies for c in b.find_calls() if c.callee.startswith('geo::BooleanOps::') or (
        c.name in BOOLEAN_OPS and 'geo::' in c.callee)]
    foreign = [(b, c) for b, c in ops if c.name != 'difference']
    n += 1
    ctx.check(not foreign, R, fb, 'only-difference',
              'boolean operations: %s' % sorted({c.name for _, c in ops}),
              'the exclusively owned region is computed with %s (only `difference` removes what other boxes cover)' %
              sorted({c.name for _, c in foreign}), foreign[0][1].ln if foreign else '')
    diffs = [(b, c) for b, c in ops if c.name == 'difference']
    if not diffs:
        ctx.fail(R, fb, 'difference', 'ANCHOR-MISSING: no BooleanOps::difference in exclusively_owned_areas: the '
                 'regions covered by other boxes are not removed')
        return n
    for b, c in diffs:
        ctx.read(b)
        eb = ExprBuilder(b)
        recv = eb.arg(c, 0)
        other = eb.arg(c, 1)
        # the minuend: the running region — the polygon of the own box, or the result of an earlier difference (in a
        # loop: the previous iteration; in a fold: the accumulator, which starts as the polygon of the own box)
        alts = flat(recv)
        accumulates = any(a.kind == 'call' and a.name.endswith('difference') for a in alts)
        own_keys = set()
        ok_min = True
        for a in alts:
            if a.kind == 'call' and a.name.endswith('difference'):
                continue
            k, chain, role = elem_key(F, fb, b, a)
            if role == 'acc':
                accumulates = True
                pb, _c = __import__('lib').adaptor_of_closure(F, fb, b)
                k, chain, role = elem_key(F, fb, pb, chain) if pb is not None else (None, None, None)
            if k is None:
                ok_min = False
            own_keys.add(k)
        for a in list(alts) + [other]:
            if a.kind == 'call' and a.name.endswith('difference'):
                continue
            bad = reshaped_between(a)
            n += 1
            ctx.check(bad is None, R, b, 'operand=conversion-of-the-box', repr(a)[:80],
                      'the polygon given to `difference` is not the plain conversion of the box: `%s` rewrites it on the '
                      'way (%r) - the share is then computed for a different shape from the rectangle of the box' % (
                          bad, a), c.ln)
        n += 1
        ctx.check(ok_min and len(own_keys) == 1, R, b, 'minuend=own-region',
                  'minuend alternatives: %s' % [repr(a)[:60] for a in alts],
                  'the difference is not taken from the running region of the box itself (%s)' % [
                      repr(a)[:80] for a in alts], c.ln)
        from lib import adaptor_of_closure
        in_fold = b.kind == 'Closure' and (adaptor_of_closure(F, fb, b)[1] is not None and
                                           adaptor_of_closure(F, fb, b)[1].name in FOLDS)
        if b.in_loop(c.bb) or in_fold or accumulates:
            n += 1
            ctx.check(accumulates, R, b, 'differences-accumulate',
                      'the minuend of a later difference is the result of the earlier one',
                      'every difference starts again from the whole polygon of the box (%s): only the last near box '
                      'is removed from the region' % [repr(a)[:60] for a in alts], c.ln)
        ok_, ochain, _r = elem_key(F, fb, b, other)
        n += 1
        is_poly = other.has_call('from')
        if not is_poly and ochain is not None:
            # polygons prepared once: the subtrahend is an element of a vector that is the order-preserving image
            # `boxes.iter().map(|b| polygon of b).collect()` of the input slice
            from lib import subst_upvars as _su
            och = _su(F, b, ochain)
            for y in och.walk():
                if y.kind == 'call' and y.name.rsplit('::', 1)[-1] == 'map' and hasattr(y.extra, 'args') and \
                        y.args and y.args[0].has_place(root=('param', 1)):
                    for hb_ in [fb] + all_closures(F, fb):
                        if y.extra in hb_.calls().values():
                            for mcb in closure_args_of_call(F, hb_, y.extra):
                                r_ = ExprBuilder(mcb).place(0, ())
                                # ... and that image is the polygon CONVERSION of the box on every path (a cached /
                                # conditional polygon is not: the cache may belong to an older geometry)
                                pure = all(y_.kind in ('place', 'cast') or (y_.kind == 'call' and y_.name.rsplit('::', 1)[-1] in (
                                    'from', 'into', 'deref', 'clone', 'borrow', 'as_ref')) for y_ in r_.walk())
                                if pure and r_.has_call('from') and all(p_.root == ('param', 2) for p_ in r_.places()):
                                    is_poly = True
                                    ochain = och
        unrecognised = ochain is None
        if unrecognised:
            ctx.note(R, 'the box whose polygon is subtracted (%r) is not an element of an iteration this rule recognises (an '
                     'index taken from another container): subtrahend clauses not evaluated (no alarm)' % (other,))
        ctx.check(unrecognised or (ok_ is not None and ok_ not in own_keys and is_poly), R, b,
                  'subtrahend=other-box', 'subtrahend from %s' % ok_,
                  'the polygon that is subtracted (%r) is not the polygon of ANOTHER box of the set (the own box '
                  'comes from %s)' % (other, sorted(map(str, own_keys))), c.ln)
        # the other boxes range over the input slice of the function
        n += 1
        ctx.check(unrecognised or (ochain is not None and any(p.root == ('param', 1) for p in ochain.places())), R, b,
                  'subtrahend-from-the-input-set', 'subtrahend ranges over the boxes parameter',
                  'the subtracted polygons do not come from the boxes handed to exclusively_owned_areas (%r over %r)' % (
                      other, ochain), c.ln)
        # "another box" is decided by POSITION in the set, never by comparing box values: two detections with (nearly)
        # the same box are two boxes, and each covers the other
        n += 1
        byvalue = []
        from lib import paths_to
        for cv in (paths_to(b, c.bb) or [path_conditions(b, c.bb)]):
            for k in cv:
                if k.kind == 'bool' and k.expr.kind == 'call' and k.expr.name.rsplit('::', 1)[-1] in ('eq', 'ne') and \
                        len(k.expr.args) == 2:
                    ks = [elem_key(F, fb, b, a_)[0] for a_ in k.expr.args]
                    if None not in ks and ks[0] != ks[1] and not any(
                            str(f_) in ('0', 'index') for a_ in k.expr.args for p_ in a_.places() for f_ in p_.fields[-1:]
                            if p_.fields and str(p_.fields[-1]) == '0' and False):
                        tys = [str(b.locals[a_['pl']['l']]) for a_ in k.expr.extra.args if a_.get('pl')] \
                            if hasattr(k.expr.extra, 'args') else []
                        if any('Universal2DBox' in t_ for t_ in tys):
                            byvalue.append(k)
        # the same test hidden in a filter of the iteration the subtrahend comes from
        if ochain is not None:
            for y in ochain.walk():
                if y.kind == 'call' and y.name.rsplit('::', 1)[-1] in ('filter', 'filter_map', 'skip_while', 'take_while') \
                        and hasattr(y.extra, 'args'):
                    owner_b = b
                    from lib import adaptor_of_closure
                    for hb_ in [fb] + all_closures(F, fb):
                        if y.extra in hb_.calls().values():
                            owner_b = hb_
                    for fcb in closure_args_of_call(F, owner_b, y.extra):
                        ctx.read(fcb)
                        for qc in fcb.find_calls('std::cmp::PartialEq::eq', 'std::cmp::PartialEq::ne'):
                            tys = [str(fcb.locals[a_['pl']['l']]) for a_ in qc.args if a_.get('pl')]
                            if any('Universal2DBox' in t_ for t_ in tys):
                                byvalue.append(qc)
        ctx.check(not byvalue, R, b, 'other-box-by-position-not-by-value', '',
                  'whether a box is subtracted depends on a value comparison of the two boxes (%s): equal boxes are '
                  'distinct members of the set and cover each other' % [str(k)[:80] for k in byvalue], c.ln)
        # the accumulated region is what the per-box stage yields
        ret = ExprBuilder(b).place(0, ())
        n += 1
        ctx.check(any(y.kind == 'call' and y.extra is c for y in ret.walk()) or b is fb, R, b,
                  'region=accumulated-difference', 'the per-box result derives from the difference',
                  'the region returned for a box does not derive from the accumulated difference (%r)' % ret, c.ln)
        # ... on EVERY way out of the per-box stage (P13): a region that is produced without the running region - an
        # early `return empty` decided by some containment shortcut - is not "the box minus what the others cover"
        if b is not fb:
            from lib import backward_locals
            for d_ in b.defs().get(0, []):
                if d_[1] not in b.live_blocks():
                    continue
                src_ = backward_locals(b, [d_])
                recv_l = c.args[0]['pl']['l'] if c.args and c.args[0].get('k') in ('copy', 'move') else None
                derived = c.dest['l'] in src_ or (recv_l is not None and recv_l in src_)
                n += 1
                ctx.check(derived, R, b, 'every-result-derives-from-the-running-region', 'bb%d' % d_[1],
                          'the per-box stage has a result (bb%d) that is not built from the running region (own polygon minus '
                          'the differences so far): a shortcut decides the region of a box without subtracting' % d_[1],
                          d_[3].get('ln', '') if d_[0] == 'assign' else d_[2].ln)
    return n


def atoms(v):
    """the two index expressions of a pair; a normalised pair (min(a, b), max(a, b)) yields (a, b) and the flag"""
    a0, a1 = v.args[0].strip() if v.args[0].kind == 'call' and v.args[0].name.rsplit('::', 1)[-1] not in (
        'min', 'max', 'next') else v.args[0], v.args[1]
    def mm(x):
        x2 = x
        while x2.kind == 'call' and x2.name.rsplit('::', 1)[-1] in ('clone', 'deref', 'into', 'from') and x2.args:
            x2 = x2.args[0]
        if x2.kind == 'call' and x2.name.rsplit('::', 1)[-1] in ('min', 'max') and len(x2.args) == 2:
            return x2.name.rsplit('::', 1)[-1], x2.args
        return None, None
    k0, g0 = mm(v.args[0])
    k1, g1 = mm(v.args[1])
    if k0 and k1 and {k0, k1} == {'min', 'max'} and sorted(map(repr, g0)) == sorted(map(repr, g1)):
        return (g0[0], g0[1]), True
    return (v.args[0], v.args[1]), False


def pair_filter_rule(ctx, R):
    """armed only when the pre-filter is the recognised mechanism (a set of index pairs); any other mechanism is
    reported as evidence ('not evaluated'), never as a violation"""
    F = ctx.F
    fb = ctx.anchor(R, AREAS)
    if fb is None:
        return 0
    n = 0
    bodies = [fb] + all_closures(F, fb)
    inserts = []
    lookups = []
    for b in bodies:
        eb = ExprBuilder(b)
        for c in b.find_calls('std::collections::HashSet::insert', 'std::collections::BTreeSet::insert'):
            v = eb.arg(c, 1).strip()
            if v.kind == 'agg' and v.name == 'tuple' and len(v.args) == 2:
                inserts.append((b, c, v))
        for c in b.find_calls('std::collections::HashSet::contains', 'std::collections::BTreeSet::contains'):
            v = eb.arg(c, 1).strip()
            if v.kind == 'agg' and v.name == 'tuple' and len(v.args) == 2:
                lookups.append((b, c, v))
    # whatever the mechanism (a set of pairs, neighbour lists): where a pair is recorded under the bounding-circle test, that
    # test is the ONLY geometric condition - a second rejection test (axis-aligned extents that ignore the angle, a centre
    # distance of its own) drops pairs of boxes that do overlap, and their overlap is then not subtracted
    GEOM = {'xc', 'yc', 'aspect', 'height', 'angle', 'width', 'left', 'top'}
    for b in bodies:
        for c in b.find_calls('insert', 'push', 'push_back', 'extend', 'entry'):
            far, extra = [], []
            for conds in expand_conditions(b, path_conditions(b, c.bb)):
                f_ = [k for k in conds if k.kind == 'bool' and k.expr.kind == 'call' and k.expr.name.endswith('too_far')]
                far += f_
                extra += [k for k in conds if k not in f_ and k.kind == 'bool' and k.expr is not None and k.expr.kind != 'phi'
                          and any(k.expr.has_field(g_) for g_ in GEOM)]
            if not far:
                continue
            n += 1
            ctx.check(not extra, R, b, 'near-pair-decided-by-the-bounding-circle-test-alone:%s' % c.name, '',
                      'a near pair is recorded only if, besides !too_far, %s holds: pairs of overlapping boxes that fail this '
                      'extra geometric test are not subtracted from each other' % [str(k)[:120] for k in extra][:2], c.ln)
    if not inserts or not lookups:
        ctx.note(R, 'the near-pair pre-filter is not the set-of-index-pairs mechanism of the reference tree: clause not '
                 'evaluated (no alarm)')
        return n
    ins_keys = set()
    ins_norm = False
    for b, c, v in inserts:
        ctx.read(b)
        (x0, x1), normd = atoms(v)
        ins_norm = ins_norm or normd
        far_ok = True
        far_seen = []
        for conds in expand_conditions(b, path_conditions(b, c.bb)):
            far = [k for k in conds if k.kind == 'bool' and k.expr.kind == 'call' and k.expr.name.endswith('too_far')]
            far_seen = far or far_seen
            far_ok = far_ok and len(far) >= 1 and all(k.truth is False for k in far)
        n += 1
        ctx.check(far_ok, R, b, 'pair-recorded-iff-not-too-far', repr(far_seen[:1]),
                  'an index pair is recorded %s: near boxes are skipped (their overlap is not subtracted) or far ones '
                  'are subtracted' % ('on the too_far == TRUE side' if far_seen else 'without consulting too_far'), c.ln)
        i0 = elem_key(F, fb, b, x0)[0]
        i1 = elem_key(F, fb, b, x1)[0]
        ins_keys.add((i0, i1))
        if far_seen:
            # the boxes tested are the ones the two indices belong to (index k and box k come from the same iteration)
            a0, a1 = far_seen[0].expr.args[0], far_seen[0].expr.args[1]
            s0, s1 = elem_key(F, fb, b, a0)[0], elem_key(F, fb, b, a1)[0]
            n += 1
            ctx.check(s0 is not None and s1 is not None and s0 != s1 and {s0, s1} == {i0, i1}, R, b,
                      'pair-indices-belong-to-the-tested-boxes', '',
                      'the recorded pair %r does not consist of the indices of the two boxes that were tested '
                      '(%r, %r)' % (v, a0, a1), c.ln)
        # every pair i < j is examined: the inner iteration starts right after the outer index
        lows = [x.args[0] for x in x1.walk() if x.kind == 'agg' and len(x.args) >= 1 and (
            x.name.endswith('RangeFrom::RangeFrom') or x.name.endswith('Range::Range'))]
        if lows:
            n += 1
            want_lo = sorted(linear(x0) + ['1:usize'])
            ctx.check(linear(lows[0]) == want_lo, R, b, 'inner-iteration-starts-after-outer-index',
                      'inner start %r' % lows[0],
                      'the inner iteration over the partner boxes starts at %r (expected outer index + 1 = every '
                      'pair i < j exactly once): some pairs of boxes are never tested and their overlap is not '
                      'subtracted' % lows[0], c.ln)
        # second index = inner counter + start of the inner sub-slice (when the inner loop runs over `boxes[s..]`)
        starts = [x.args[0] for x in x1.walk() if x.kind == 'agg' and x.name.endswith('RangeFrom::RangeFrom') and x.args]
        n += 1
        if starts:
            inner_counter = [y for y in linear(x1) if 'RangeFrom' in y]
            want = sorted(inner_counter[:1] + linear(starts[0]))
            ctx.check(linear(x1) == want, R, b, 'second-index=counter+slice-start', '%s' % linear(x1),
                      'the second index of the recorded pair is %r but the inner loop runs over the sub-slice that '
                      'starts at %r: pairs are attributed to the wrong boxes' % (x1, starts[0]), c.ln)
        else:
            ctx.ok(R, b, 'second-index=counter+slice-start', 'the inner counter is the index itself: %r' % x1)
    # lookups: both orientations (or normalised pairs on both sides, or both orientations recorded)
    look = []
    norm_look = False
    for b, c, v in lookups:
        (x0, x1), normd = atoms(v)
        norm_look = norm_look or normd
        look.append((repr(x0), repr(x1)))
    sym = any((b_, a_) in look for a_, b_ in look if a_ != b_)
    both_inserted = any((b_, a_) in ins_keys for a_, b_ in ins_keys if a_ != b_)
    n += 1
    ctx.check(sym or both_inserted or norm_look, R, lookups[0][0], 'pair-looked-up-in-both-orientations',
              'lookups: %s%s' % (sorted(look), ' (normalised)' if norm_look else ''),
              'a near pair is recorded once as (smaller index, larger index) but looked up in one orientation only '
              '(%s): a box is subtracted from its partner or not depending on the order of the boxes' % sorted(look),
              lookups[0][1].ln)
    # the partner index of the lookup ranges over the WHOLE input slice
    for b, c, v in lookups:
        (x0, x1), _nd = atoms(v)
        ks = [elem_key(F, fb, b, x) for x in (x0, x1)]
        n += 1
        ok = all(k[0] is not None for k in ks) and ks[0][0] != ks[1][0] and all(whole_input(k[1]) for k in ks)
        ctx.check(ok, R, b, 'lookup-over-the-whole-set', repr(v)[:120],
                  'the two indices of the lookup %r do not range over the whole set of boxes (%s)' % (
                      v, [repr(k[1])[:60] for k in ks]), c.ln)
    return n


def flat_terms(e):
    return linear(e)


def share_rule(ctx, R):
    F = ctx.F
    fb = ctx.anchor(R, SHARES)
    if fb is None:
        return 0
    n = 0
    bodies = [fb] + all_closures(F, fb)
    divs = []
    for b in bodies:
        eb = ExprBuilder(b)
        for i in sorted(b.live_blocks()):
            for si, s in enumerate(b.blocks[i]['st']):
                if s['k'] == 'assign' and s['rv']['k'] == 'bin' and s['rv']['op'] == 'Div':
                    divs.append((b, eb._rvalue(s['rv'], (), 0, (i, si)), s['ln']))
    n += 1
    if len(divs) != 1:
        ctx.fail(R, fb, 'share=own/(area+EPS)', 'ANCHOR-MISSING: expected exactly one division in the share '
                 'computation, found %d' % len(divs))
        return n
    b, e, ln = divs[0]
    ctx.read(b)
    num, den = uncast(e.args[0]), uncast(e.args[1])
    num_ok = num.kind == 'call' and num.name.rsplit('::', 1)[-1] == 'unsigned_area'
    terms = den.args if den.kind == 'bin' and den.name == 'Add' else []
    area = [uncast(t) for t in terms if uncast(t).kind == 'call' and uncast(t).name.rsplit('::', 1)[-1] == 'area']
    eps = [t for t in terms if uncast(t).kind == 'const' and 'EPS' in str(uncast(t).const.get('item') or '')]
    ctx.check(num_ok and len(area) == 1 and len(eps) == 1, R, b, 'share=own/(area+EPS)', repr(e)[:140],
              'the share is computed as %r (expected unsigned_area(own region) / (area(box) + EPS): the box\'s own '
              'area is the reference and EPS keeps a zero-area box from yielding NaN)' % e, ln)
    if num_ok and area:
        # own region k is divided by the area of box k: both come from the same position of the two slices — the two
        # components of one element of zip(boxes, regions) (closure or loop form), or the same index on both slices
        kn, chn, _ = elem_key(F, fb, b, num.args[0])
        ka, cha, _ = elem_key(F, fb, b, area[0].args[0])
        n += 1
        paired = False
        detail = '%r / %r' % (num.args[0], area[0].args[0])
        if kn is not None and kn == ka and chn is not None:
            z = [y for y in chn.walk() if y.kind == 'call' and y.name.rsplit('::', 1)[-1] == 'zip' and len(y.args) == 2]
            if z:
                a0, a1 = z[0].args
                r0 = {p_.root for p_ in a0.places()}
                r1 = {p_.root for p_ in a1.places()}
                plain = not any(y.kind == 'call' and y.name.rsplit('::', 1)[-1] in DROPPING + ('filter',)
                                for y in list(a0.walk()) + list(a1.walk()))
                # which component of the zipped pair each side reads
                def comp(x):
                    x = x.strip() if x.kind == 'call' and x.name.rsplit('::', 1)[-1] != 'next' else x
                    pr = [str(q) for q in (x.proj if x.kind == 'call' else x.fields)]
                    pr = [q for q in pr if not q.startswith('as ')]
                    if x.kind == 'call' and pr[:1] == ['0']:
                        pr = pr[1:]          # the payload of Some(..)
                    return pr[:1]
                cn, ca = comp(num.args[0]), comp(area[0].args[0])
                side = {('param', 1): '0', ('param', 2): '1'}
                paired = plain and len(r0) == 1 and len(r1) == 1 and {tuple(r0)[0], tuple(r1)[0]} == {('param', 1), ('param', 2)} \
                    and cn != ca and cn and ca
                if paired:
                    # region side reads the component fed by the regions parameter, area side the boxes parameter
                    order = [side[tuple(r0)[0]], side[tuple(r1)[0]]]      # e.g. ['0', '1']: zip(boxes, regions)
                    paired = order.index('1') == int(cn[0]) and order.index('0') == int(ca[0])
                detail = 'zip(%r, %r): region reads .%s, area reads .%s' % (a0, a1, cn, ca)
        if not paired:
            # index form inside a closure / on captured slices: regions[k] and boxes[k] with one and the same k
            rn_ = subst_upvars(F, b, num.args[0]).strip()
            ra_ = subst_upvars(F, b, area[0].args[0]).strip()
            tn = [str(f) for pl in rn_.places() for f in pl.fields if str(f).startswith('[')]
            ta = [str(f) for pl in ra_.places() for f in pl.fields if str(f).startswith('[')]
            if tn and tn == ta and {pl.root for pl in rn_.places()} == {('param', 2)} and \
                    {pl.root for pl in ra_.places()} == {('param', 1)}:
                paired = True
                detail = 'regions%s / boxes%s' % (tn[0], ta[0])
        if not paired and kn is not None and ka is not None:
            # index form: boxes[k] and own_polygons[k] with one and the same k
            idx_n = [repr(y.args[1]) for y in num.args[0].walk() if y.kind == 'call' and y.name.endswith('index') and len(y.args) > 1]
            idx_a = [repr(y.args[1]) for y in area[0].args[0].walk() if y.kind == 'call' and y.name.endswith('index') and len(y.args) > 1]
            if idx_n and idx_n == idx_a:
                rn = {p_.root for y in num.args[0].walk() if y.kind == 'call' and y.name.endswith('index') for p_ in y.args[0].places()}
                ra = {p_.root for y in area[0].args[0].walk() if y.kind == 'call' and y.name.endswith('index') for p_ in y.args[0].places()}
                paired = rn == {('param', 2)} and ra == {('param', 1)}
                detail = 'regions[%s] / boxes[%s]' % (idx_n[0], idx_a[0])
        ctx.check(paired, R, b, 'region-k-over-area-of-box-k', detail[:160],
                  'the region and the box of one share do not come from the same position of the two inputs (%s): '
                  'shares are attributed to the wrong boxes' % detail, ln)
    # clamp: every value that leaves the function has passed `min(1)`
    n += 1
    clamp = False
    detail = ''
    for cb in bodies:
        ebc = ExprBuilder(cb)
        for c in cb.find_calls():
            if c.name in ('min', 'clamp') and ('f32' in c.callee or 'f64' in c.callee or 'f32' in str(cb.locals[c.dest['l']]) or 'f64' in str(cb.locals[c.dest['l']])):
                args = [ebc.arg(c, i) for i in range(len(c.args))]
                if any(uncast(a).kind == 'const' and str(uncast(a).const.get('v')) in ('1.0', '1') for a in args):
                    clamp = True
                    detail = '%s(%s)' % (c.name, ', '.join(repr(a)[:30] for a in args))
        if cb.kind != 'Closure':
            continue
        # `if e >= 1.0 { 1.0 } else { e }` (>= and > are the same function)
        from lib import result_assignments
        ras = list(result_assignments(cb))
        ones = [r for r in ras if (r[1] == 'const' and str(r[2]) in ('1.0', '1')) or (
            r[1] == 'expr' and uncast(r[2]).kind == 'const' and str(uncast(r[2]).const.get('v')) in ('1.0', '1'))]
        rest = [r for r in ras if r not in ones]
        if ones and rest:
            okc = True
            for bb, _, _ in ones:
                cm = [k.cmp() for k in path_conditions(cb, bb) if k.cmp()]
                o = [orient(x, lambda t: not (uncast(t).kind == 'const')) for x in cm]
                okc = okc and any(x and x[0] in ('Ge', 'Gt') and str(uncast(x[2]).const.get('v')) in ('1.0', '1') for x in o)
            for bb, _, v in rest:
                cm = [k.cmp() for k in path_conditions(cb, bb) if k.cmp()]
                o = [orient(x, lambda t: not (uncast(t).kind == 'const')) for x in cm]
                okc = okc and any(x and x[0] in ('Lt', 'Le') and str(uncast(x[2]).const.get('v')) in ('1.0', '1') and
                                  repr(uncast(x[1]).strip()) == repr(uncast(v).strip()) for x in o)
            if okc:
                clamp = True
                detail = 'if e >= 1 { 1 } else { e } in %s' % cb.npath.rsplit('::', 1)[-1]
    ctx.check(clamp, R, fb, 'share-clamped-to-1', detail,
              'the share is not clamped to 1 (the region area is f64, the box area f32: the quotient can exceed 1 by '
              'rounding; the attribute constructor asserts share <= 1 and the tracker would panic)')
    return n


def wiring_rule(ctx, R):
    F = ctx.F
    n = 0
    for tname, path in (('VisualSort', 'trackers::visual_sort::simple_api::VisualSort::predict_with_scene'),
                        ('BatchVisualSort', 'trackers::visual_sort::batch_api::BatchVisualSort::predict')):
        b = ctx.anchor(R, path)
        if b is None:
            continue
        eb = ExprBuilder(b)
        ar = b.find_calls(AREAS)
        sh = b.find_calls(SHARES)
        n += 1
        if len(ar) != 1 or len(sh) != 1:
            ctx.fail(R, b, tname + ':shares=f(boxes, regions(boxes))', 'ANCHOR-MISSING: %d region and %d share '
                     'computations in predict' % (len(ar), len(sh)))
            continue
        boxes_r = eb.arg(ar[0], 0)
        boxes_s = eb.arg(sh[0], 0)
        regs = eb.arg(sh[0], 1)
        same = repr(boxes_r.strip()) == repr(boxes_s.strip()) and any(
            y.kind == 'call' and y.extra is ar[0] for y in regs.walk())
        ctx.check(same, R, b, tname + ':shares=f(boxes, regions(boxes))', repr(boxes_s)[:100],
                  'regions and shares are not computed from one and the same list of boxes (%r vs %r, regions %r)' % (
                      boxes_r, boxes_s, regs), sh[0].ln)
        # the list holds the box of every observation of the scene, in order
        coll = [y for y in boxes_s.walk() if y.kind == 'call' and y.name.rsplit('::', 1)[-1] in ('collect', 'collect_vec')]
        n += 1
        okb = False
        detail = repr(boxes_s)[:120]
        if coll:
            chain = coll[0].args[0]
            dropping = [y.name.rsplit('::', 1)[-1] for y in chain.walk() if y.kind == 'call' and
                        y.name.rsplit('::', 1)[-1] in ('filter', 'filter_map', 'skip', 'take', 'rev', 'step_by',
                                                       'skip_while', 'take_while', 'flat_map', 'chain', 'dedup')]
            maps = [y for y in chain.walk() if y.kind == 'call' and y.name.rsplit('::', 1)[-1] == 'map' and
                    hasattr(y.extra, 'args')]
            picks = False
            for m in maps:
                for cb in closure_args_of_call(F, b, m.extra):
                    r = ExprBuilder(cb).place(0, ()).strip()
                    if r.kind == 'place' and r.fields[-1:] == ('bounding_box',):
                        picks = True
            okb = picks and not dropping
            detail = 'map(bounding_box) %s' % (dropping or '')
        if not okb and not coll:
            # loop form: a vector filled with exactly one `push(&o.bounding_box)` per observation
            from lib import count_per_iteration
            base = boxes_s.strip()
            while base.kind == 'call' and base.name.rsplit('::', 1)[-1] in ('deref', 'as_ref', 'as_slice', 'borrow') \
                    and base.args:
                base = base.args[0].strip()
            pushes = [c for c in b.find_calls('std::vec::Vec::push') if base.kind == 'call' and any(
                y.kind == 'call' and y.extra is base.extra for y in eb.arg(c, 0).walk())]
            if len(pushes) == 1:
                pc = pushes[0]
                v = eb.arg(pc, 1).strip()
                hs = [h for h, blks in b.loops().items() if pc.bb in blks]
                once = bool(hs) and count_per_iteration(b, min(hs, key=lambda h: len(b.loops()[h])), [pc.bb]) == (1, 1)
                k_, chain_, _r = elem_key(F, b, b, v)
                plain = chain_ is not None and not any(y.kind == 'call' and y.name.rsplit('::', 1)[-1] in DROPPING + (
                    'filter',) for y in chain_.walk())
                lastf = tuple(v.fields[-1:]) if v.kind == 'place' else tuple(str(q) for q in v.proj[-1:])
                okb = once and plain and lastf == ('bounding_box',)
                detail = 'push(%r) once per element of %r' % (v, chain_)
        ctx.check(okb, R, b, tname + ':boxes=every-observation-box-in-order', detail,
                  'the list of boxes handed to the own-area computation is not the bounding box of every observation '
                  'of the scene, in order (%s)' % detail, sh[0].ln)
        # share[i] goes to observation i
        for cb in [b] + all_closures(F, b):
            ebc = ExprBuilder(cb)
            for c in cb.find_calls():
                if c.name != 'with_own_area_percentage':
                    continue
                n += 1
                share = subst_upvars(F, cb, ebc.arg(c, 2))
                bbox = ebc.arg(c, 1).strip()
                idx = [y for y in share.walk() if y.kind == 'call' and y.name.rsplit('::', 1)[-1] == 'index' and len(y.args) > 1]
                from_shares = any(y.kind == 'call' and y.extra is sh[0] for y in share.walk())
                oki = False
                detail = '%r' % share
                if idx and from_shares:
                    i_e = idx[0].args[1].strip()
                    # the index and the observation are the two components of one enumerate() element
                    ip = i_e if i_e.kind == 'place' else None
                    bp = bbox if bbox.kind == 'place' else None
                    if ip is not None and bp is not None and ip.root == bp.root and ip.root[0] == 'param':
                        oki = ip.fields[:1] == ('0',) and bp.fields[:1] == ('1',) and bp.fields[-1:] == ('bounding_box',)
                    elif ip is not None and bp is not None:
                        oki = element_source(i_e) is not None and element_source(i_e) == element_source(bbox)
                ctx.check(oki, R, cb, tname + ':share[i]->observation[i]', detail[:120],
                          'the share handed to an observation is %r while its box is %r: shares are not matched with '
                          'the observation they were computed for' % (share, bbox), c.ln)
    return n


def run(ctx):
    ctx.rule('R15.1', 'own region = polygon(own box) minus polygons of OTHER boxes of the set, by difference only')
    ctx.floor('R15.1', subtraction_rule(ctx, 'R15.1'), 4)
    ctx.rule('R15.2', 'near-pair pre-filter: recorded iff not too_far, indices of the tested boxes, looked up in both '
             'orientations over the whole set (evaluated when the mechanism is the set of index pairs)')
    pair_filter_rule(ctx, 'R15.2')
    ctx.rule('R15.3', 'share = unsigned_area(region k) / (area(box k) + EPS), clamped to 1')
    ctx.floor('R15.3', share_rule(ctx, 'R15.3'), 3)
    ctx.rule('R15.4', 'pre-filter wiring: both centres, sum of both radii; radius from both half extents (shared with C08)')
    n = C20.r4(ctx, 'R15.4', ('too_far',))
    n += C08.radius_rule(ctx, 'R15.4')
    ctx.floor('R15.4', n, 4)
    import misclib
    ctx.rule('R15.7', 'the library epsilon in the share denominator is the public constant EPS = 1e-5')
    ctx.floor('R15.7', misclib.rule_library_epsilon(ctx, 'R15.7'), 1)
    import geomlib
    ctx.rule('R15.6', 'the polygon a box contributes (minuend and subtrahend) is its rectangle rotated by +angle about its '
                      'centre, and area() in the share denominator is that rectangle\'s area (exact formulas, shared with C08 / C19)')
    ctx.evaluated('R15.6', geomlib.polygon_rule(ctx, 'R15.6') + geomlib.measures_rule(ctx, 'R15.6'), 3)
    ctx.rule('R15.5', 'VisualSORT wiring: one list of all observation boxes of the scene feeds regions and shares; '
             'share[i] goes to observation i')
    ctx.floor('R15.5', wiring_rule(ctx, 'R15.5'), 6)
