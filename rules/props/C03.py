"""C03 — track lifecycle: conservation, exact expiry, wasted once, GC timing unobservable (local steps)."""
import trackerlib as T

EXPLANATION = (
    "Lifecycle steps decided on MIR: (R03.1) the TrackerAPI defaults consult the documented store (active stats -> "
    "live store, wasted stats / clear / wasted() -> wasted store, auto_waste moves live -> wasted) and the four "
    "trackers map the accessors to self.store / self.wasted_store; (R03.2) the expiry predicate `last_updated + "
    "max_idle < current epoch of the scene` (strict) and the continuation predicate `max_idle >= |epoch gap|` are "
    "present with these operands and are complementary; (R03.3) next_epoch adds exactly 1 / inserts 1, skip adds n / "
    "inserts n, all keyed by the scene parameter, and every predict advances its scene exactly once on every path "
    "(batch: once per scene of the batch) and hands that epoch to the attribute update; (R03.4) observers of expiry "
    "(wasted, skip, idle listings, clear_wasted) do not depend on when the periodic collection ran; (R03.5) fetched "
    "tracks are never destroyed on a normal path (linear use) and are moved/returned; (R03.6) optimize() calls "
    "update_history exactly once per detection and track_length += 1 exactly once; (R03.7) only ids whose status is "
    "Ok(Wasted) are fetched by the collection and by wasted()."
    ' (R03.12) a batch keeps one entry per scene id and the per-scene epoch map only grows (no removal / eviction); R03.2 also judges the overflow-safe spelling `current.saturating_sub(last_updated) > max_idle` (accepted) against `saturating_sub(last_updated + 1) >= max_idle` (differs for max_idle = 0).')
EXPLANATION += ' Round 6: auto_waste reaches the collection on every path (R03.5); the candidate pipeline loses no detection (R03.13, rule of C01); only next_epoch / skip_epochs_for_scene write the epoch store and baked reads it for its own scene only (R03.12).'
NOT_DECIDED = ["whole-history conservation as an input-output statement", "user code mutating the stores directly",
               "concrete epochs/lengths for concrete histories"]
ASSUMPTIONS = ["no code outside the analysed crate mutates the tracker's stores", "panics out of scope",
               "rustc nightly MIR construction"]


def run(ctx):
    _ownership(ctx)
    _wiring(ctx)
    ctx.rule('R03.1', 'store-accessor wiring of TrackerAPI defaults and of the four impls')
    ctx.floor('R03.1', T.rule_accessor_wiring(ctx, 'R03.1'), 28)
    ctx.rule('R03.2', 'expiry predicate (strict) and continuation predicate (non-strict, absolute gap) are complementary')
    n = T.rule_expiry(ctx, 'R03.2')
    n += T.rule_compatible(ctx, 'R03.2s', 'R03.2', 'R03.2v')
    ctx.rule('R03.2s', '(shared with C04) compatible requires the same scene')
    ctx.rule('R03.2v', '(shared with C20) compatible requires validate(gap, dist)')
    ctx.floor('R03.2', n, 10)
    ctx.rule('R03.3', 'epoch arithmetic keyed by scene; each predict advances its scene exactly once')
    n = T.rule_epoch_arithmetic(ctx, 'R03.3')
    n += T.rule_predict_epoch(ctx, 'R03.3')
    ctx.floor('R03.3', n, 17)
    ctx.rule('R03.4', 'observers of expiry are independent of the periodic collection')
    ctx.floor('R03.4', T.rule_observers(ctx, 'R03.4'), 12)
    ctx.rule('R03.5', 'conservation on the waste path (linear use of fetched tracks)')
    ctx.floor('R03.5', T.rule_conservation(ctx, 'R03.5'), 6)
    ctx.rule('R03.6', 'update_history once per detection; track_length += 1')
    ctx.floor('R03.6', T.rule_length_step(ctx, 'R03.6'), 4)
    # every submitted detection becomes a candidate and a record (clause R01.1 of C01): nothing filters detections out
    # between the request and the candidate tracks
    from props import C01
    C01.r1(ctx, 'R03.13')
    ctx.rule('R03.12', 'the epoch advances once per predict call and scene: a batch keeps one entry per scene id (entries '
                       'selected by id), and an epoch once counted is never forgotten (no removal from the epoch map)')
    n = T.rule_batch_request(ctx, 'R03.12')
    n += T.rule_epochs_never_forgotten(ctx, 'R03.12')
    n += T.rule_epoch_writers(ctx, 'R03.12')
    n += T.rule_status_reads_own_scene(ctx, 'R03.12')
    ctx.floor('R03.12', n, 3)
    ctx.rule('R03.7', 'only Ok(Wasted) ids are fetched')
    ctx.floor('R03.7', T.rule_only_expired_migrate(ctx, 'R03.7'), 2)
    import metriclib
    ctx.rule('R03.10', 'records of handed-out (wasted) tracks copy id / epoch / scene / length / boxes from the track')
    ctx.floor('R03.10', metriclib.rule_wasted_conversions(ctx, 'R03.10'), 17)
    ctx.rule('R03.8', 'idle lookup: same scene, not updated in the current epoch of its own scene')
    ctx.floor('R03.8', T.rule_idle_lookup(ctx, 'R03.8'), 4)


def _wiring(ctx):
    """name-agreement wiring of the configuration values this property depends on (rules/wiring.py)"""
    import wiring
    ctx.rule('R03.9', 'configuration plumbing: same-named fields / parameters / setters / call arguments are not crossed')
    ctx.floor('R03.9', wiring.run(ctx, 'R03.9', {'max_idle_epochs', 'history_length', 'epoch_db', 'scene_id', 'epoch'}), 37)


def _ownership(ctx):
    """who-may-write rows of rules/ownership.py that concern this property"""
    import ownership
    ctx.rule('R03.11', 'who-may-write: state this property depends on is changed only by its owners (rules/ownership.py)')
    ctx.floor('R03.11', ownership.run(ctx, 'R03.11', 'C03'), 4)
