"""C02 — positional association is gated and a maximum-weight one-to-one assignment."""
import metriclib as M
import storelib as S
import trackerlib as T
import votinglib as V
from props import C07

EXPLANATION = (
    "Gates and assignment plumbing decided on MIR: (R02.1) IoU gate `iou * conf >= threshold` with conf raised to the "
    "configured minimum, in both positional metrics; Mahalanobis gate `distance > CHI2INV95[DIM-1]` identical in the "
    "direct and inverted branch; own column of the assignment matrix = threshold on the diagonal; (R02.2) "
    "SortVoting::winners makes exactly one call of pathfinding's maximising kuhn_munkres and returns pairs derived "
    "from its solution; (R02.3) threshold and pair weights share one scale constant; (R02.4) the metric is reachable "
    "only through Track::distances on the compatible()==true side and compatible() requires same scene, idle bound "
    "and validate(); (R02.5) the Mahalanobis weight is the inverted cost of the filter distance divided by conf; "
    "(R02.6) optimize() keeps exactly the newest filter estimate as the track's comparison box and make_prediction "
    "stores update(predict(state)); (R02.7) weights only on the too_far()==false side; (R02.8) the new-track weight "
    "handed to the assignment is the configured threshold in all four trackers. "
    "R02.6 includes the make_prediction sequencing clauses of C07 (the box kept for the next association is converted from the UPDATED state); (R02.11) the batch trackers release the batch monitor only after the scene result was sent, i.e. after the store updates of the batch, so the next batch computes distances against current tracks."
    ' (R02.12) the quantity the IoU gate compares is the IoU of C08 (intersection = area of the clip of the two box polygons unless too_far, IoU = I / (A_l + A_r - I)) and the bounding-circle reach of the Mahalanobis mode compares the centre distance with the sum of both bounding radii.'
    ' (R02.13) the squared Mahalanobis distance the gate compares is the textbook one (R07.11 normal form, no in-place rewrite of a residual component), computed by a filter built from the weights of the track it is measured for; (R02.14) the assignment is sized by len() of every shard read under a blocking lock and predict advances the scene epoch exactly once before candidates are compared; (R02.15) assignment weights are 64-bit fixed point.')
EXPLANATION += ' Round 6: metric() answers None (no record for a pair) only on the too_far side; the IoU is absent exactly when the intersection is 0 (R02.12, shared with C08); fixed-point weights are not saturated (R02.15); Track::distances reports a missing class by the map lookup alone (R02.4).'
NOT_DECIDED = ["optimality of the assignment (trusted: pathfinding::kuhn_munkres)", "IoU / Kalman numerics",
               "uniqueness margins / ties"]
ASSUMPTIONS = ["pathfinding::kuhn_munkres returns a maximum-weight perfect matching of the rows",
               "rustc nightly MIR construction"]


def run(ctx):
    _wiring(ctx)
    ctx.rule('R02.1', 'gate polarity: IoU*conf >= threshold; conf floor; Mahalanobis gate index/strictness; own column')
    n = M.rule_positional(ctx, 'R02.1')
    n += C07.gate_rule(ctx, 'R02.1')
    ctx.floor('R02.1', n, 30)
    ctx.rule('R02.2', 'assignment = pathfinding maximising kuhn_munkres, once, winners from its solution')
    ctx.floor('R02.2', V.rule_hungarian(ctx, 'R02.2'), 3)
    ctx.rule('R02.3', 'own column = threshold on the diagonal; one scale for threshold and weights; positive-id filter')
    ctx.floor('R02.3', V.rule_hungarian_matrix(ctx, 'R02.3'), 3)
    ctx.rule('R02.4', 'metric only through Track::distances on the compatible side; compatible = scene & idle & validate')
    n = S.rule_track_distances(ctx, 'R02.4')
    n += T.rule_compatible(ctx, 'R02.4', 'R02.4', 'R02.4')
    ctx.floor('R02.4', n, 13)
    ctx.rule('R02.6', 'kept comparison box = filter estimate; single newest estimate; make_prediction stores the state')
    n6 = M.rule_estimate_kept(ctx, 'R02.6')
    n6 += C07.sequence_rule(ctx, 'R02.6')
    ctx.floor('R02.6', n6, 14)
    ctx.rule('R02.11', 'batch trackers: a batch releases the monitor only after its store updates (next batch sees current tracks)')
    from props import C06
    ctx.floor('R02.11', C06.protocol(ctx, 'R02.11'), 10)
    ctx.rule('R02.10', 'the assignment sees every gated pair: complete distance stream (exactly-once responses, consumers)')
    n = S.rule_exactly_once_responses(ctx, 'R02.10')
    n += S.rule_fanout(ctx, 'R02.10')
    n += S.rule_consumers(ctx, 'R02.10')
    ctx.floor('R02.10', n, 25)
    ctx.rule('R02.8', 'new-track weight = configured threshold in all four trackers')
    ctx.floor('R02.8', M.rule_voting_threshold(ctx, 'R02.8'), 6)
    # the IoU the gate compares and the bounding-circle reach of the Mahalanobis mode (clauses of C08, run here because
    # the gate of C02 is stated in terms of them)
    from props import C08
    import props.C20 as C20
    import geomlib
    ctx.rule('R02.12', 'the gated quantity is the real IoU: intersection = area of clip(l, r) unless too_far, IoU = I/(A_l+A_r-I); '
                       'reach = centre distance against the sum of both bounding radii')
    n = C08.intersection_rule(ctx, 'R02.12')
    n += C20.r4(ctx, 'R02.12', ('too_far',))
    n += C08.radius_rule(ctx, 'R02.12')
    n += geomlib.iou_rule(ctx, 'R02.12')
    # ... and it is absent exactly when the intersection is 0 (an area tolerance turns small overlapping boxes into
    # non-overlapping ones: no weight, no gate)
    n += sum(C08.iou_rules(ctx, 'R02.12', 'R02.12', kinds=('universal',)))
    ctx.floor('R02.12', n, 16)
    import misclib
    ctx.rule('R02.15', 'assignment weights are 64-bit fixed point')
    ctx.floor('R02.15', misclib.rule_weights_fit(ctx, 'R02.15'), 2)
    from props import C09
    ctx.rule('R02.14', 'the assignment is sized by the real number of stored tracks and judges expiry on the epoch of this '
                       'call: shard_stats reports len() of every shard under a blocking lock; predict advances the scene '
                       'epoch exactly once before candidates are compared')
    C09.r8(ctx, 'R02.14')
    n = T.rule_predict_epoch(ctx, 'R02.14')
    ctx.floor('R02.14', n, 4)
    ctx.rule('R02.13', 'the squared Mahalanobis distance the gate compares is the textbook one: distance() of the box filter in '
                       'normal form, no component of the residual rewritten in place (clauses R07.11 / R07.12 of C07)')
    n = C07.recurrence_rule(ctx, 'R02.13') + C07.no_element_patch_rule(ctx, 'R02.13')
    ctx.floor('R02.13', n, 20)


def _wiring(ctx):
    """name-agreement wiring of the configuration values this property depends on (rules/wiring.py)"""
    import wiring
    ctx.rule('R02.9', 'configuration plumbing: same-named fields / parameters / setters / call arguments are not crossed')
    ctx.floor('R02.9', wiring.run(ctx, 'R02.9', {'method', 'min_confidence', 'positional_kind', 'positional_min_confidence', 'positional_threshold', 'position_weight', 'velocity_weight', 'max_idle_epochs', 'history_length'}), 19)
