"""C14 — non-maximum suppression (order / strictness / denominator / id discipline; subset by lifetime)."""
import votinglib as V
from mir import norm
from lib import (ExprBuilder, all_closures, as_cmp, closure_args_of_call, eval_bool_paths, orient, path_conditions,
                 result_assignments, upvar_expr)

EXPLANATION = (
    "Structural clauses of NMS decided on MIR: (R14.1) candidates are ordered by decreasing rank, rank = score or the "
    "box height; (R14.2) suppression is strict `covered fraction > nms_threshold`, the score filter is `score > "
    "score_threshold` with a missing score always passing, invalid boxes (height/aspect <= 0) are dropped, and the "
    "score filter is applied to the score, before ranking, and a missing score threshold defaults to the least f32 (it "
    "filters nothing); (R14.3) the covered fraction is intersection(outer, inner) "
    "divided by the area of the inner (lower-ranked) box, the inner loop ranges over the suffix after the outer "
    "position, excluded boxes are identified by their candidate id everywhere (skip of the outer box, skip of the "
    "inner box, insertion, final filter), and an excluded outer box is skipped before it can suppress; (R14.4) the "
    "result is the `bbox` reference of the surviving candidates (subset of the input; lifetime witness in the thorough "
    "tier); (R14.5) cloning a box never carries its vertex cache (intersection relies on recomputing the polygon from "
    "the current fields). "
    "(R14.7) the covered fraction rests on the intersection clauses shared with C08 (pre-filter wiring with both radii, clip of polygons of both boxes, fresh clones)."
    ' R14.1 also requires that nothing but option plumbing touches the rank (no clamp / arithmetic on the score).'
    ' R14.1 also requires a stable ranking sort (ties in input order: top of a tie kept, nms(nms(x)) = nms(x)); (R14.8) the clipping predicate behind the covered fraction is a sign test.')
EXPLANATION += ' R14.3 also requires the covered fraction to be exactly intersection / area (no added epsilon, no factor).'
NOT_DECIDED = ["maximality / independence / idempotence for concrete geometry", "exactness of the intersection area (C08, N/A)"]
ASSUMPTIONS = ["itertools::sorted_by is a stable sort by the comparator", "rustc nightly MIR construction"]
NMS = 'utils::nms::nms'


def run(ctx):
    _ownership(ctx)
    from props import C20, C08
    ctx.rule('R14.7', 'the covered fraction rests on a sound intersection: pre-filter wiring, clip of both boxes (shared with C08)')
    n7 = C20.r4(ctx, 'R14.7', ('too_far',))
    n7 += C08.radius_rule(ctx, 'R14.7')
    n7 += C08.intersection_rule(ctx, 'R14.7')
    ctx.floor('R14.7', n7, 12)
    F = ctx.F
    b = ctx.anchor('R14.1', NMS)
    if b is None:
        return
    eb = ExprBuilder(b)
    closures = all_closures(F, b)
    # ---------------- R14.1
    R = 'R14.1'
    ctx.rule(R, 'sorted by decreasing rank; rank = score.unwrap_or(bbox.height)')
    n = 0
    sorts = [c for c in b.find_calls() if c.name in ('sorted_by', 'sort_by', 'sorted_unstable_by', 'sort_unstable_by',
                                                     'sorted_by_key', 'sort_by_key', 'sorted_by_cached_key')]
    n += 1
    ctx.check(len(sorts) == 1, R, b, 'single-sort', [c.name for c in sorts], 'expected one sort of the candidates, found %s' % [c.name for c in sorts])
    for c in sorts:
        d, f = V.sort_semantics(F, b, c)
        n += 1
        ctx.check(d == 'desc' and f == 'rank', R, b, 'descending-rank', '%s on %s' % (d, f),
                  'candidates are ordered %s by `%s` (expected decreasing rank: the top-ranked box must be '
                  'processed first and can never be suppressed)' % (d, f), c.ln)
    cn = ctx.F.one('utils::nms::Candidate::new')
    if cn is None:
        # the constructor was inlined at its call site: the candidate is built in nms() (or a closure of it)
        inl = False
        for hb in [b] + all_closures(F, b):
            ehb = ExprBuilder(hb)
            for i_ in sorted(hb.live_blocks()):
                for si_, s_ in enumerate(hb.blocks[i_]['st']):
                    rv_ = s_.get('rv') or {}
                    if s_['k'] == 'assign' and rv_.get('k') == 'agg' and rv_.get('ak') == 'adt' and \
                            norm(rv_.get('adt', '')) == 'utils::nms::Candidate':
                        e = ehb._rvalue(rv_, (), 0, (i_, si_))
                        m = dict(zip(e.extra['fields'], e.args))
                        rk = m.get('rank')
                        inl = True
                        n += 1
                        ok = False
                        if rk is not None and m.get('bbox') is not None:
                            bx = m['bbox'].strip()
                            pls = rk.places()
                            height_pl = [p_ for p_ in pls if p_.fields[-1:] == ('height',)]
                            score_pl = [p_ for p_ in pls if p_ not in height_pl]
                            arith = [x for x in rk.walk() if x.kind in ('bin', 'un')]
                            same_box = bool(height_pl) and bx.kind == 'place' and all(
                                p_.root == bx.root and tuple(p_.fields[:len(bx.fields)]) == tuple(bx.fields)
                                for p_ in height_pl)
                            ok = bool(score_pl) and same_box and not arith and \
                                len({(p_.root, tuple(p_.fields)) for p_ in score_pl}) == 1
                        ctx.check(ok, R, hb, 'rank=score-or-height', repr(rk),
                                  'rank is %r (expected score.unwrap_or(bbox.height) of the same detection)' % rk, s_['ln'])
                        n += 1
                        okb = m.get('bbox') is not None and m.get('index') is not None and \
                            m['bbox'].strip().kind == 'place' and not [x for x in m['index'].walk() if x.kind == 'bin']
                        ctx.check(okb, R, hb, 'candidate-keeps-its-box-and-id', '',
                                  'the candidate does not keep (bbox, index) of its detection', s_['ln'])
        if not inl:
            ctx.fail(R, b, 'rank=score-or-height', 'ANCHOR-MISSING: no Candidate is built (neither Candidate::new nor '
                     'a struct literal in nms)')
    if cn is not None:
        ctx.read(cn)
        e = ExprBuilder(cn).place(0, ())
        m = dict(zip(e.extra['fields'], e.args)) if e.kind == 'agg' else {}
        rk = m.get('rank')
        n += 1
        # score when present, else the box height: `unwrap_or`, `match`, `if let`, `map_or` ... all reduce to
        # "reads exactly the score parameter and bbox.height"
        ok = False
        if rk is not None:
            pls = [p for p in rk.places() if p.root[0] == 'param']
            score_pl = [p for p in pls if p.root == ('param', 2)]
            height_pl = [p for p in pls if p.root == ('param', 1) and p.fields[-1:] == ('height',)]
            other = [p for p in pls if p not in score_pl and p not in height_pl]
            arith = [x for x in rk.walk() if x.kind in ('bin', 'un', 'const', 'cast')]
            # besides the option plumbing nothing transforms the rank (clamping negative scores to 0 makes them tie)
            plumbing = ('unwrap_or', 'unwrap_or_else', 'map_or', 'map_or_else', 'copied', 'cloned', 'clone', 'deref',
                        'unwrap', 'as_ref', 'unwrap_or_default')
            calls = [x.name.rsplit('::', 1)[-1] for x in rk.walk() if x.kind == 'call' and
                     x.name.rsplit('::', 1)[-1] not in plumbing]
            ok = bool(score_pl) and bool(height_pl) and not other and not arith and not calls
        ctx.check(ok, R, cn, 'rank=score-or-height', repr(rk), 'rank is %r (expected score.unwrap_or(bbox.height))' % rk)
        n += 1
        okb = m.get('bbox') is not None and m['bbox'].strip().root == ('param', 1) and (
            m.get('index') is None or m['index'].strip().root == ('param', 3))
        ctx.check(okb, R, cn, 'candidate-keeps-its-box-and-id', '', 'Candidate::new does not keep (bbox, index) of its arguments')
    ctx.floor(R, n, 4)
    # the ranking sort is STABLE: with equal ranks an unstable sort may put a lower box of a tie first (the top-ranked box
    # of the tie is then suppressed) and a second pass over the output can reorder and drop again (not a fixed point)
    uns = [c.name for hb_ in [b] + closures for c in hb_.find_calls() if 'unstable' in c.name and 'sort' in c.name]
    ctx.check(not uns, 'R14.1', b, 'ranking-sort-is-stable', '', 'nms ranks its candidates with %s: equal ranks are not kept '
              'in input order, so ties are broken arbitrarily and nms(nms(x)) can differ from nms(x)' % uns)
    # ---------------- R14.2
    R = 'R14.2'
    ctx.rule(R, 'strict suppression; score filter on the score (missing score passes); validity filter; before ranking')
    n = 0
    # suppression comparison
    sup = []
    for i in sorted(b.live_blocks()):
        for c in path_conditions(b, i):
            pass
    ins = b.find_calls('std::collections::HashSet::insert')
    for c in ins:
        conds = path_conditions(b, c.bb)
        found = False
        for k in conds:
            cm = k.cmp()
            o = orient(cm, lambda e: not (e.strip().kind == 'place' and e.strip().root == ('param', 2))) if cm else None
            if o and o[2].strip().kind == 'place' and o[2].strip().root == ('param', 2):
                found = True
                n += 1
                ctx.check(o[0] == 'Gt', R, b, 'suppress-iff-fraction>threshold', '%r %s nms_threshold' % (o[1], o[0]),
                          'a box is suppressed when `covered fraction %s nms_threshold` (expected strictly greater)' % o[0],
                          k.ln)
                frac = o[1]
                sup.append(frac)
        if not found:
            n += 1
            ctx.fail(R, b, 'suppress-iff-fraction>threshold', 'insertion into the excluded set is not guarded by a '
                     'comparison with nms_threshold', c.ln)
    # chain form of the suppression pass: `let s = v[i + 1..].iter().filter(|ob| !excluded.contains(&ob.index))
    # .filter(|ob| share(cb, ob) > threshold).map(|ob| ob.index).collect(); excluded.extend(s)` - the same clauses read
    # from the closures of the chain (the element of the chain is the inner, lower-ranked box)
    chain_form = []
    if not ins:
        from lib import subst_upvars as _su
        for c in b.find_calls('extend'):
            if not c.args or c.args[0].get('k') not in ('copy', 'move') or 'HashSet' not in str(b.locals[c.args[0]['pl']['l']]):
                continue
            src = eb.arg(c, 1)
            spine = []
            x = src
            while x is not None and x.kind == 'call' and len(spine) < 30:
                spine.append(x)
                x = x.args[0] if x.args else None
            base_inner = any(y.kind == 'call' and y.name.rsplit('::', 1)[-1] == 'index' and 'RangeFrom' in repr(y) for y in spine)
            if not base_inner:
                continue
            info = {'call': c, 'gate': None, 'frac': None, 'contains': [], 'ids': []}
            for y in spine:
                leaf = y.name.rsplit('::', 1)[-1]
                if leaf == 'index' and 'RangeFrom' in repr(y.args[1] if len(y.args) > 1 else ''):
                    break       # below the suffix: the construction of the candidate list (ranked elsewhere)
                if leaf not in ('filter', 'map', 'filter_map') or not hasattr(y.extra, 'args'):
                    continue
                for cb_ in closure_args_of_call(F, b, y.extra):
                    ctx.read(cb_)
                    r_ = _su(F, cb_, ExprBuilder(cb_).place(0, ()))
                    if leaf == 'map':
                        info['ids'].append(r_)
                        continue
                    neg = False
                    t_ = r_
                    while t_.kind == 'un' and t_.name == 'Not':
                        t_ = t_.args[0]
                        neg = not neg
                    if t_.kind == 'call' and t_.name.rsplit('::', 1)[-1] == 'contains':
                        info['contains'].append((neg, t_))
                        continue
                    cm_ = as_cmp(r_, True)
                    o_ = orient(cm_, lambda e: not (e.strip().kind == 'place' and e.strip().root == ('param', 2))) if cm_ else None
                    if o_ and o_[2].strip().kind == 'place' and o_[2].strip().root == ('param', 2):
                        info['gate'] = o_[0]
                        info['frac'] = o_[1]
            if info['gate'] is not None:
                chain_form.append(info)
        for info in chain_form:
            n += 1
            ctx.check(info['gate'] == 'Gt', R, b, 'suppress-iff-fraction>threshold', 'chain form: fraction %s nms_threshold' % info['gate'],
                      'a box is suppressed when `covered fraction %s nms_threshold` (expected strictly greater)' % info['gate'],
                      info['call'].ln)
    # score / validity filter: the closure of the first `filter` over detections
    from lib import necessary_keep_facts
    flt = [c for c in b.find_calls('std::iter::Iterator::filter', 'std::iter::Iterator::filter_map')
           if eb.arg(c, 0).has_place(root=('param', 1)) and not any(
               eb.arg(c, 0).has_call(x) for x in ('sorted_by', 'sort_by', 'map', 'sorted_by_key', 'enumerate'))]
    n += 1
    ctx.check(len(flt) == 1, R, b, 'score-filter-before-ranking', '', 'the score / validity filter is not applied '
              'directly to the input detections before candidates are ranked (%d such filters)' % len(flt))
    thr_exprs = []
    for c in flt:
        for cb in closure_args_of_call(F, b, c):
            ctx.read(cb)
            kf, _pay = necessary_keep_facts(cb)
            facts = [v for v in kf.values() if v[0] not in ('bool', 'discr')]
            score_ok = h_ok = a_ok = False
            for cm in facts:
                o = orient(cm, lambda e: e.has_call('unwrap_or'))
                if o and o[0] == 'Gt':
                    l, r = o[1], o[2]
                    uo = l.calls('unwrap_or')[0]
                    dflt = uo.args[1]
                    thr = r.strip()
                    thr_ok = False
                    if thr.kind == 'place' and thr.root[0] == 'upvar':
                        pb, pe = upvar_expr(F, cb, thr.root[1])
                        thr_ok = pe is not None and pe.has_place(root=('param', 3))
                        thr_exprs.append(pe)
                    score_ok = thr_ok and dflt.kind == 'const' and 'MAX' in (dflt.const.get('item') or repr(dflt)) and \
                        uo.args[0].strip().fields[-1:] == ('1',)
                for fld in ('height', 'aspect'):
                    o = orient(cm, lambda e: e.strip().kind == 'place' and e.strip().fields[-1:] == (fld,))
                    if o and o[0] == 'Gt' and o[2].kind == 'const' and o[2].const_value() in ('0.0', '0'):
                        if fld == 'height':
                            h_ok = True
                        else:
                            a_ok = True
            n += 3
            ctx.check(score_ok, R, cb, 'kept-iff-score>threshold(missing-score-passes)', '',
                      'the score filter is not `score.unwrap_or(f32::MAX) > score_threshold` on the detection score '
                      '(found %s): boxes that passed the score filter can be dropped, or vice versa' % [
                          '%r %s %r' % (c_[1], c_[0], c_[2]) for c_ in facts])
            ctx.check(h_ok, R, cb, 'valid-height', '', 'boxes with height <= 0 are not filtered out')
            ctx.check(a_ok, R, cb, 'valid-aspect', '', 'boxes with aspect <= 0 are not filtered out')
    # score threshold default: with `None` nothing is filtered by score => the default is the least f32 (or -inf)
    for pe in thr_exprs:
        e = pe.strip() if pe.kind != 'call' else pe
        while e.kind == 'call' and e.name.rsplit('::', 1)[-1] in ('clone', 'deref') and e.args:
            e = e.args[0]
        okd = False
        detail = repr(e)
        if e.kind == 'call' and e.name.rsplit('::', 1)[-1] == 'unwrap_or' and len(e.args) == 2:
            d = e.args[1]
            item = (d.const.get('item') or '') if d.kind == 'const' else ''
            val = d.const_value() if d.kind == 'const' else None
            okd = d.kind == 'const' and (item.endswith('::MIN') or item.endswith('NEG_INFINITY') or
                                         str(val) in ('-inf', '-3.40282347E+38', '-3.4028235e38', '-3.40282347e38'))
            detail = 'unwrap_or(%r)' % d
        n += 1
        ctx.check(okd, R, b, 'no-score-threshold-filters-nothing', detail,
                  'without a score threshold the filter compares scores with %s (expected the least f32: f32::MIN / '
                  '-inf): boxes with scores at or below that default are dropped although no threshold was given'
                  % detail)
    ctx.floor(R, n, 5)
    # ---------------- R14.3
    R = 'R14.3'
    ctx.rule(R, 'fraction = intersection(outer, inner) / area(inner); inner loop over the suffix; ids everywhere')
    n = 0
    for frac in sup:
        f = frac.strip() if frac.kind == 'cast' else frac
        divs = [x for x in frac.walk() if x.kind == 'bin' and x.name == 'Div']
        n += 1
        if not divs:
            ctx.fail(R, b, 'fraction', 'the suppression metric %r is not a ratio' % frac)
            continue
        num, den = divs[0].args
        inter = num.calls('intersection')
        area = den.calls('area')
        ok = bool(inter) and bool(area)
        detail = '%r / %r' % (num, den)
        if ok:
            o_, i_ = inter[0].args[0], inter[0].args[1]
            a_ = area[0].args[0]
            # inner element comes from the suffix after the outer position, outer from the walk over all candidates
            ok = elem_role(i_) == 'inner' and elem_role(o_) == 'outer' and repr(a_.strip()) == repr(i_.strip())
            if ok and not (num.strip() is inter[0] and den.strip() is area[0]):
                # the fraction IS intersection / area: a term added to the area (an epsilon 'against division by
                # zero') lowers the fraction of small boxes below the threshold; a factor changes the threshold
                ok = False
                detail = 'numerator / denominator carry arithmetic besides the two calls: ' + detail
        ctx.check(ok, R, b, 'fraction=intersection(outer,inner)/area(inner)', detail[:200],
                  'the covered fraction is %s: expected intersection(higher-ranked, lower-ranked) divided by the area '
                  'of the lower-ranked (inner-loop) box' % detail[:300])
    for info in chain_form:
        frac = info['frac']
        divs = [x for x in frac.walk() if x.kind == 'bin' and x.name == 'Div']
        n += 1
        okc = False
        detail = repr(frac)[:200]
        if divs:
            num, den = divs[0].args
            inter = num.calls('intersection')
            area = den.calls('area')
            if inter and area and num.strip() is inter[0] and den.strip() is area[0]:
                o_, i_ = inter[0].args[0], inter[0].args[1]
                a_ = area[0].args[0]

                def is_elem(e_):
                    # the chain element: a parameter of the closure the comparison sits in (not an upvar, not the outer box)
                    return any(p_.root[0] == 'param' and p_.root[1] >= 2 for p_ in e_.places()) and not e_.has_call('enumerate')
                okc = elem_role(o_) == 'outer' and is_elem(i_) and repr(a_.strip()) == repr(i_.strip())
        ctx.check(okc, R, b, 'fraction=intersection(outer,inner)/area(inner)', detail,
                  'the covered fraction of the chain form is %s: expected intersection(higher-ranked, lower-ranked) divided by '
                  'the area of the lower-ranked (chain element) box, nothing else' % detail)
        for neg_, t_ in info['contains']:
            a = t_.args[-1]
            n += 1
            ctx.check(neg_ and a.has_field('index'), R, b, 'contains(candidate-id)', repr(a.strip())[-60:],
                      'the chain keeps an element under %scontains(%r): expected the boxes whose candidate id (`.index`) is NOT '
                      'excluded yet' % ('!' if neg_ else '', a.strip()))
        for r_ in info['ids']:
            n += 2
            ctx.check(r_.has_field('index'), R, b, 'insert(candidate-id)', repr(r_.strip())[-60:],
                      'the excluded set is extended with %r, which is not a candidate id (`.index`)' % r_.strip())
            ctx.check(any(p_.root[0] == 'param' and p_.root[1] >= 2 for p_ in r_.places()) and not r_.has_call('enumerate'), R, b,
                      'insert(inner-id)', '', 'the id recorded as excluded is not the id of the chain element (the lower-ranked box)')
    # suffix: slice index RangeFrom{Add(outer position, 1)}
    idx = [c for c in b.find_calls('index') if 'RangeFrom' in ' '.join(c.ga) or 'RangeFrom' in b.locals[c.args[1]['pl']['l']]]
    # index-loop form: `for j in i + 1..n { ob = &v[j] }` — the inner range starts right after the outer position
    inner_ranges = []
    for c in b.find_calls('std::iter::Iterator::next'):
        it = eb.arg(c, 0)
        for x in it.walk():
            if x.kind == 'agg' and x.name.endswith('Range::Range') and len(x.args) == 2:
                st_ = x.args[0]
                if st_.kind == 'bin' and st_.name == 'Add' and st_.args[1].const_value() == '1' and \
                        st_.args[0].has_call('next'):
                    inner_ranges.append(c)
    # slice-pattern form: the inner loop runs over the tail `[1..]` of the slice whose head `[0]` is the outer box
    tail_loops = [c for c in b.find_calls('std::iter::Iterator::next') if '[1..-0]' in repr(eb.arg(c, 0)) and
                  b.in_loop(c.bb)]
    inner_ranges = inner_ranges + tail_loops
    n += 1
    oks = bool(inner_ranges)
    detail = ''
    for c in idx:
        r = eb.arg(c, 1)
        detail = repr(r)
        adds = [x for x in r.walk() if x.kind == 'bin' and x.name == 'Add']
        oks = bool(adds) and adds[0].args[1].const_value() == '1' and adds[0].args[0].has_call('enumerate') and \
            adds[0].args[0].strip().proj[-1:] == ('0',) or oks
    ctx.check(oks, R, b, 'inner-loop-over-suffix(position+1..)', detail[:120],
              'the inner loop does not range over the candidates after the outer position (%s)' % detail[:200])
    # id discipline
    cont = b.find_calls('std::collections::HashSet::contains')
    for c in cont + ins:
        a = eb.arg(c, 1)
        n += 1
        ctx.check(a.has_field('index'), R, b, '%s(candidate-id)' % c.name, repr(a.strip())[-60:],
                  'the excluded set is %s with %r, which is not a candidate id (`.index`): positions in the '
                  'sorted list and candidate ids differ unless the input is already sorted' % (
                      'queried' if c.name == 'contains' else 'updated', a.strip()), c.ln)
    for c in ins:
        a = eb.arg(c, 1)
        n += 1
        ctx.check(elem_role(a) == 'inner', R, b, 'insert(inner-id)', '',
                  'the box recorded as excluded is not the inner-loop (lower-ranked) box', c.ln)
    # outer skip: a contains() on the outer element dominates the inner loop
    n += 1
    outer_checks = [c for c in cont if elem_role(eb.arg(c, 1)) == 'outer']
    inner_starts = idx or inner_ranges
    oko = bool(outer_checks) and bool(inner_starts) and all(b.dominates(outer_checks[0].bb, c.bb) for c in inner_starts)
    ctx.check(oko, R, b, 'excluded-outer-box-is-skipped', '', 'an excluded box is not skipped before it is used as a '
              'suppressor')
    # final stage: keeps exactly the candidates whose id is not excluded; the kept element is its `bbox`
    final_ok = False
    result_bbox = False
    for cb in closures:
        if not cb.find_calls('std::collections::HashSet::contains') or not cb.npath.startswith(NMS):
            continue
        if cb.locals[0] != 'bool' and 'Option' not in cb.locals[0]:
            continue
        kf, pay = necessary_keep_facts(cb)
        neg = [v for v in kf.values() if v[0] == 'bool' and v[1] is False and v[2].kind == 'call' and
               v[2].name.endswith('contains') and v[2].args[-1].has_field('index')]
        pos = [v for v in kf.values() if v[0] == 'bool' and v[1] is True and v[2].kind == 'call' and
               v[2].name.endswith('contains')]
        n += 1
        final_ok = True
        ctx.check(bool(neg) and not pos, R, cb, 'result-keeps-not-excluded(candidate-id)', str(list(kf))[:100],
                  'the final filter keeps an element under %s (expected !excluded.contains(candidate id))' % list(kf))
        if pay:
            result_bbox = all(p is not None and p.strip().kind == 'place' and p.strip().fields[-1:] == ('bbox',)
                              for p in pay)
    if not final_ok:
        n += 1
        ctx.fail(R, b, 'result-keeps-not-excluded(candidate-id)', 'ANCHOR-MISSING: no final stage that filters the '
                 'candidates by the excluded set')
    ctx.floor(R, n, 8)
    # ---------------- R14.4 result = bbox of surviving candidates
    R = 'R14.4'
    ctx.rule(R, 'result elements are the `bbox` references of surviving candidates (subset of the input)')
    ret = eb.place(0, ())
    ok = ret.has_call('collect') and (ret.has_call('filter_map') or (ret.has_call('map') and ret.has_call('filter')))
    if not result_bbox:
        mp = [c for c in b.find_calls('std::iter::Iterator::map') if eb.arg(c, 0).has_call('filter') and
              (eb.arg(c, 0).has_call('into_iter') or eb.arg(c, 0).has_call('iter'))]
        for c in mp:
            for cb in closure_args_of_call(F, b, c):
                e = ExprBuilder(cb).place(0, ()).strip()
                result_bbox = result_bbox or (e.kind == 'place' and e.fields[-1:] == ('bbox',))
    ctx.check(ok and result_bbox, R, b, 'result=map(bbox)', '', 'the result is not the bbox references of the '
              'candidates that were not excluded')
    # the overlap nms suppresses on is the exact clip: the clipper's inside test is a sign test (shared with C08)
    ctx.rule('R14.8', 'the clipping predicate behind the covered fraction is a sign test (no tolerance)')
    ctx.floor('R14.8', C08.clip_predicate_rule(ctx, 'R14.8'), 1)
    # ---------------- R14.5 clone drops the vertex cache
    R = 'R14.5'
    ctx.rule(R, 'Universal2DBox::clone never carries the vertex cache')
    clone_rule(ctx, R)


def elem_role(e):
    """'inner' / 'outer' / None — which loop variable an expression of nms() denotes, for both loop styles:
    `for (i, cb) in v.iter().enumerate() { for ob in &v[i + 1..] {..} }` and `for i in 0..n { for j in i + 1..n {..} }`"""
    if e.has_call('index') and 'RangeFrom' in repr(e):
        return 'inner'
    # slice-pattern form: `while let [cb, lower @ ..] = rest { rest = lower; for ob in lower {..} }`
    def has_proj(x, name):
        return any(name in tuple(str(q) for q in (y.fields if y.kind == 'place' else y.proj))
                   for y in x.walk() if y.kind in ('place', 'call', 'agg', 'phi') or True)
    nexts = [y for y in e.walk() if y.kind == 'call' and y.name.rsplit('::', 1)[-1] == 'next' and y.args]
    if any(has_proj(y.args[0], '[1..-0]') for y in nexts):
        return 'inner'
    if not nexts and has_proj(e, '[0]') and 'as_slice' in repr(e):
        return 'outer'
    ranges = [x for x in e.walk() if x.kind == 'agg' and x.name.endswith('Range::Range') and len(x.args) == 2]
    for r in ranges:
        st_ = r.args[0]
        if st_.kind == 'bin' and st_.name == 'Add' and st_.args[1].const_value() == '1':
            return 'inner'
    if any(x.kind == 'call' and x.name.rsplit('::', 1)[-1] == 'index' and len(x.args) == 2 and
           x.args[1].strip().kind == 'agg' and any(t_ in x.args[1].strip().name for t_ in (
               'RangeTo', 'RangeInclusive', 'Range::Range')) for x in e.walk()):
        return None        # a prefix / sub-range of the candidates: neither "every candidate" nor "the suffix"
    if e.has_call('enumerate'):
        return 'outer'
    for r in ranges:
        if r.args[0].kind == 'const' and r.args[0].const_value() == '0':
            return 'outer'
    return None


def clone_rule(ctx, R):
    """Universal2DBox::clone never carries the vertex cache; intersection() works on fresh clones (shared with C08)"""
    cl = ctx.anchor(R, '<utils::bbox::Universal2DBox as std::clone::Clone>::clone')
    if cl is not None:
        e = ExprBuilder(cl).place(0, ())
        carries = e.has_field('_vertex_cache')
        ctx.check(not carries, R, cl, 'clone-resets-vertex-cache', repr(e)[:120],
                  'a cloned box carries the source\'s _vertex_cache (%r): intersection() - and therefore NMS - can use '
                  'a polygon that no longer matches the public coordinates of the box' % e)
        inter = ctx.anchor(R, 'utils::bbox::Universal2DBox::intersection')
        if inter is not None:
            cs = inter.find_calls('std::clone::Clone::clone')
            ctx.check(len(cs) >= 2 or not inter.find_calls('get_cached_vertices'), R, inter,
                      'intersection-works-on-fresh-clones', '', 'intersection() reads cached vertices of its arguments '
                      'directly instead of fresh clones')


def _ownership(ctx):
    """who-may-write rows of rules/ownership.py that concern this property"""
    import ownership
    ctx.rule('R14.6', 'who-may-write: state this property depends on is changed only by its owners (rules/ownership.py)')
    ctx.floor('R14.6', ownership.run(ctx, 'R14.6', 'C14'), 2)
