"""C13 — bounded galleries and histories (structural steps)."""
import metriclib as M

EXPLANATION = (
    "Structural steps decided on MIR: (R13.1) in both update_history() every history deque receives exactly one "
    "push_back per detection and is trimmed by pop_front only, all deques under the same condition `history_length > "
    "0 && len > history_length`, push before trim; (R13.2) the gallery is maintained as retain(feature present) -> "
    "sort by decreasing visual quality -> `len >= visual_max_observations` => truncate(len-1), in that order, before "
    "the new observation is pushed; the collected-features count is recomputed from the stored feature-bearing "
    "observations after the push; (R13.3) the feature of a continuing detection is dropped exactly when it fails "
    "feature_can_be_used with the *_collect thresholds, own-area shares are computed whenever either own-area "
    "threshold is positive and indexed by the detection's own position; (R13.4) wasted-track records copy histories "
    "in order and last entries via back()."
    ' (R13.7) the metric works with the configured bounds themselves: VisualMetricBuilder::build hands visual_max_observations and the collect / use thresholds over unchanged, and the observation constructor stores the given quality unchanged.'
    ' (R13.8) the boxes that enter histories are the ones observed / estimated (the filter takes plain coordinates: R07.10); (R13.9) the record reads the last history entries (record wiring of C01).')
EXPLANATION += ' R13.3 includes the share wiring of C15 (all observation boxes of the scene, share[i] to observation i); R13.7 includes VisualObservationAttributes::new / with_own_area_percentage storing quality, box and share unchanged.'
NOT_DECIDED = ["bounds under user code that edits observations through get_mut_observations",
               "concrete gallery contents for concrete quality sequences"]
ASSUMPTIONS = ["VecDeque / Vec / sort behave as documented", "rustc nightly MIR construction"]


GALLERY_OPTS = ('visual_max_observations', 'visual_minimal_quality_collect', 'visual_minimal_own_area_percentage_collect',
                'visual_minimal_area', 'visual_minimal_quality_use', 'visual_minimal_own_area_percentage_use',
                'visual_min_votes', 'visual_minimal_track_length', 'visual_kind', 'positional_kind',
                'positional_min_confidence')


def run(ctx):
    _ownership(ctx)
    _wiring(ctx)
    ctx.rule('R13.1', 'histories: one push_back per detection, lock-step pop_front under len > history_length')
    ctx.floor('R13.1', M.rule_histories(ctx, 'R13.1'), 19)
    ctx.rule('R13.2', 'gallery: retain -> sort desc quality -> evict one if len >= max; push; recount')
    ctx.floor('R13.2', M.rule_gallery(ctx, 'R13.2'), 8)
    ctx.rule('R13.3', 'collect gate with *_collect thresholds; own-area shares computed and indexed correctly')
    ctx.rule('R13.3u', '(shared with C12) use gate and conjuncts of feature_can_be_used')
    n = M.rule_collect_gate(ctx, 'R13.3', 'R13.3u')
    # the shares the collect gate reads are computed over ALL observation boxes of the scene (a detection without a feature
    # still occludes its neighbours) and share[i] goes to observation i (clause R15.5 of C15)
    from props import C15
    n += C15.wiring_rule(ctx, 'R13.3')
    ctx.floor('R13.3', n, 15)
    ctx.rule('R13.4', 'wasted-track conversions copy histories in order and last entries via back()')
    ctx.floor('R13.4', M.rule_wasted_conversions(ctx, 'R13.4'), 17)
    from props import C07, C01
    ctx.rule('R13.8', 'the boxes that enter the histories and the record are the ones observed / estimated: the filter takes '
                      'the plain coordinates of a box (no re-encoding on the way in), the record reads the last history entries')
    n = C07.measurement_rule(ctx, 'R13.8')
    ctx.evaluated('R13.8', n, 42)
    C01.r2(ctx, 'R13.9')
    # the record echoed for a detection is read back from the store after the update landed (clause R01.4 of C01): a record
    # read before its merge is awaited echoes the histories of the previous frame
    C01.r4(ctx, 'R13.10')
    import wiring
    ctx.rule('R13.7', 'the metric works with the configured bounds and thresholds themselves (builder hands '
                      'visual_max_observations, collect thresholds ... over unchanged); observations carry the given quality')
    n = wiring.identity_from_self(ctx, 'R13.7', 'trackers::visual_sort::metric::builder::VisualMetricBuilder::build',
                                  'VisualMetricOptions', GALLERY_OPTS)
    n += wiring.identity_ctor(ctx, 'R13.7', 'trackers::visual_sort::VisualSortObservation::new')
    for path_ in ('trackers::visual_sort::observation_attributes::VisualObservationAttributes::new',
                  'trackers::visual_sort::observation_attributes::VisualObservationAttributes::with_own_area_percentage'):
        # the quality scale is the caller's (thresholds are only required to be >= 0): a clamp to [0, 1] turns every
        # quality of a 0..100 scale into a tie and the wrong feature is evicted
        n += wiring.identity_ctor(ctx, 'R13.7', path_, fields=('visual_quality', 'bbox', 'own_area_percentage'),
                                  alias={'visual_quality': 'q', 'bbox': 'b'})
    ctx.floor('R13.7', n, 8)


def _wiring(ctx):
    """name-agreement wiring of the configuration values this property depends on (rules/wiring.py)"""
    import wiring
    ctx.rule('R13.5', 'configuration plumbing: same-named fields / parameters / setters / call arguments are not crossed')
    ctx.floor('R13.5', wiring.run(ctx, 'R13.5', {'visual_max_observations', 'visual_minimal_quality_collect', 'visual_minimal_own_area_percentage_collect', 'history_length'}), 14)


def _ownership(ctx):
    """who-may-write rows of rules/ownership.py that concern this property"""
    import ownership
    ctx.rule('R13.6', 'who-may-write: state this property depends on is changed only by its owners (rules/ownership.py)')
    ctx.floor('R13.6', ownership.run(ctx, 'R13.6', 'C13'), 8)
