"""C05 — tracking results are independent of shard count and thread schedule (structural clauses)."""
import storelib as S
import votinglib as V

EXPLANATION = (
    "Schedule/shard independence is decided through its structural necessary conditions on MIR: (R05.1) every store "
    "worker answers every command exactly once per result channel on all normal paths, one command is sent per "
    "(candidate, executor), the expected chunk count is executors*candidates, and the consumers (get_all and the two "
    "chunk iterators) take exactly that many chunks with a blocking receive and end only when all chunks were "
    "consumed; (R05.2) shards and executors are selected only by id % num_shards, worker i owns store i, merges are "
    "routed to the owner of the destination; (R05.3) the voters cannot see arrival order: a collecting barrier "
    "separates writer and reader of the running maximum distance and the best-fit claim loop is dominated by a sort "
    "on decreasing weight. R05.4 (inventory of HashMap iterations) is informational only."
    ' R05.3 also requires that the Hungarian stage finds the row of a query and the column of a track by id in the id -> index map (never by adjacency in the stream); (R05.6) the idle listings pass every unexpired lookup result on - no dropping / short-circuiting adaptor besides the expiry filter; R05.1 also requires that a distance response reads from channels created by its own query.'
    ' (R05.7) a (candidate, track) pair is judged on its own whatever shares its shard (postprocess_distances per pair) and the simple tracker reads its records after the store updates of the call (sibling steps of the batch tracker).')
EXPLANATION += ' (R05.8) the fixed-point weights keep different metric values apart: 64-bit and not saturated.'
NOT_DECIDED = ["equality of tracker outputs across shard counts as an input-output statement (needs execution)",
               "tie-breaking for exactly equal weights (excluded by the property)"]
ASSUMPTIONS = ["crossbeam channels lossless FIFO", "HashMap iteration order is arbitrary but complete",
               "rustc nightly MIR construction"]


def run(ctx):
    ctx.rule('R05.1', 'exactly-once responses, fan-out, expected count, consumers')
    n = S.rule_exactly_once_responses(ctx, 'R05.1')
    n += S.rule_fanout(ctx, 'R05.1')
    n += S.rule_consumers(ctx, 'R05.1')
    ctx.floor('R05.1', n, 25)
    ctx.rule('R05.2', 'shard-index discipline (who-indexes) and merge routing')
    n = S.rule_shard_index(ctx, 'R05.2')
    n += S.rule_merge_routing(ctx, 'R05.2')
    ctx.floor('R05.2', n, 7)
    ctx.rule('R05.3', 'voters are insensitive to arrival order (barrier; sort before claims)')
    n = V.rule_barrier(ctx, 'R05.3', V.TOPN, 'topn')
    n += V.rule_barrier(ctx, 'R05.3', V.BEST, 'bestfit')
    n += V.rule_bestfit_claims(ctx, 'R05.3')
    n += V.rule_hungarian(ctx, 'R05.3')
    ctx.floor('R05.3', n, 7)
    ctx.rule('R05.5', 'batch trackers: a batch is finished (results sent, store updated) before the next one may compute '
             'distances - the schedule of the voting threads is not observable')
    from props import C06
    ctx.floor('R05.5', C06.protocol(ctx, 'R05.5'), 10)
    import trackerlib as T
    ctx.rule('R05.6', 'idle listings report every unexpired lookup result, whatever shard it came from (no dropping / '
                      'short-circuiting adaptor besides the expiry filter)')
    ctx.floor('R05.6', T.rule_observers(ctx, 'R05.6', parts=('idle',)), 8)
    from props import C10, C06
    ctx.rule('R05.7', 'a (candidate, track) pair is judged on its own whatever else shares its shard (postprocess per pair); '
                      'the records of a call are read after that call\'s store updates (same steps as the batch sibling)')
    C10.r6(ctx, 'R05.7')
    ctx.floor('R05.7', C06.sibling(ctx, 'R05.7'), 6)
    import misclib
    ctx.rule('R05.8', 'the fixed-point weights of the assignment keep different metric values apart (64-bit, not saturated): a '
                      'tie-free input stays tie-free inside the solver, so its answer does not depend on arrival order')
    ctx.floor('R05.8', misclib.rule_weights_fit(ctx, 'R05.8'), 4)
    inventory(ctx)


def inventory(ctx):
    """R05.4 informational: iterations over hash containers"""
    k = 0
    for b in ctx.F.fn_bodies():
        if b.d.get('expn'):
            continue
        for c in b.find_calls():
            if c.name in ('iter', 'iter_mut', 'into_iter', 'values', 'values_mut', 'keys', 'drain') and (
                    'HashMap' in c.callee or 'HashSet' in c.callee or (c.res and ('HashMap' in c.res or 'HashSet' in c.res))):
                k += 1
                ctx.note('R05.4', 'unordered iteration %s in %s at %s' % (c.name, b.npath, c.ln))
    ctx.note('R05.4', '%d unordered-iteration sites listed (not armed)' % k)
