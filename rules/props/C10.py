"""C10 — distance queries are exact and schedule independent (guards, exactly-once responses, removal window)."""
import storelib as S
from lib import ExprBuilder, path_conditions, reachable_bodies, upvar_expr
from mir import norm
from linear import destroyed

EXPLANATION = (
    "Guards and protocol of the distance query decided on MIR: (R10.1) in the worker's Distances arm Track::distances "
    "is reachable only on the `track.track_id != other.track_id` side and, when only ready tracks are requested, "
    "only under Ok(TrackStatus::Ready); only IncompatibleAttributes errors are swallowed; (R10.2) each worker sends "
    "exactly one ok-chunk and one error-chunk per command and the caller expects executors*candidates chunks, one "
    "command per (candidate, executor); (R10.3) no scanning command is issued while candidate tracks are fetched out "
    "of the store: the owned query works on clones obtained through a shard lookup and performs no remove/insert; "
    "(R10.4) nothing fetched is destroyed or left out of the store."
    ' R10.2 also requires that the channels a distance response reads from are created by that query (not shared between queries); R10.6 also requires that postprocess_distances is applied to the distances of one (candidate, stored track) pair at a time.'
    ' (R10.7) a track has observations of a class only through its mutators (who-may-write row shared with C11): an empty class entry created elsewhere turns the missing-class error into an empty answer.')
EXPLANATION += ' R10.5 also requires that the missing-class outcome of Track::distances is decided by the map lookup alone (a present but empty class is not an error).'
NOT_DECIDED = ["the multiset of results for concrete metrics (cartesian product, metric values)",
               "Track::distances' own pairing of observations (decided under C02 R02.4 for the compatibility guard)"]
ASSUMPTIONS = ["crossbeam channels are FIFO and lossless", "panics out of scope", "rustc nightly MIR construction"]

SCAN_CALLS = (S.STORE + '::foreign_track_distances', S.STORE + '::find_usable', S.STORE + '::lookup',
              S.STORE + '::owned_track_distances')
REMOVERS = (S.STORE + '::fetch_tracks', 'std::collections::HashMap::remove')
MUTATORS = REMOVERS + ('std::collections::HashMap::insert', S.STORE + '::add_track', 'std::collections::HashMap::clear')


def run(ctx):
    r1(ctx)
    ctx.rule('R10.2', 'exactly-once responses per worker and command; fan-out and expected count')
    n = S.rule_exactly_once_responses(ctx, 'R10.2')
    n += S.rule_fanout(ctx, 'R10.2')
    n += S.rule_consumers(ctx, 'R10.2')
    ctx.floor('R10.2', n, 25)
    r3(ctx)
    r6(ctx)
    import ownership
    ctx.rule('R10.7', 'a track has observations of a class only through its mutators (a class entry created elsewhere - empty - '
                      'turns the missing-class error of a distance query into an empty answer)')
    ctx.floor('R10.7', ownership.run(ctx, 'R10.7', 'C10'), 2)
    ctx.rule('R10.5', 'Track::distances: compatible guard, full pair product without short-circuit, query/result wiring')
    ctx.floor('R10.5', S.rule_track_distances(ctx, 'R10.5'), 7)


def mode_off_variants(ctx):
    """when the public `only_baked: bool` of foreign_track_distances travels to the worker as a private two-valued enum:
    {(enum path, variant)} built on the `only_baked == false` side (found in the function that takes the bool)"""
    F = ctx.F
    cache = F.__dict__.setdefault('_c10_mode', None)
    if cache is not None:
        return cache
    out = set()
    b = F.one(S.STORE + '::foreign_track_distances')
    if b is not None:
        bools = [i for i in range(1, b.nargs + 1) if b.locals[i] == 'bool']
        from lib import all_closures
        for cb in [b] + all_closures(F, b):
            for i in sorted(cb.live_blocks()):
                for s_ in cb.blocks[i]['st']:
                    rv = s_.get('rv') or {}
                    if s_['k'] == 'assign' and rv.get('k') == 'agg' and rv.get('ak') == 'adt' and not rv.get('ops') \
                            and rv.get('adt', '').startswith('track::store'):
                        for k in path_conditions(cb, i):
                            if k.kind == 'bool' and k.truth is False and k.expr.strip().kind == 'place' and \
                                    cb is b and k.expr.strip().root[0] == 'param' and k.expr.strip().root[1] in bools:
                                out.add((norm(rv['adt']), rv['v']))
    F.__dict__['_c10_mode'] = out
    return out


_F = [None]


def _variant_of_const(e):
    """(enum path, variant) of a constant / promoted value that is a field-less enum variant, else None"""
    F = _F[0]
    x = e
    if x.kind == 'const' and x.const.get('s') and F is not None:
        for bs in (F.get(norm(x.const['s'])), F.search('^' + __import__('re').escape(norm(x.const['s'])) + '$')):
            for b_ in bs or []:
                r = ExprBuilder(b_).place(0, ())
                r = r.strip() if r.kind in ('call', 'cast') else r
                if r.kind == 'agg' and not r.args and '::' in r.name:
                    return (norm(r.name.rsplit('::', 1)[0]), r.name.rsplit('::', 1)[1])
    if x.kind == 'agg' and not x.args and '::' in x.name:
        return (norm(x.name.rsplit('::', 1)[0]), x.name.rsplit('::', 1)[1])
    return None


def enum_mode_off(conds, off_variants):
    """a path condition `mode is V` where V is the variant that stands for only_baked == false (a `match`, or the
    derived `mode == Enum::V` / `mode != Enum::W` of a two-valued enum)"""
    for k in conds:
        if k.kind == 'discr' and k.variants and len(k.variants) == 1:
            ty = norm(getattr(k, 'enum_ty', '') or '')
            if (ty, list(k.variants)[0]) in off_variants:
                return True
        if k.kind == 'bool' and k.truth is not None and k.expr.kind == 'call' and len(k.expr.args) == 2 and \
                k.expr.name.rsplit('::', 1)[-1] in ('eq', 'ne'):
            for a in k.expr.args:
                v = _variant_of_const(a)
                if v is None:
                    continue
                holds_eq = k.truth if k.expr.name.endswith('eq') else (not k.truth)
                if holds_eq and v in off_variants:
                    return True
                if not holds_eq and len({o for o in off_variants if o[0] == v[0]}) >= 1 and v not in off_variants:
                    # `mode != OnlyBaked` on a two-valued enum is `mode == All`
                    return True
    return False


def r1(ctx):
    _F[0] = ctx.F
    R = 'R10.1'
    ctx.rule(R, 'Track::distances only for different ids, and only for Ready tracks when only_baked; only '
                'IncompatibleAttributes is swallowed')
    F = ctx.F
    w = ctx.anchor(R, S.WORKER)
    if w is None:
        return
    n = 0
    for name in reachable_bodies(F, w, depth=1):
        for b in F.get(name):
            calls = b.find_calls('track::Track::distances')
            if not calls:
                continue
            ctx.read(b)
            eb = ExprBuilder(b)
            for c in calls:
                conds = path_conditions(b, c.bb)
                n += 1
                # (a) different ids
                diff = False
                for k in conds:
                    cm = k.cmp()
                    if cm and cm[0] == 'Ne':
                        # (an id read once before the scan and captured by the closure is still the id)
                        from lib import subst_upvars

                        def id_of(e):
                            """whose track_id an expression reads (None when it is not a track id)"""
                            for x in (e, subst_upvars(F, b, e)):
                                for y in x.walk():
                                    if y.kind == 'place' and y.fields[-1:] == ('track_id',):
                                        return ('place', y.root, tuple(y.fields[:-1]))
                                    if y.kind == 'call' and tuple(str(q) for q in y.proj[-1:]) == ('track_id',):
                                        return ('call', repr(y)[:-len('.track_id')])
                            return None
                        ia, ib = id_of(cm[1]), id_of(cm[2])
                        if ia is not None and ib is not None and ia != ib:
                            diff = True
                ctx.check(diff, R, b, 'distances:not-self#%d' % n, 'reached only when track_id != other.track_id',
                          'Track::distances is reachable without the `track.track_id != other.track_id` guard: a '
                          'stored track can be paired with itself', c.ln)
                # (b) readiness
                from lib import expand_conditions
                flag_false = ready = okres = True
                off_variants = mode_off_variants(ctx)
                for cv in expand_conditions(b, conds):
                    flag = [k for k in cv if k.kind == 'bool' and k.expr.strip().kind == 'place']
                    ff = any(k.truth is False for k in flag) or enum_mode_off(cv, off_variants)
                    rd = any(k.kind == 'discr' and getattr(k, 'enum_ty', '').startswith('track::TrackStatus')
                             and k.variants == {'Ready'} for k in cv)
                    okr = any(k.kind == 'discr' and k.variants == {'Ok'} and k.expr.has_call('baked') for k in cv)
                    if not (ff or (rd and okr)):
                        flag_false = ready = okres = False
                    flag_false = flag_false and ff
                    ready = ready and rd
                    okres = okres and okr
                from lib import paths_to
                variants = expand_conditions(b, conds)
                if not (any(k.kind == 'discr' and k.variants == {'Ready'} for cv in variants for k in cv) or
                        any(k.kind == 'bool' and k.expr.strip().kind == 'place' for cv in variants for k in cv) or
                        any(enum_mode_off(cv, off_variants) for cv in variants)):
                    # no necessary guard at all: the guard may be a disjunction (`if only_baked && !ready { return }`):
                    # judge every path to the call on its own
                    pt = paths_to(b, c.bb)
                    if pt:
                        variants = pt
                good = all((any(k.truth is False for k in cv if k.kind == 'bool' and k.expr.strip().kind == 'place')) or
                           enum_mode_off(cv, off_variants) or
                           (any(k.kind == 'discr' and getattr(k, 'enum_ty', '').startswith('track::TrackStatus') and
                                k.variants == {'Ready'} for k in cv) and
                            any(k.kind == 'discr' and k.variants == {'Ok'} and k.expr.has_call('baked') for k in cv))
                           for cv in variants)
                ctx.check(good, R, b, 'distances:ready-when-only-baked#%d' % n,
                          'guard: %s' % ('!only_baked' if flag_false else 'baked()==Ok(Ready)'),
                          'with only_baked set, Track::distances is reachable for tracks whose status is not '
                          'Ok(TrackStatus::Ready) (conditions found: %s)' % conds, c.ln)
                if ready:
                    # the status examined is the one of the stored (other) track, not of the candidate
                    bk = [k for k in conds if k.kind == 'discr' and k.variants == {'Ok'} and k.expr.has_call('baked')]
                    args = bk[0].expr.calls('baked')[0].args if bk else []
                    other = eb.arg(c, 1).strip()
                    oroot = other.places()[0].root if other.places() else None
                    same = len(args) >= 2 and all(a.places() and all(p.root == oroot for p in a.places())
                                                  for a in args[:2])
                    ctx.check(same, R, b, 'distances:readiness-of-stored-track#%d' % n,
                              'baked() is evaluated on the stored track',
                              'the readiness test examines %r, not the stored track that is compared' % (args[:1],),
                              c.ln)
            # swallowed errors: every `None` result after a failed distances call requires IncompatibleAttributes
            none_sites = []
            for i_ in sorted(b.live_blocks()):
                for si_, s_ in enumerate(b.blocks[i_]['st']):
                    # a `None` built for the per-pair result (also when the pair step lives in an inlined helper)
                    if s_['k'] == 'assign' and s_['rv']['k'] == 'agg' and s_['rv'].get('v') == 'None' and \
                            not s_['lhs']['p']:
                        none_sites.append(('assign', i_, si_, s_))
            for d in none_sites:
                conds = path_conditions(b, d[1])
                failed = [k for k in conds if k.kind == 'discr' and k.variants == {'Err'} and k.expr.has_call(
                    'distances')]
                if not failed:
                    continue
                n += 1
                inc = all(any(k.kind == 'discr' and k.variants == {'IncompatibleAttributes'} for k in cv)
                          for cv in expand_conditions(b, conds))
                ctx.check(inc, R, b, 'swallowed-error-is-incompatible-attributes@bb-after-%s' % failed[0].ln.rsplit(
                    ':', 1)[-1], 'only Errors::IncompatibleAttributes is dropped',
                    'a distance error other than IncompatibleAttributes is silently dropped instead of being '
                    'reported on the error stream', d[3]['ln'])
    ctx.floor(R, n, 2)


def r3(ctx):
    R3, R4 = 'R10.3', 'R10.4'
    ctx.rule(R3, 'no scanning command while candidates are fetched out of the store; owned query works on clones')
    ctx.rule(R4, 'owned query leaves the store unchanged; nothing fetched is destroyed')
    F = ctx.F
    o = ctx.anchor(R3, S.STORE + '::owned_track_distances')
    n = 0
    # generic window rule over every TrackStore method
    for b in F.fn_bodies():
        if not b.npath.startswith(S.STORE + '::') or b.kind != 'AssocFn':
            continue
        rem = b.find_calls(*REMOVERS)
        scans = b.find_calls(*SCAN_CALLS)
        if not rem or not scans:
            continue
        ctx.read(b)
        for r in rem:
            for s in scans:
                if s.bb in b.reach_from(r.bb) and s.bb != r.bb:
                    n += 1
                    ctx.fail(R3, b, 'scan-after-remove:%s->%s' % (r.name, s.name),
                             'tracks removed by %s (at %s) are out of the store while %s scans it: the removed tracks '
                             'are not compared with one another and concurrent queries miss them' % (
                                 r.name, r.ln, s.name), s.ln)
    if o is not None:
        bodies = [o] + [x for nm in reachable_bodies(F, o, depth=0) for x in F.get(nm) if x is not o]
        muts = []
        for b in bodies:
            muts += [(b, c) for c in b.find_calls(*MUTATORS)]
        ctx.check(not muts, R4, o, 'owned-query-does-not-mutate', 'no remove/insert/add_track/fetch_tracks',
                  'owned_track_distances mutates the store: %s' % [(b.npath, c.name, c.ln) for b, c in muts])
        # candidates are clones of the stored tracks selected by the same id
        eb = ExprBuilder(o)
        f = o.find_calls(S.STORE + '::foreign_track_distances')
        ok = False
        detail = ''
        if f:
            e = eb.operand(f[0].args[1])
            detail = repr(e)
            cands = []
            for cb in F.closures_of(o):
                ce = ExprBuilder(cb).place(0, ())
                detail += ' / closure: %r' % ce
                cands.append(ce)
            # loop form: the candidates are pushed one by one
            for c_ in o.find_calls('std::vec::Vec::push'):
                pe = eb.arg(c_, 1)
                detail += ' / pushed: %r' % pe
                cands.append(pe)
            for ce in cands:
                if ce.has_call('cloned', 'clone') and ce.has_call('get_store') and ce.has_call('get'):
                    gs = ce.calls('get_store')[0]
                    g = [x for x in ce.calls('get') if 'HashMap' in x.name]
                    if g and repr(gs.args[1].strip()) == repr(g[0].args[1].strip()):
                        ok = True
            ctx.check(ok, R3, o, 'candidates-are-clones-of-stored-tracks', detail[:300],
                      'the owned query does not obtain its candidates as clones of get_store(id).get(id): %s' %
                      detail[:300])
            # parameters forwarded unchanged
            fc = eb.operand(f[0].args[2]).strip()
            ob = eb.operand(f[0].args[3]).strip()
            ctx.check(fc.kind == 'place' and fc.root == ('param', 3) and ob.kind == 'place' and ob.root == ('param', 4),
                      R3, o, 'forwards-class-and-only_baked', '', 'feature class / only_baked are not forwarded '
                      'unchanged to the distance query (%r, %r)' % (fc, ob))
        else:
            ctx.fail(R3, o, 'delegates', 'owned_track_distances does not delegate to foreign_track_distances')
        dd = destroyed(o, r'^(std::vec::Vec<|std::option::Option<)?track::Track<')
        ctx.check(not dd, R4, o, 'nothing-destroyed', '', 'tracks can be destroyed: %s' % dd)


def r6(ctx, R='R10.6'):
    (ctx.rule if R == 'R10.6' else (lambda *a: None))(R, 'the default postprocess_distances is the identity; dropping the store does not mutate shards while '
                'queries may be in flight')
    b = ctx.anchor(R, 'track::ObservationMetric::postprocess_distances')
    if b is not None:
        e = ExprBuilder(b).place(0, ()).strip()
        ctx.check(e.kind == 'place' and e.root == ('param', 2) and not e.fields, R, b, 'default-postprocess-is-identity',
                  repr(e), 'the default ObservationMetric::postprocess_distances returns %r instead of its input: '
                  'results for which the metric yields a value are dropped for every metric that does not override it' % e)
    # the metric's post-processing sees the distances of ONE (candidate, stored track) pair at a time: what it is given is
    # the Ok payload of that pair's Track::distances. Applied to a concatenation (per command, per shard) a
    # non-pointwise post-processing (best pair, top-k, normalisation) gives results that depend on the sharding.
    ws = ctx.F.get(S.WORKER)
    w = ws[0] if ws else None
    if w is not None:
        from lib import deep_calls
        pcs = deep_calls(ctx.F, w, 'postprocess_distances')
        for owner, c in pcs:
            a = ExprBuilder(owner).arg(c, 1)
            per_pair = any(x.kind == 'call' and x.name.endswith('track::Track::distances') for x in a.walk())
            ctx.check(per_pair, R, w, 'postprocess-per-track-pair', repr(a)[:100],
                      'postprocess_distances is applied to %r, not to the distances of one (candidate, stored track) pair '
                      '(the Ok value of Track::distances): a metric whose post-processing is not pointwise returns results '
                      'that depend on how tracks are spread over shards' % a, c.ln)
        ctx.check(len(pcs) >= 1, R, w, 'postprocess-applied', '%d site(s)' % len(pcs),
                  'the store worker no longer applies the metric\'s postprocess_distances to the distances it reports')
    d = ctx.anchor(R, '<track::store::TrackStore as std::ops::Drop>::drop')
    if d is not None:
        from lib import deep_calls
        muts = deep_calls(ctx.F, d, S.STORE + '::clear', 'std::collections::HashMap::clear',
                          'std::collections::HashMap::remove', S.STORE + '::fetch_tracks',
                          'std::collections::HashMap::drain')
        ctx.check(not muts, R, d, 'drop-does-not-mutate-shards', '', 'TrackStore::drop empties the shards (%s) before '
                  'the workers have processed the commands still queued: in-flight distance queries run against an '
                  'emptied store' % [c.name for _, c in muts])
