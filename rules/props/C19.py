"""C19 — box equality is a symmetric tolerance relation (partial claim: equality clause only)."""
from lib import ExprBuilder, path_conditions, result_assignments, as_cmp, orient

EXPLANATION = (
    "Decides the equality clause of C19 structurally: in PartialEq::eq of BoundingBox and Universal2DBox every "
    "condition that must hold for `true` is a comparison |self.f - other.f| (< or <=) EPS with the absolute value "
    "present (symmetry) and the required coordinates {left,top,width,height} / {xc,yc,angle,aspect,height} are all "
    "covered by such necessary conditions (fails when any differs by more). Rule R19.1 on MIR path conditions. "
    "R19.2: dependency-set wiring of the two ltwh <-> universal conversions (each result field reads exactly the "
    "documented source fields, confidence included) - a necessary condition of the round trip, not its arithmetic.")
NOT_DECIDED = ["ltwh <-> universal round trip (numeric)", "polygon geometry", "angle normalisation",
               "reflexivity for NaN coordinates"]
ASSUMPTIONS = ["rustc nightly front end + MIR construction", "f32::abs is the IEEE absolute value"]

REQUIRED = {
    '<utils::bbox::BoundingBox as std::cmp::PartialEq>::eq': ['left', 'top', 'width', 'height'],
    '<utils::bbox::Universal2DBox as std::cmp::PartialEq>::eq': ['xc', 'yc', 'angle', 'aspect', 'height'],
}


def is_eps(e):
    return e.kind == 'const' and (e.const.get('item') == 'EPS' or e.const.get('v') in ('1e-5',))


def classify(op, a):
    """(field or None, symmetric?) for a holding comparison `a op EPS`"""
    a = a.strip() if a.kind != 'call' else a
    sym = False
    inner = a
    if a.kind == 'call' and a.name.endswith('::abs'):
        sym = True
        inner = a.args[0]
    if inner.kind == 'bin' and inner.name == 'Sub':
        l, r = inner.args
        lp = [p for p in l.places() if p.root == ('param', 1)]
        rp = [p for p in r.places() if p.root == ('param', 2)]
        lp2 = [p for p in l.places() if p.root == ('param', 2)]
        rp2 = [p for p in r.places() if p.root == ('param', 1)]
        for x, y in ((lp, rp), (lp2, rp2)):
            if x and y and x[0].fields and x[0].fields[:1] == y[0].fields[:1]:
                return x[0].fields[0], sym
    return None, sym


DEPS = {
    ('<utils::bbox::Universal2DBox as std::convert::From>::from', True): (
        'utils::bbox::Universal2DBox::Universal2DBox', {
            'xc': {'left', 'width'}, 'yc': {'top', 'height'}, 'aspect': {'width', 'height'}, 'height': {'height'},
            'confidence': {'confidence'}}),
    ('<utils::bbox::BoundingBox as std::convert::TryFrom>::try_from', True): (
        'utils::bbox::BoundingBox::BoundingBox', {
            'left': {'xc', 'aspect', 'height'}, 'top': {'yc', 'height'}, 'width': {'aspect', 'height'},
            'height': {'height'}, 'confidence': {'confidence'}}),
}


def conversions(ctx):
    """R19.2 dependency-set wiring of the two box conversions: every field of the result depends on exactly the
    documented fields of the source (a necessary condition of the round trip; formulas themselves are not frozen)"""
    R = 'R19.2'
    ctx.rule(R, 'conversion wiring: each result field depends on exactly the documented source fields')
    n = 0
    def pick(path, by_ref):
        bs = ctx.anchor(R, path, multi=True)
        bs = [x for x in bs if x.locals[1].startswith('&') == by_ref and ('BoundingBox' in x.locals[1] or
                                                                          'Universal2DBox' in x.locals[1])]
        if len(bs) != 1:
            ctx.fail(R, path, 'ANCHOR-MISSING', 'expected one %s conversion %s, found %d' % (
                'by-reference' if by_ref else 'by-value', path, len(bs)))
            return None
        return bs[0]

    for (path, by_ref), (agg, deps) in DEPS.items():
        b = pick(path, by_ref)
        if b is None:
            continue
        e = ExprBuilder(b).place(0, ())
        aggs = [x for x in e.walk() if x.kind == 'agg' and x.name == agg]
        if not aggs:
            ctx.note(R, '%s does not build its result as a struct literal; wiring clause not armed' % path)
            # still require confidence to flow
            n += 1
            ctx.check(e.has_field('confidence'), R, b, 'confidence-flows', repr(e)[:120],
                      'the converted box does not carry the confidence of the source box: %r' % e)
            continue
        for a in aggs:
            m = dict(zip(a.extra['fields'], a.args))
            for f, want in deps.items():
                got = set()
                for p in m[f].places():
                    if p.root == ('param', 1) and p.fields:
                        got.add(p.fields[0])
                n += 1
                ctx.check(got == want, R, b, 'field:%s<-%s' % (f, sorted(want)), 'depends on %s' % sorted(got),
                          'result field `%s` is computed from source fields %s (expected exactly %s): the '
                          'conversion round trip cannot return the same box' % (f, sorted(got), sorted(want)))
    # by-value conversions delegate to the by-reference ones
    for path, callee in (('<utils::bbox::Universal2DBox as std::convert::From>::from', 'from'),
                         ('<utils::bbox::BoundingBox as std::convert::TryFrom>::try_from', 'try_from'),
                         ('utils::bbox::BoundingBox::as_xyaah', 'from')):
        b = pick(path, False) if '<' in path else ctx.anchor(R, path)
        if b is None:
            continue
        e = ExprBuilder(b).place(0, ())
        n += 1
        ok = e.kind == 'call' and (e.has_call(callee) or e.has_call('into')) and e.has_place(root=('param', 1))
        ctx.check(ok, R, b, 'delegates', repr(e)[:100], 'the by-value conversion does not delegate to the by-reference '
                  'conversion of its argument: %r' % e)
    ctx.floor(R, n, 9)


def run(ctx):
    _wiring(ctx)
    conversions(ctx)
    R = 'R19.1'
    ctx.rule(R, "every necessary condition of eq()==true has the form abs(self.f - other.f) < EPS; required fields covered")
    n = 0
    for path, req in REQUIRED.items():
        body = ctx.anchor(R, path)
        if body is None:
            continue
        covered = None
        defs = [d for d in result_assignments(body) if not (d[1] == 'const' and d[2] is False)]
        if not defs:
            ctx.fail(R, body, 'result', 'eq never returns a non-false value')
            continue
        for bb, kind, payload in defs:
            facts = []
            for c in path_conditions(body, bb):
                cm = c.cmp()
                if cm:
                    facts.append((cm, c.ln))
            if kind == 'expr':
                cm = as_cmp(payload, True)
                if cm:
                    facts.append((cm, body.blocks[bb]['st'][-1].get('ln', '') if body.blocks[bb]['st'] else ''))
            here = set()
            for cm, ln in facts:
                o = orient(cm, lambda e: not is_eps(e))
                if o is None or not is_eps(o[2]):
                    continue
                op, a, _ = o
                field, sym = classify(op, a)
                if field is None:
                    ctx.note(R, 'unclassified EPS comparison %r at %s' % (a, ln))
                    continue
                n += 1
                inst = 'field:' + field
                if op not in ('Lt', 'Le'):
                    ctx.fail(R, body, inst, 'tolerance comparison for `%s` has operator %s (expected < or <=)' % (field, op), ln)
                elif not sym:
                    ctx.fail(R, body, inst, 'difference of `%s` is compared without abs(): %r %s EPS is not symmetric '
                             'and accepts arbitrarily large negative differences' % (field, a, op), ln)
                else:
                    ctx.ok(R, body, inst, '%r %s EPS' % (a, op), ln)
                    here.add(field)
            covered = here if covered is None else (covered & here)
        for f in req:
            ctx.check(f in (covered or set()), R, body, 'covers:' + f,
                      'coordinate `%s` is a necessary symmetric-tolerance conjunct of equality' % f,
                      'equality can return true without a symmetric |Δ%s| < EPS test (coordinate not compared, '
                      'or only on some paths, or combined with ||)' % f)
    ctx.floor(R, n, 9)


def _wiring(ctx):
    """name-agreement wiring of the configuration values this property depends on (rules/wiring.py)"""
    import wiring
    ctx.rule('R19.3', 'configuration plumbing: same-named fields / parameters / setters / call arguments are not crossed')
    ctx.floor('R19.3', wiring.run(ctx, 'R19.3', {'xc', 'yc', 'angle', 'aspect', 'height', 'confidence', 'left', 'top', 'width'}), 70)
