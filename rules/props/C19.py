"""C19 — box equality is a symmetric tolerance relation (partial claim: equality clause only)."""
from lib import ExprBuilder, path_conditions, result_assignments, as_cmp, orient
from mir import norm as norm_

EXPLANATION = (
    "Decides the equality clause of C19 structurally: in PartialEq::eq of BoundingBox and Universal2DBox every "
    "condition that must hold for `true` is a comparison |self.f - other.f| (< or <=) EPS with the absolute value "
    "present (symmetry) and the required coordinates {left,top,width,height} / {xc,yc,angle,aspect,height} are all "
    "covered by such necessary conditions (fails when any differs by more). Rule R19.1 on MIR path conditions. "
    "R19.2: dependency-set wiring of the two ltwh <-> universal conversions (each result field reads exactly the "
    "documented source fields, confidence included) - a necessary condition of the round trip, not its arithmetic. "
    "R19.4: the ltwh entry points feed every named geometry input of the constructor they call from the documented "
    "parameters. R19.5: inside the library the cached polygon never outlives the geometry it was computed from "
    "(struct literals carry no cache unless the whole geometry is copied unchanged; &mut self geometry writes reset it). "
    "R19.8: the four polygon vertices, read as polynomials in xc, yc, height, aspect, cos(angle), sin(angle), are exactly "
    "the corners (+-height*aspect/2, +-height/2) rotated by +angle about (xc, yc) and listed in boundary order; area() "
    "and get_radius() are the area and the centre-to-corner distance of that rectangle. R19.9: the composition of the "
    "two conversions ltwh -> universal -> ltwh, as rational functions of left, top, width, height, confidence, is the "
    "identity. Both are decided by a rational-function normal form of the MIR expression (no execution); where the code "
    "is not straight-line arithmetic the formula is recorded as not evaluated and only R19.2 / R19.4 apply."
    ' (R19.10) the filter state as a representation of a box: initiate / update / distance take the plain coordinates in the order the state -> box conversion reads back (R07.10).')
EXPLANATION += " (R19.11) the constructors store the caller's values unchanged; R19.8 decides `match angle` forms by a case split on the option."
NOT_DECIDED = ["float rounding of the ltwh <-> universal round trip and of the polygon vertices (the real-valued "
               "formulas are decided: R19.8 / R19.9)", "angle normalisation as a numeric statement (R19.7 decides that "
               "whole turns are removed)", "reflexivity for NaN coordinates"]
ASSUMPTIONS = ["rustc nightly front end + MIR construction", "f32::abs is the IEEE absolute value"]

REQUIRED = {
    '<utils::bbox::BoundingBox as std::cmp::PartialEq>::eq': ['left', 'top', 'width', 'height'],
    '<utils::bbox::Universal2DBox as std::cmp::PartialEq>::eq': ['xc', 'yc', 'angle', 'aspect', 'height'],
}


def is_eps(e):
    return e.kind == 'const' and (e.const.get('item') == 'EPS' or e.const.get('v') in ('1e-5',))


def classify(op, a):
    """(field or None, symmetric?) for a holding comparison `a op EPS`"""
    from lib import ops_to_bins
    a = ops_to_bins(a)
    a = a.strip() if a.kind != 'call' else a
    sym = False
    inner = a
    if a.kind == 'call' and a.name.endswith('::abs'):
        sym = True
        inner = a.args[0]
    if inner.kind == 'bin' and inner.name == 'Sub':
        l, r = inner.args
        lp = [p for p in l.places() if p.root == ('param', 1)]
        rp = [p for p in r.places() if p.root == ('param', 2)]
        lp2 = [p for p in l.places() if p.root == ('param', 2)]
        rp2 = [p for p in r.places() if p.root == ('param', 1)]
        for x, y in ((lp, rp), (lp2, rp2)):
            if x and y and x[0].fields and x[0].fields[:1] == y[0].fields[:1]:
                return x[0].fields[0], sym
    return None, sym


DEPS = {
    ('<utils::bbox::Universal2DBox as std::convert::From>::from', True): (
        'utils::bbox::Universal2DBox::Universal2DBox', {
            'xc': {'left', 'width'}, 'yc': {'top', 'height'}, 'aspect': {'width', 'height'}, 'height': {'height'},
            'confidence': {'confidence'}}),
    ('<utils::bbox::BoundingBox as std::convert::TryFrom>::try_from', True): (
        'utils::bbox::BoundingBox::BoundingBox', {
            'left': {'xc', 'aspect', 'height'}, 'top': {'yc', 'height'}, 'width': {'aspect', 'height'},
            'height': {'height'}, 'confidence': {'confidence'}}),
}


def conversions(ctx):
    """R19.2 dependency-set wiring of the two box conversions: every field of the result depends on exactly the
    documented fields of the source (a necessary condition of the round trip; formulas themselves are not frozen)"""
    R = 'R19.2'
    ctx.rule(R, 'conversion wiring: each result field depends on exactly the documented source fields')
    n = 0
    def pick(path, by_ref):
        bs = ctx.anchor(R, path, multi=True)
        bs = [x for x in bs if x.locals[1].startswith('&') == by_ref and ('BoundingBox' in x.locals[1] or
                                                                          'Universal2DBox' in x.locals[1])]
        if len(bs) != 1:
            ctx.fail(R, path, 'ANCHOR-MISSING', 'expected one %s conversion %s, found %d' % (
                'by-reference' if by_ref else 'by-value', path, len(bs)))
            return None
        return bs[0]

    for (path, by_ref), (agg, deps) in DEPS.items():
        b = pick(path, by_ref)
        if b is None:
            continue
        e = ExprBuilder(b).place(0, ())
        aggs = [x for x in e.walk() if x.kind == 'agg' and x.name == agg]
        if not aggs:
            ctx.note(R, '%s does not build its result as a struct literal; wiring clause not armed' % path)
            # still require confidence to flow
            n += 1
            ctx.check(e.has_field('confidence'), R, b, 'confidence-flows', repr(e)[:120],
                      'the converted box does not carry the confidence of the source box: %r' % e)
            continue
        for a in aggs:
            m = dict(zip(a.extra['fields'], a.args))
            for f, want in deps.items():
                got = set()
                for p in m[f].places():
                    if p.root == ('param', 1) and p.fields:
                        got.add(p.fields[0])
                n += 1
                ctx.check(got == want, R, b, 'field:%s<-%s' % (f, sorted(want)), 'depends on %s' % sorted(got),
                          'result field `%s` is computed from source fields %s (expected exactly %s): the '
                          'conversion round trip cannot return the same box' % (f, sorted(got), sorted(want)))
    # by-value conversions delegate to the by-reference ones
    for path, callee in (('<utils::bbox::Universal2DBox as std::convert::From>::from', 'from'),
                         ('<utils::bbox::BoundingBox as std::convert::TryFrom>::try_from', 'try_from'),
                         ('utils::bbox::BoundingBox::as_xyaah', 'from')):
        b = pick(path, False) if '<' in path else ctx.anchor(R, path)
        if b is None:
            continue
        e = ExprBuilder(b).place(0, ())
        n += 1
        ok = e.kind == 'call' and (e.has_call(callee) or e.has_call('into')) and e.has_place(root=('param', 1))
        ctx.check(ok, R, b, 'delegates', repr(e)[:100], 'the by-value conversion does not delegate to the by-reference '
                  'conversion of its argument: %r' % e)
    ctx.floor(R, n, 9)


GEOM = ('xc', 'yc', 'angle', 'aspect', 'height')
UNIV_DEPS = {'xc': {'left', 'width'}, 'yc': {'top', 'height'}, 'aspect': {'width', 'height'}, 'height': {'height'}}
IDENT_DEPS = {'left': {'left'}, 'top': {'top'}, 'width': {'width'}, 'height': {'height'}}


def ltwh_constructors(ctx):
    """R19.4 the ltwh entry points of Universal2DBox: whatever they call, every named geometry input of the callee
    (left/top/width/height of a BoundingBox constructor, or xc/yc/aspect/height of a Universal2DBox constructor) is
    fed from exactly the like-named / documented parameters of the entry point."""
    import wiring
    R = 'R19.4'
    ctx.rule(R, 'ltwh constructors: named geometry inputs are fed from the documented parameters')
    F = ctx.F
    n = 0
    for name in ('ltwh', 'ltwh_with_confidence'):
        b = ctx.anchor(R, 'utils::bbox::Universal2DBox::' + name)
        if b is None:
            continue
        pn = wiring.param_names(b)
        if not {'left', 'top', 'width', 'height'} <= set(pn.values()):
            ctx.fail(R, b, 'ANCHOR-MISSING:params', 'parameters of %s are no longer (left, top, width, height, ..)' % name)
            continue
        eb = ExprBuilder(b)
        found = False
        for c in b.find_calls():
            cbs = F.get(c.callee) or (F.get(c.res) if c.res else [])
            if len(cbs) != 1:
                continue
            cp = wiring.param_names(cbs[0])
            names = set(cp.values())
            table = IDENT_DEPS if {'left', 'top', 'width'} <= names else UNIV_DEPS if {'xc', 'yc', 'aspect'} <= names \
                else None
            if table is None:
                continue
            found = True
            for k, pname in cp.items():
                if pname not in table or k - 1 >= len(c.args):
                    continue
                a = eb.arg(c, k - 1)
                got = {pn[p.root[1]] for p in a.places() if p.root[0] == 'param' and p.root[1] in pn}
                n += 1
                ctx.check(got == table[pname], R, b, '%s:%s<-%s' % (name, pname, sorted(table[pname])),
                          'reads %s' % sorted(got),
                          '%s passes %r as `%s` of %s: it depends on %s (expected exactly %s); the box built is not the '
                          'given left-top-width-height box' % (name, a, pname, c.callee.rsplit('::', 1)[-1],
                                                                 sorted(got), sorted(table[pname])), c.ln)
        if not found:
            # struct literal form
            e = eb.place(0, ())
            aggs = [x for x in e.walk() if x.kind == 'agg' and x.name.endswith('Universal2DBox')]
            for a in aggs:
                m = dict(zip(a.extra['fields'], a.args))
                for f, want in UNIV_DEPS.items():
                    got = {pn[p.root[1]] for p in m[f].places() if p.root[0] == 'param' and p.root[1] in pn}
                    n += 1
                    found = True
                    ctx.check(got == want, R, b, '%s:%s<-%s' % (name, f, sorted(want)), 'reads %s' % sorted(got),
                              '%s computes `%s` from %s (expected exactly %s)' % (name, f, sorted(got), sorted(want)))
        if not found:
            ctx.fail(R, b, name + ':shape', 'ANCHOR-MISSING: %s neither calls a named box constructor nor builds the '
                     'box as a struct literal' % name)
    ctx.floor(R, n, 8)


def vertex_cache(ctx):
    """R19.5 the cached polygon never outlives the geometry it was computed from (inside the library):
    (a) a struct literal of Universal2DBox sets `_vertex_cache` to None, or copies it together with ALL geometry
        fields, unchanged, from one and the same source box;
    (b) a method of Universal2DBox that assigns a geometry field through `&mut self` also assigns `_vertex_cache`
        on every path from that write to its return."""
    import wiring
    from lib import count_on_paths
    R = 'R19.5'
    ctx.rule(R, 'vertex cache freshness: struct literals and &mut self geometry writes reset (or recompute) the cache')
    F = ctx.F
    n = 0
    for b in F.all_bodies():
        if wiring.skip_body(b):
            continue
        eb = None
        writes, resets = [], []
        for i in sorted(b.live_blocks()):
            for si, s in enumerate(b.blocks[i]['st']):
                if s['k'] != 'assign':
                    continue
                rv = s['rv']
                if rv['k'] == 'agg' and rv.get('ak') == 'adt' and norm_(rv.get('adt', '')).endswith('bbox::Universal2DBox') \
                        and '_vertex_cache' in rv.get('fields', []):
                    eb = eb or ExprBuilder(b)
                    m = {f: eb.operand(op, at=(i, si)) for f, op in zip(rv['fields'], rv['ops'])}
                    c = m['_vertex_cache']
                    cs = c.strip()
                    ok = cs.kind == 'agg' and cs.name.endswith('None')
                    detail = 'None'
                    if not ok:
                        src = [p for p in c.places() if p.fields[-1:] == ('_vertex_cache',)]
                        detail = repr(c)
                        if len(src) == 1:
                            base = (src[0].root, src[0].fields[:-1])
                            ok = all(m[g].strip().kind == 'place' and (m[g].strip().root, m[g].strip().fields) ==
                                     (base[0], base[1] + (g,)) for g in GEOM)
                    n += 1
                    ctx.read(b)
                    ctx.check(ok, R, b, 'literal:cache-none-or-geometry-unchanged', detail,
                              'a Universal2DBox is built with `_vertex_cache` = %s while its geometry is not copied '
                              'unchanged from the same box: the cached polygon belongs to another geometry' % detail,
                              s['ln'])
                fl = [p.get('n') for p in s['lhs']['p'] if isinstance(p, dict) and p.get('n')]
                adts = [p.get('adt') for p in s['lhs']['p'] if isinstance(p, dict) and p.get('n')]
                if fl and s['lhs']['l'] == 1 and norm_(b.d.get('impl_self', '')).endswith('bbox::Universal2DBox') and \
                        (adts[0] or '').endswith('Universal2DBox'):
                    if fl[0] in GEOM:
                        writes.append((i, fl[0], s['ln']))
                    elif fl[0] == '_vertex_cache':
                        resets.append(i)
        # a function that COMPUTES the cache does so from the current geometry whatever the cache held before: its
        # write is not conditioned on the old cache (otherwise a second gen_vertices() after a field edit is a no-op)
        if resets and not writes and norm_(b.d.get('impl_self', '')).endswith('bbox::Universal2DBox'):
            for i in sorted(set(resets)):
                computed = False
                for s_ in b.blocks[i]['st']:
                    if s_['k'] == 'assign' and s_['lhs']['l'] == 1 and any(
                            isinstance(p_, dict) and p_.get('n') == '_vertex_cache' for p_ in s_['lhs']['p']):
                        eb = eb or ExprBuilder(b)
                        v = eb._rvalue(s_['rv'], (), 0, (i, 0))
                        computed = computed or any(x.kind == 'call' for x in v.walk())
                if not computed:
                    continue
                stale_guard = [str(c) for c in path_conditions(b, i)
                               if c.expr is not None and c.expr.has_field('_vertex_cache')]
                n += 1
                ctx.read(b)
                ctx.check(not stale_guard, R, b, 'cache-computed-regardless-of-old-cache', '',
                          '%s recomputes the cached polygon only when %s: after the geometry of a box was edited the '
                          'stale polygon is kept' % (b.npath.rsplit('::', 1)[-1], stale_guard))
        for i, f, ln in writes:
            r = count_on_paths(b, i, b.returns(), resets)
            n += 1
            ctx.read(b)
            ctx.check(r is not None and r[0] >= 1, R, b, 'write:%s-resets-cache' % f, str(r),
                      '%s assigns `%s` of an existing box but leaves `_vertex_cache` untouched on some path: '
                      'get_cached_vertices() / sutherland_hodgman_clip() keep using the polygon of the old geometry'
                      % (b.npath.rsplit('::', 1)[-1], f), ln)
    ctx.floor(R, n, 5)


def angle_rule(ctx):
    """R19.7 normalize_angle can only map EVERY angle into one turn if it removes whole turns: a division based
    reduction (floor / rem_euclid / % / trunc / round) or a loop. A fixed number of conditional +-2pi steps is piecewise
    affine with finitely many pieces and leaves large angles outside the range."""
    R = 'R19.7'
    ctx.rule(R, 'normalize_angle removes whole turns (division-based reduction or a loop)')
    b = ctx.anchor(R, 'utils::bbox::normalize_angle')
    if b is None:
        return
    red = [c.name for c in b.find_calls() if c.name in ('floor', 'rem_euclid', 'trunc', 'round', 'ceil', 'div_euclid',
                                                          'fract')]
    rem = []
    for i in sorted(b.live_blocks()):
        for s_ in b.blocks[i]['st']:
            if s_['k'] == 'assign' and s_['rv']['k'] == 'bin' and s_['rv']['op'] == 'Rem':
                rem.append('%')
    loops = bool(b.loops())
    ctx.check(bool(red or rem or loops), R, b, 'whole-turn-reduction', str(red + rem + (['loop'] if loops else [])),
              'normalize_angle contains neither a division-based reduction (floor, rem_euclid, %, trunc, round) nor a '
              'loop: angles more than one turn outside [0, 2*pi) are not mapped into the range')
    e = ExprBuilder(b).place(0, ())
    ctx.check(e.has_place(root=('param', 1)), R, b, 'depends-on-the-angle', repr(e)[:100],
              'the normalised angle does not depend on the argument')
    ctx.floor(R, 2, 2)


def formula_rules(ctx):
    """R19.8 / R19.9 exact formulas (rules/geomlib.py, rational-function normal form): evaluated only where the code is
    straight-line arithmetic; other shapes are noted and left to R19.2 / R19.4"""
    import geomlib
    ctx.rule('R19.8', 'polygon = rectangle (+-h*a/2, +-h/2) rotated by +angle about (xc, yc) in boundary order; '
                      'area() = width*height; get_radius() = centre-to-corner distance (polynomial identities)')
    n = geomlib.polygon_rule(ctx, 'R19.8')
    n += geomlib.measures_rule(ctx, 'R19.8')
    ctx.evaluated('R19.8', n, 3)
    ctx.rule('R19.9', 'ltwh -> universal -> ltwh is the identity on left, top, width, height, confidence '
                      '(composition of the two conversions as rational functions)')
    ctx.evaluated('R19.9', geomlib.roundtrip_rule(ctx, 'R19.9'), 6)
    ctx.rule('R19.11', 'the constructors of the rotated box store what the caller passed (new / new_with_confidence: every '
                       'parameter; rotate / rotate_mut: the angle) - no arithmetic between the argument and the field')
    ctx.evaluated('R19.11', geomlib.stored_unchanged_rule(ctx, 'R19.11'), 13)


def run(ctx):
    from props import C07
    ctx.rule('R19.10', 'the filter state is one more representation of a box: what goes in (initiate / update / distance) is '
                       'the plain coordinates, in the order the state -> box conversion reads them back')
    ctx.evaluated('R19.10', C07.measurement_rule(ctx, 'R19.10'), 42)
    angle_rule(ctx)
    formula_rules(ctx)
    _ownership(ctx)
    _wiring(ctx)
    conversions(ctx)
    ltwh_constructors(ctx)
    vertex_cache(ctx)
    R = 'R19.1'
    ctx.rule(R, "every necessary condition of eq()==true has the form abs(self.f - other.f) < EPS; required fields covered")
    n = 0
    for path, req in REQUIRED.items():
        body = ctx.anchor(R, path)
        if body is None:
            continue
        covered = None
        defs = [d for d in result_assignments(body) if not (d[1] == 'const' and d[2] is False)]
        if not defs:
            ctx.fail(R, body, 'result', 'eq never returns a non-false value')
            continue
        from lib import expand_conditions
        defs2 = []
        for bb, kind, payload in defs:
            # named booleans (`let moved = !same_x || !same_y; if moved { return false }`) are unfolded into the
            # comparisons that made them; every unfolded variant is one way of returning true
            for cv in expand_conditions(body, path_conditions(body, bb)):
                defs2.append((bb, kind, payload, cv))
        for bb, kind, payload, cv in defs2:
            facts = []
            for c in cv:
                cm = c.cmp()
                if cm:
                    facts.append((cm, c.ln))
            if kind == 'expr':
                cm = as_cmp(payload, True)
                if cm:
                    facts.append((cm, body.blocks[bb]['st'][-1].get('ln', '') if body.blocks[bb]['st'] else ''))
                else:
                    # `[(a, b), ..].into_iter().all(|(x, y)| (x - y).abs() < EPS)`: one comparison per listed pair
                    from lib import unroll_all
                    un = unroll_all(ctx.F, body, payload)
                    for el in un or []:
                        for cm2 in el.values():
                            facts.append((cm2, body.blocks[bb]['t'].get('ln', '')))
            here = set()
            for cm, ln in facts:
                o = orient(cm, lambda e: not is_eps(e))
                if o is None or not is_eps(o[2]):
                    continue
                op, a, _ = o
                field, sym = classify(op, a)
                if field is None:
                    ctx.note(R, 'unclassified EPS comparison %r at %s' % (a, ln))
                    continue
                n += 1
                inst = 'field:' + field
                if op not in ('Lt', 'Le'):
                    ctx.fail(R, body, inst, 'tolerance comparison for `%s` has operator %s (expected < or <=)' % (field, op), ln)
                elif not sym:
                    ctx.fail(R, body, inst, 'difference of `%s` is compared without abs(): %r %s EPS is not symmetric '
                             'and accepts arbitrarily large negative differences' % (field, a, op), ln)
                else:
                    ctx.ok(R, body, inst, '%r %s EPS' % (a, op), ln)
                    here.add(field)
            covered = here if covered is None else (covered & here)
        for f in req:
            ctx.check(f in (covered or set()), R, body, 'covers:' + f,
                      'coordinate `%s` is a necessary symmetric-tolerance conjunct of equality' % f,
                      'equality can return true without a symmetric |Δ%s| < EPS test (coordinate not compared, '
                      'or only on some paths, or combined with ||)' % f)
    ctx.floor(R, n, 9)


def _wiring(ctx):
    """name-agreement wiring of the configuration values this property depends on (rules/wiring.py)"""
    import wiring
    ctx.rule('R19.3', 'configuration plumbing: same-named fields / parameters / setters / call arguments are not crossed')
    ctx.floor('R19.3', wiring.run(ctx, 'R19.3', {'xc', 'yc', 'angle', 'aspect', 'height', 'confidence', 'left', 'top', 'width'}), 70)


def _ownership(ctx):
    """who-may-write rows of rules/ownership.py that concern this property"""
    import ownership
    ctx.rule('R19.6', 'who-may-write: state this property depends on is changed only by its owners (rules/ownership.py)')
    ctx.floor('R19.6', ownership.run(ctx, 'R19.6', 'C19'), 2)
