"""C09 — track store is a faithful id->track map and reports merge failures."""
import storelib as S
from lib import Cond, ExprBuilder, necessary_edges, path_conditions, result_assignments, closure_args_of_call
from linear import destroyed
from mir import norm

EXPLANATION = (
    "Store discipline decided on MIR: (R09.1) every message received from a store worker is discriminated and, for "
    "merges, the worker's Result reaches the caller's return value; (R09.2) the worker never fabricates a successful "
    "MergeResult; (R09.3) HashMap::insert into a shard is reachable only on the 'id absent' side of a presence test, "
    "the other side returning DuplicateTrackId; (R09.4) fetch_tracks removes from the shard selected by the same id; "
    "(R09.5) TrackStore::add reaches Track::add_observation on both arms (directly / through TrackBuilder::build); "
    "(R09.6) linear use of the fetched source track in merge_owned (never destroyed on a normal path); (R09.7) "
    "shard-index discipline and merge routing; (R09.8) predicate senses in the worker's Lookup / FindBaked arms, whole "
    "iteration in clear / shard_stats."
    ' (R09.9) lookups and usable-track scans are answered by the shard workers, one command and one answer per worker; (R09.10) who-may-change-membership: only add_track / add insert into, fetch_tracks removes from and clear empties a shard map (a worker arm that takes a track out of its shard and puts it back is reported); R09.4 also requires that fetch_tracks examines every requested id (the removal loop ranges over the whole `tracks` parameter through no bounding adaptor).'
    ' (R09.11) no Merge / Lookup / Distances arm can end a shard worker; R09.8 also requires that clear / shard_stats visit every shard (no short-circuiting adaptor); (R09.12) the restore-on-error clause of C11 for Track::merge / add_observation (a failed merge leaves the destination as it was).')
EXPLANATION += " (R09.13) every command with a reply sender carries the sending end of a channel created by that call; (R09.14) the class list of Commands::Merge is a plain copy of the caller's list, empty only when None was passed."
NOT_DECIDED = ["refinement against a sequential map model for arbitrary user callbacks",
               "behaviour when a worker thread panics"]
ASSUMPTIONS = ["std HashMap / crossbeam channels behave as documented", "panics out of scope",
               "rustc nightly MIR construction"]


def run(ctx):
    _wiring(ctx)
    F = ctx.F
    r1(ctx)
    r2(ctx)
    r3(ctx)
    r4(ctx)
    r5(ctx)
    r6(ctx)
    n = S.rule_shard_index(ctx, 'R09.7')
    n += S.rule_merge_routing(ctx, 'R09.7')
    ctx.rule('R09.7', 'stores/executors indexed only by id % num_shards; Merge routed to the destination owner')
    ctx.floor('R09.7', n, 7)
    r8(ctx)
    r9(ctx)
    r10(ctx)
    ctx.rule('R09.11', 'the shard workers keep serving: no Merge / Lookup / Distances arm ends the worker thread')
    ctx.floor('R09.11', S.rule_worker_keeps_serving(ctx, 'R09.11'), 3)
    ctx.rule('R09.13', 'every command with a reply sender carries the sending end of a channel created by that call (no reply '
                       'channel shared between calls: concurrent lookups would take each other\'s replies)')
    ctx.evaluated('R09.13', S.rule_reply_channels_per_call(ctx, 'R09.13'), 5)
    ctx.rule('R09.14', 'the class list sent with Commands::Merge is a plain copy of the caller\'s list; empty (= all classes) only '
                       'when the caller passed None')
    ctx.evaluated('R09.14', S.rule_merge_classes_verbatim(ctx, 'R09.14'), 2)
    # a failed merge leaves the destination as it was (clause of C11, run here because C09 states "reports failure ...
    # rather than success" and "changes only the destination")
    from props import C11
    ctx.rule('R09.12', 'Track::merge / add_observation restore attributes, observations, metric and history on every error exit')
    C11.restore_rules(ctx, 'R09.12')


SHORT_CIRCUIT = ('any', 'all', 'find', 'find_map', 'position', 'rposition', 'take_while', 'skip_while', 'map_while', 'take',
                 'skip', 'step_by', 'nth', 'last', 'min_by_key', 'max_by_key')
DROPPING = ('take', 'skip', 'take_while', 'skip_while', 'map_while', 'step_by', 'filter', 'rev', 'dedup', 'dedup_by_key',
            'unique', 'nth', 'last', 'first', 'get', 'split_at', 'split_first', 'split_last', 'chunks', 'windows',
            'truncate', 'retain', 'drain', 'sort', 'sort_unstable', 'pop', 'binary_search')


def r9(ctx):
    """R09.9 the scans and lookups are answered by the shard workers, one command per worker and one answer read per
    worker: a lookup that reads the shards from the calling thread overtakes queued merges (and the per-shard FIFO
    order that makes `merge_external_noblock; lookup` see the merged track is lost).  Shares the response-protocol
    rules of C05 / C10."""
    ctx.rule('R09.9', 'lookups / usable-track scans go through the shard workers: one command and one answer per worker')
    n = S.rule_exactly_once_responses(ctx, 'R09.9')
    n += S.rule_fanout(ctx, 'R09.9')
    ctx.floor('R09.9', n, 14)


# which store functions may change the key set of a shard map (HashMap<u64, Track<..>>), by operation
MEMBERSHIP = {
    'remove': ('TrackStore::fetch_tracks',),
    'remove_entry': ('TrackStore::fetch_tracks',),
    'insert': ('TrackStore::add_track', 'TrackStore::add'),
    'try_insert': ('TrackStore::add_track', 'TrackStore::add'),
    'entry': ('TrackStore::add_track', 'TrackStore::add'),
    'clear': ('TrackStore::clear',),
    'drain': ('TrackStore::clear', 'TrackStore::fetch_tracks'),
    'retain': (),
    'extract_if': (),
    'extend': (),
}


def r10(ctx, R='R09.10'):
    """R09.10 a stored track stays stored until it is fetched or the store is cleared: the key set of a shard map is
    changed only by add_track / add (insert), fetch_tracks (remove) and clear.  A worker arm or any other function
    that takes a track out of its shard - even to put it back a moment later - makes it invisible to fetches, scans,
    counts and the duplicate-id test in between."""
    import ownership
    import wiring
    ctx.rule(R, 'who-may-change-membership: only add_track/add insert into, fetch_tracks removes from, clear empties a shard map')
    F = ctx.F
    callers = F.callers()
    sites = {}
    for b in F.all_bodies():
        if wiring.skip_body(b):
            continue
        for c in b.find_calls():
            if c.name in MEMBERSHIP and 'HashMap' in c.callee and c.args and c.args[0]['k'] in ('copy', 'move'):
                ty = b.locals[c.args[0]['pl']['l']]
                if 'HashMap<u64, track::Track<' in ty.replace('std::collections::', '').replace('hash_map::', ''):
                    sites.setdefault((ownership.root_fn(b), c.name), []).append(c)
                    ctx.read(b)
    n = 0
    for (f, op), cs in sorted(sites.items()):
        allowed = {g for (g, o) in sites if o == op and any(g.endswith(s_) for s_ in MEMBERSHIP[op])}
        ok = f in allowed
        if not ok:
            # a private helper all of whose callers are owners of this operation is an owner
            seen, todo, ok = set(), [f], True
            while todo and ok:
                g = todo.pop()
                if g in seen:
                    continue
                seen.add(g)
                cl = {ownership.root_fn(cb) for cb, _ in callers.get(g, []) if not wiring.skip_body(cb)}
                if not cl:
                    ok = False
                for h in cl:
                    if not any(h.endswith(s_) for s_ in MEMBERSHIP[op]):
                        if F.is_new_helper(h) if hasattr(F, 'is_new_helper') else False:
                            todo.append(h)
                        else:
                            ok = False
        n += 1
        b0 = (F.get(f) or [None])[0]
        ctx.check(ok, R, b0 or f, 'membership:%s<-%s' % (op, f.rsplit('::', 1)[-1]), 'owner of ' + op,
                  '%s calls HashMap::%s on a shard map but is not one of the functions that may change which tracks a '
                  'shard holds (%s: %s): between this call and its counterpart the track is missing from fetches, scans, '
                  'per-shard counts and the duplicate-id test' % (f, op, op, list(MEMBERSHIP[op]) or 'nobody'), cs[0].ln)
    ctx.floor(R, n, 4)


def r1(ctx):
    R = 'R09.1'
    ctx.rule(R, 'every Receiver<Results>::recv result is discriminated; merge result flows to the caller')
    F = ctx.F
    n = 0
    for b in F.fn_bodies():
        if not (b.npath.startswith('track::store') or b.npath.startswith('<track::store')):
            continue
        recvs = [c for c in b.find_calls(S.RECV) if 'track::store::Results' in b.locals[c.dest['l']]]
        if not recvs:
            continue
        if F.seen_inlined(b.npath):
            # a helper introduced by a refactoring: judged inlined in its callers (with the arguments they pass)
            continue
        ctx.read(b)
        eb = ExprBuilder(b)
        for c in recvs:
            n += 1
            # is there a switch on the discriminant of the received Results value?
            found = None
            for x in sorted(b.live_blocks()):
                t = b.blocks[x]['t']
                if t['k'] != 'switch':
                    continue
                e = eb.operand(t['discr'])
                if e.kind == 'discr' and 'track::store::Results' in e.extra['ty']:
                    inner = e.args[0]
                    if any(y.kind == 'call' and y.extra is c for y in inner.walk()):
                        found = x
            if found is None:
                # payload handed whole to a crate-local callee that discriminates it
                from lib import local_callee_bodies
                for c2 in b.find_calls():
                    if c2 is c or not any(any(y.kind == 'call' and y.extra is c for y in eb.operand(a).walk())
                                          for a in c2.args):
                        continue
                    cbs = local_callee_bodies(F, c2)
                    okc = bool(cbs)
                    for cb in cbs:
                        ebc = ExprBuilder(cb)
                        has = False
                        for x in sorted(cb.live_blocks()):
                            t = cb.blocks[x]['t']
                            if t['k'] == 'switch':
                                e = ebc.operand(t['discr'])
                                if e.kind == 'discr' and 'track::store::Results' in e.extra['ty']:
                                    has = True
                        okc = okc and has
                    if okc:
                        found = 'callee %s' % c2.callee
            ctx.check(found is not None, R, b, 'recv-discriminated', 'payload discriminated at bb%s' % found,
                      'the message received from the store worker is never inspected: its payload (e.g. a failed '
                      'merge) is dropped and the caller cannot tell success from failure', c.ln)
    ctx.floor(R, n, 6)
    g = ctx.anchor(R, 'track::store::FutureMergeResponse::get')
    if g is not None:
        e = ExprBuilder(g).place(0, ())
        alts = e.args if e.kind == 'phi' else [e]
        flows = any(any(y.kind == 'call' and y.name == S.RECV for y in a.walk()) and 'MergeResult' in repr(a.proj) + repr(a)
                    for a in alts)
        # every non-`?` alternative must come from the received value
        fabricated = [a for a in alts if a.kind == 'agg' and a.name.endswith('Result::Ok')]
        ctx.check(flows and not fabricated, R, g, 'get:returns-worker-result', 'return value = %r' % e,
                  'FutureMergeResponse::get returns %r: the Result sent by the worker does not reach the caller '
                  '(success is fabricated)' % e)


def r2(ctx):
    R = 'R09.2'
    ctx.rule(R, 'Results::MergeResult payload originates from Track::merge or an Err aggregate, never a local Ok(())')
    w = ctx.anchor(R, S.WORKER)
    if w is None:
        return
    eb = ExprBuilder(w)
    n = 0
    for i in sorted(w.live_blocks()):
        for si, s in enumerate(w.blocks[i]['st']):
            rv = s.get('rv')
            if s['k'] == 'assign' and rv['k'] == 'agg' and rv['ak'] == 'adt' and norm(rv['adt']) == \
                    'track::store::Results' and rv['v'] == 'MergeResult':
                e = eb.operand(rv['ops'][0])
                alts = []

                def flat(x):
                    if x.kind == 'phi':
                        for y in x.args:
                            flat(y)
                    else:
                        alts.append(x)
                flat(e)
                n += 1
                fab = [a for a in alts if a.kind == 'agg' and a.name.endswith('Result::Ok')]
                merges = [a for a in alts if a.kind == 'call' and a.name.endswith('Track::merge')]
                errs = [a for a in alts if a.kind == 'agg' and a.name.endswith('Result::Err')]
                ctx.check(not fab and merges and len(merges) + len(errs) == len(alts), R, w, 'merge-result-origin',
                          'payload alternatives: %s' % alts,
                          'the worker reports %s as merge result: success can be reported without/independently of '
                          'Track::merge' % alts, s['ln'])
                # each Err alternative must be one of the documented failures
                names = set()
                for a in errs:
                    for y in a.walk():
                        if y.kind == 'agg' and y.name.startswith('Errors::'):
                            names.add(y.name.split('::')[-1])
                ctx.check({'TrackNotFound', 'SameTrackCalculation'} <= names, R, w, 'merge-failure-kinds',
                          'explicit failures: %s' % sorted(names),
                          'the worker no longer reports missing destination / same-track merges as failures (found %s)'
                          % sorted(names), s['ln'])
    ctx.floor(R, n, 1)
    # same-track guard: Track::merge only on dest_id != src.track_id side and destination found
    for c in w.find_calls('track::Track::merge'):
        from lib import expand_conditions
        ne = some = True
        for conds in expand_conditions(w, path_conditions(w, c.bb)):
            ne1 = some1 = False
            for k in conds:
                cm = k.cmp()
                if cm and cm[0] == 'Ne':
                    ne1 = True
                if k.kind == 'discr' and k.variants == {'Some'}:
                    some1 = True
            ne, some = ne and ne1, some and some1
        ctx.check(ne and some, R, w, 'merge-guards', 'destination present and dest_id != src.track_id',
                  'Track::merge is reachable in the worker without the destination-present / different-track guards',
                  c.ln)


ABSENT_BOOL = {'is_none': True, 'is_some': False, 'contains_key': False}


def absent_guard(body, bb):
    for k in path_conditions(body, bb):
        if k.kind == 'bool' and k.truth is not None and k.expr.kind == 'call':
            nm = k.expr.name.rsplit('::', 1)[-1]
            if nm in ABSENT_BOOL and ABSENT_BOOL[nm] == k.truth:
                return True
        if k.kind == 'discr' and (k.variants == {'None'} or k.variants == {'Vacant'}):
            if any(y.kind == 'call' and y.name.rsplit('::', 1)[-1] in ('get', 'get_mut', 'entry') for y in
                   k.expr.walk()) or k.variants == {'Vacant'}:
                return True
    return False


def r3(ctx):
    R = 'R09.3'
    ctx.rule(R, 'insert into a shard only on the id-absent side; duplicate ids rejected with DuplicateTrackId')
    n = 0
    for name in ('add_track', 'add'):
        b = ctx.anchor(R, S.STORE + '::' + name)
        if b is None:
            continue
        ins = b.find_calls('std::collections::HashMap::insert', 'std::collections::hash_map::VacantEntry::insert',
                           'std::collections::hash_map::Entry::or_insert',
                           'std::collections::hash_map::Entry::or_insert_with')
        for c in ins:
            n += 1
            ctx.check(absent_guard(b, c.bb) or c.name.startswith('or_insert'), R, b, '%s:insert-guarded-by-absence' % name,
                      'insert only when the id is absent',
                      'HashMap::insert is reachable without a test that the id is absent: an existing track can be '
                      'silently replaced', c.ln)
        if name == 'add_track':
            if not ins:
                ctx.fail(R, b, 'add_track:insert', 'ANCHOR-MISSING: add_track does not insert')
            eb = ExprBuilder(b)
            e = eb.place(0, ())
            dup = any(y.kind == 'agg' and y.name == 'Errors::DuplicateTrackId' for y in e.walk())
            ctx.check(dup, R, b, 'add_track:duplicate-error', 'returns Errors::DuplicateTrackId',
                      'add_track no longer returns DuplicateTrackId for an existing id')
            # key of insert = id of the inserted track = id used for the shard
            for c in ins:
                if 'VacantEntry' in c.callee or 'Entry::' in c.callee:
                    ent = eb.arg(c, 0)
                    ec = ent.calls('entry')
                    k = ec[0].args[1] if ec else ent
                    v = eb.arg(c, 1)
                else:
                    k = eb.operand(c.args[1])
                    v = eb.operand(c.args[2])
                same = k.has_place(root=('param', 2), field='track_id') and v.strip().kind == 'place' and \
                    v.strip().root == ('param', 2)
                ctx.check(same, R, b, 'add_track:key-is-track-id', 'insert(track.track_id, track)',
                          'the track is inserted under key %r' % k, c.ln)
                gs = b.find_calls(S.STORE + '::get_store')
                ok = any(eb.operand(g.args[1]).has_place(root=('param', 2), field='track_id') for g in gs)
                ctx.check(ok, R, b, 'add_track:shard-of-track-id', 'get_store(track_id)',
                          'add_track does not select the shard by the id of the added track')
    ctx.floor(R, n, 2)


def r4(ctx):
    R = 'R09.4'
    ctx.rule(R, 'fetch_tracks removes each requested id from the shard chosen by that id and returns what it removed')
    b = ctx.anchor(R, S.STORE + '::fetch_tracks')
    if b is None:
        return
    from lib import deep_calls, deep_arg, closure_of_adaptor
    eb = ExprBuilder(b)
    rem = deep_calls(ctx.F, b, 'std::collections::HashMap::remove')
    ctx.check(len(rem) >= 1, R, b, 'removes', '%d remove site(s)' % len(rem),
              'fetch_tracks does not remove the fetched tracks from the shard (a lookup/clone leaves them stored)')
    for owner, c in rem:
        ebo = ExprBuilder(owner)
        recv = ebo.arg(c, 0)
        key = ebo.arg(c, 1).strip()
        gs = [y for y in recv.walk() if y.kind == 'call' and y.name.endswith('get_store')]
        ok = bool(gs) and repr(gs[0].args[1].strip()) == repr(key)
        ctx.check(ok, R, b, 'remove:same-id-selects-shard', 'get_store(%r).remove(%r)' % (gs[0].args[1] if gs else None, key),
                  'remove(%r) operates on %r: shard and key are not derived from the same id' % (key, recv), c.ln)
        # removed value reaches the result: pushed to the returned vector, or returned by a filter_map/flat_map closure
        ok = False
        if owner is b:
            for p in b.find_calls('std::vec::Vec::push', 'std::iter::Extend::extend', 'std::vec::Vec::extend',
                                  'std::vec::Vec::insert'):
                # (`vec.extend(option)` appends the value when there is one)
                v = eb.operand(p.args[-1])
                if any(y.kind == 'call' and y.extra is c for y in v.walk()):
                    ok = True
        else:
            ret = ebo.place(0, ())
            pb, ac = closure_of_adaptor(ctx.F, b, owner)
            ok = any(y.kind == 'call' and y.extra is c for y in ret.walk()) and ac is not None and ac.name in (
                'filter_map', 'flat_map', 'map') and eb.place(0, ()).has_call('collect')
        ctx.check(ok, R, b, 'removed-track-returned', 'removed track reaches the returned vector',
                  'a removed track is not added to the returned vector', c.ln)
    dd = destroyed(b, r'^(std::option::Option<)?track::Track<')
    ctx.check(not dd, R, b, 'no-track-destroyed', '', 'a removed track can be destroyed: %s' % dd)
    # every requested id is examined: what the fetch iterates is the `tracks` parameter itself, through no adaptor
    # that drops, bounds or reorders elements (take(n), skip, filter, step_by, a sub-slice ...)
    from lib import iteration_context
    for owner, c in rem:
        try:
            srcs = iteration_context(ctx.F, b, owner, c.bb)
        except Exception:
            srcs = []
        srcs = [x for x in srcs if hasattr(x, 'walk')]
        if not srcs:
            ctx.note(R, 'fetch_tracks: iterated expression of the removal loop not recovered: "every id examined" not evaluated')
            continue
        bad = sorted({y.name.rsplit('::', 1)[-1] for x in srcs for y in x.walk() if y.kind == 'call' and
                      y.name.rsplit('::', 1)[-1] in DROPPING})
        whole = any(p.root == ('param', 2) and not p.fields for x in srcs for p in x.places())
        ctx.check(whole and not bad, R, b, 'every-requested-id-examined', repr(srcs)[:120],
                  'fetch_tracks iterates %r: %s - requested ids beyond / outside that range are never looked up, existing '
                  'tracks among them are not returned' % (srcs, ('through ' + ', '.join(bad)) if bad else
                                                          'not the `tracks` parameter'), c.ln)


def r5(ctx):
    R = 'R09.5'
    ctx.rule(R, 'TrackStore::add: both arms go through Track::add_observation (missing id: via TrackBuilder::build)')
    b = ctx.anchor(R, S.STORE + '::add')
    if b is None:
        return
    direct = b.find_calls('track::Track::add_observation')
    built = b.find_calls('track::builder::TrackBuilder::build')
    arms = {}
    for c in direct + built:
        for k in path_conditions(b, c.bb):
            if k.kind == 'discr' and k.variants in ({'Some'}, {'None'}):
                arms.setdefault(list(k.variants)[0], []).append(c.name)
    ctx.check('add_observation' in arms.get('Some', []), R, b, 'existing->add_observation', str(arms),
              'for an existing id TrackStore::add does not call Track::add_observation')
    ctx.check('build' in arms.get('None', []) or 'add_observation' in arms.get('None', []), R, b,
              'missing->builder', str(arms),
              'for a missing id TrackStore::add constructs the track without TrackBuilder::build / add_observation: '
              'the attribute update, optimisation, validation and notification of an externally built track are '
              'skipped')
    # the builder receives the caller's observation and the store's metric / attributes / notifier
    eb = ExprBuilder(b)
    for c in built:
        e = eb.operand(c.args[0])
        ok = e.has_call('new_track') and e.has_call('observation')
        obs = e.calls('observation')
        params_ok = False
        if obs:
            s = repr(obs[0].args[1])
            params_ok = all(('p%d' % i) in s for i in (3, 4, 5, 6))
        ctx.check(ok and params_ok, R, b, 'missing->builder:wiring', repr(e)[:200],
                  'the missing-track arm does not build new_track(track_id).observation((class, attrs, feature, '
                  'update)): %r' % e, c.ln)
    bld = ctx.anchor(R, 'track::builder::TrackBuilder::build')
    if bld is not None:
        from lib import deep_calls
        ao = deep_calls(ctx.F, bld, 'track::Track::add_observation')
        ctx.check(len(ao) >= 1, R, bld, 'build->add_observation', '', 'TrackBuilder::build no longer adds its '
                  'observations through Track::add_observation')
    nt = ctx.anchor(R, S.STORE + '::new_track')
    if nt is not None:
        e = ExprBuilder(nt).place(0, ())
        ok = all(e.has_place(root=('param', 1), field=f) for f in ('metric', 'default_attributes', 'notifier'))
        ctx.check(ok, R, nt, 'new_track:wiring', repr(e)[:200],
                  'new_track does not clone the store metric / default attributes / notifier: %r' % e)


def r6(ctx):
    S.rule_merge_owned(ctx, 'R09.6')


def r8(ctx, R='R09.8'):
    ctx.rule(R, 'worker predicate senses: Lookup reports exactly lookup(q)==true; FindBaked drops exactly Pending') if R == 'R09.8' else None
    F = ctx.F
    w = ctx.anchor(R, S.WORKER)
    if w is None:
        return
    n = 0
    # Lookup arm: the filter closure returns Track::lookup directly
    for c in w.find_calls('std::iter::Iterator::filter'):
        for cb in closure_args_of_call(F, w, c):
            ctx.read(cb)
            e = ExprBuilder(cb).place(0, ())
            n += 1
            ok = e.kind == 'call' and e.name.endswith('Track::lookup')
            ctx.check(ok, R, cb, 'lookup-filter', 'filter predicate = %r' % e,
                      'the Lookup arm filters by %r instead of lookup(q)' % e)
    # FindBaked closure: None only for Pending
    for c in w.find_calls('std::iter::Iterator::flat_map', 'std::iter::Iterator::filter_map'):
        for cb in closure_args_of_call(F, w, c):
            if not cb.find_calls('track::TrackAttributes::baked') or cb.find_calls('track::Track::distances'):
                continue
            ctx.read(cb)
            for d in cb.defs().get(0, []):
                if d[0] == 'call' and d[2].is_('std::ops::FromResidual::from_residual'):
                    n += 1
                    ctx.fail(R, cb, 'findbaked:dropped-statuses', 'the usable-track scan returns None through `?` on '
                             'the status: tracks whose status check failed (Err) are silently dropped instead of being '
                             'reported with their error', d[2].ln)
            for bb, kind, payload in [(d[1], d[3]['rv'], None) for d in cb.defs().get(0, []) if d[0] == 'assign']:
                rv = kind
                if rv['k'] == 'agg' and rv.get('v') == 'None':
                    conds = path_conditions(cb, bb)
                    lk = [k for k in conds if k.kind == 'bool' and k.expr.kind == 'call' and
                          k.expr.name.endswith('Track::lookup')]
                    if lk:
                        # the Lookup arm written as filter_map: an entry is dropped exactly when lookup(q) is false
                        n += 1
                        ctx.check(all(k.truth is False for k in lk) and not [
                            k for k in conds if k.kind == 'discr' and getattr(k, 'enum_ty', '').startswith(
                                'track::TrackStatus')], R, cb, 'lookup-filter', 'dropped iff !lookup(q)',
                            'the Lookup arm drops a track under %s instead of exactly `!lookup(q)`' % conds)
                        continue
                    vs = [k.variants for k in conds if k.kind == 'discr' and getattr(k, 'enum_ty', '').startswith('track::TrackStatus')]
                    n += 1
                    ctx.check(vs == [{'Pending'}], R, cb, 'findbaked:dropped-statuses',
                              'None returned exactly for TrackStatus::Pending',
                              'the usable-track scan drops tracks with status %s (expected exactly Pending)' % vs)
                if rv['k'] == 'agg' and rv.get('v') == 'Some':
                    conds = path_conditions(cb, bb)
                    vs = [k.variants for k in conds if k.kind == 'discr' and getattr(k, 'enum_ty', '').startswith('track::TrackStatus')]
                    if vs:
                        n += 1
                        ctx.check(all('Pending' not in v and {'Ready', 'Wasted'} <= v for v in vs), R, cb,
                                  'findbaked:reported-statuses', 'Some for %s' % vs,
                                  'the usable-track scan reports statuses %s (expected Ready and Wasted)' % vs)
    ctx.floor(R, n, 3)
    # shard access is blocking: a try_lock would report an empty / partial shard while a worker is busy
    from lib import deep_calls
    for b in F.fn_bodies():
        if b.kind == 'Closure' or not b.npath.startswith(S.STORE + '::'):
            continue
        tl = deep_calls(F, b, 'std::sync::Mutex::try_lock', 'std::sync::RwLock::try_read', 'std::sync::RwLock::try_write')
        for owner, c in tl:
            n += 1
            ctx.fail(R, b, 'blocking-shard-access:' + b.npath.rsplit('::', 1)[-1], '%s uses %s on a shard: while a '
                     'worker holds the shard the method sees it as empty / skips it, so counts and contents are wrong' % (
                         b.npath.rsplit('::', 1)[-1], c.name), c.ln)
    from lib import effective_sites, iteration_context
    for name in ('clear', 'shard_stats'):
        b = ctx.anchor(R, S.STORE + '::' + name)
        if b is None:
            continue
        eb = ExprBuilder(b)
        # the per-shard operation (HashMap::len / HashMap::clear) runs once for every shard: it sits in a loop, or in
        # the closure of a for_each / map, over self.stores as a whole
        op = 'std::collections::HashMap::len' if name == 'shard_stats' else 'std::collections::HashMap::clear'
        sites = effective_sites(F, b, op)
        idx = b.find_calls('core::slice::get', 'get_store')
        whole = False
        for site, c, o in sites:
            its = iteration_context(F, b, o, c.bb)
            whole = whole or any(e.has_place(root=('param', 1), field='stores') for e in its)
        ctx.check(whole and not idx, R, b, name + ':whole-iteration', 'iterates self.stores whole',
                  '%s does not iterate all shards' % name)
        # ... and EVERY shard is visited: the per-shard operation is not run by a short-circuiting / bounding adaptor
        # (`any`, `all`, `find`, `position`, `take_while`, `take`, `skip` ...), which stops at the first shard that
        # answers and leaves the remaining shards untouched
        short = []
        for site, c, o in sites:
            if o is not b:
                from lib import adaptor_of_closure
                pb_, ac_ = adaptor_of_closure(F, b, o)
                if ac_ is not None and ac_.name in SHORT_CIRCUIT:
                    short.append(ac_.name)
                if pb_ is not None and ac_ is not None:
                    short += [y.name.rsplit('::', 1)[-1] for y in ExprBuilder(pb_).arg(ac_, 0).walk()
                              if y.kind == 'call' and y.name.rsplit('::', 1)[-1] in SHORT_CIRCUIT]
            for e_ in iteration_context(F, b, o, c.bb):
                short += [y.name.rsplit('::', 1)[-1] for y in e_.walk() if y.kind == 'call' and
                          y.name.rsplit('::', 1)[-1] in SHORT_CIRCUIT]
        ctx.check(not short, R, b, name + ':every-shard-visited', '',
                  '%s runs its per-shard operation under %s: the iteration over the shards stops early / skips shards, '
                  'so some shards are never %s' % (name, sorted(set(short)), 'cleared' if name == 'clear' else 'counted'))
        if name == 'shard_stats':
            ok = len(sites) == 1
            if ok:
                site, c, o = sites[0]
                if o is b:
                    pushes = b.find_calls('std::vec::Vec::push')
                    ok = len(pushes) == 1 and eb.operand(pushes[0].args[1]).has_call('len')
                else:
                    # closure form: map(|s| s.lock().len()).collect() or for_each(|s| v.push(s.lock().len()))
                    ro = ExprBuilder(o).place(0, ())
                    pushes = o.find_calls('std::vec::Vec::push')
                    ok = ro.has_call('len') or (len(pushes) == 1 and ExprBuilder(o).operand(pushes[0].args[1]).has_call('len'))
            ctx.check(ok, R, b, 'shard_stats:len-per-shard', '', 'shard_stats does not report len() of every shard')
        else:
            ctx.check(bool(sites), R, b, 'clear:clears', '', 'clear does not clear the shards')


def _wiring(ctx):
    """name-agreement wiring of the configuration values this property depends on (rules/wiring.py)"""
    import wiring
    ctx.rule('R09.9', 'configuration plumbing: same-named fields / parameters / setters / call arguments are not crossed')
    ctx.floor('R09.9', wiring.run(ctx, 'R09.9', {'shards', 'metric', 'default_attributes', 'notifier'}), 20)
