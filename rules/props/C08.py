"""C08 — oriented-box intersection / IoU (partial claim: formula wiring, absence rule, pre-filter wiring)."""
from lib import ExprBuilder, path_conditions, result_assignments, orient
import props.C20 as C20
from props import C14

EXPLANATION = (
    "Only the clauses of C08 whose truth is visible in the shape of the code are decided; the exactness of the f64 "
    "geometry is NOT. (R08.1) in the three calculate_metric_object implementations (BoundingBox, Universal2DBox, "
    "VisualObservationAttributes) every present result is I / (A_l + A_r - I) where I is one and the same "
    "intersection(l, r) of BOTH operands and A_x is a product that reads only the size fields of operand x; (R08.2) the "
    "result is absent exactly on the I == 0 side when both operands are present (contradiction rule between the three "
    "siblings: BoundingBox returns Some(0.0) - known finding D11, pinned by the repository's own test); (R08.3) "
    "Universal2DBox::intersection returns 0 only on the too_far(l, r) == true side, otherwise the unsigned area of the "
    "clip of a polygon derived from l with one derived from r, and regenerates the vertex cache of each working copy "
    "exactly under `cache is none`; (R08.4) the axis-aligned closed form multiplies an x-extent that reads "
    "{left,width} of both boxes with a y-extent that reads {top,height} of both, only when both extents are > 0, else "
    "0; (R08.5) the pre-filter measures the difference of both centres against the sum of BOTH bounding radii and the "
    "radius reads both half extents under a square root (necessary for 'never rejects an overlapping pair'); (R08.7) the "
    "inside/outside predicate of the clipper is a sign test (no tolerance); R08.3 also requires that the working copies "
    "are clones and that Clone never carries the vertex cache (stale polygons after public-field writes). "
    "(R08.8) polygon generation and clipping compute in f64 (no f32 arithmetic before widening). (R08.9/R08.10) exact "
    "formulas, decided by a rational-function normal form of the MIR expressions where the code is straight-line "
    "arithmetic (otherwise recorded as not evaluated): the polygon handed to the clipper is the box's rectangle rotated "
    "by +angle about its centre with vertices in boundary order, area() / get_radius() are that rectangle's area and "
    "circumradius, each IoU equals I / (A_l + A_r - I) identically, and the axis-aligned intersection equals "
    "(min(right edges) - max(left edges)) * (min(bottoms) - max(tops)). (R08.11) every polygon the clipper returns is "
    "produced by its loop over the clipping edges: no path around the loop hands back an input polygon."
    ' (R08.12) the tolerance constant of the box code is the public `EPS` = 1e-5.')
EXPLANATION += " (R08.13) the constructors store the caller's values unchanged (new / new_with_confidence: every parameter; rotate / rotate_mut: the angle); R08.9 reads `match angle {Some(a) => .., None => (1, 0)}` as the formula at angle.unwrap_or(0) and reports a constant taken while the box has an angle."
NOT_DECIDED = ["exactness of the clipped area and of the IoU value (f64 geometry)", "symmetry / rigid-motion invariance "
               "as numeric statements", "agreement of the closed form with the general path",
               "soundness of the pre-filter bound as an inequality (only its wiring is decided)"]
ASSUMPTIONS = ["geo::Area::unsigned_area and sutherland_hodgman_clip are exact enough (C08 numeric part)",
               "rustc nightly MIR construction"]

GEOMETRY = {'left', 'top', 'width', 'height', 'xc', 'yc', 'angle', 'aspect', 'confidence'}
IMPLS = {
    'bbox': ('<utils::bbox::BoundingBox as track::ObservationAttributes>::calculate_metric_object',
             {'height', 'width'}),
    'universal': ('<utils::bbox::Universal2DBox as track::ObservationAttributes>::calculate_metric_object',
                  {'height', 'aspect'}),
    'visual': ('<trackers::visual_sort::observation_attributes::VisualObservationAttributes as '
               'track::ObservationAttributes>::calculate_metric_object', {'height', 'aspect'}),
}


def uncast(e):
    while e.kind == 'cast' and e.args:
        e = e.args[0]
    return e


def roots(e):
    return {p.root for p in e.places() if p.root[0] == 'param'}


def is_isect(e):
    e = uncast(e)
    return e.kind == 'call' and e.name.rsplit('::', 1)[-1] == 'intersection' and len(e.args) == 2


def iou_rules(ctx, R1='R08.1', R2='R08.2', kinds=None):
    n1 = n2 = 0
    for kind, (path, size_fields) in IMPLS.items():
        if kinds is not None and kind not in kinds:
            continue
        b = ctx.anchor(R1, path)
        if b is None:
            continue
        ras = list(result_assignments(b))
        # the block that matters is the one that BUILDS the Some / None (it may be moved into the result later)
        somes = [(p.site[0] if p.site else bb, p) for bb, k, p in ras
                 if k == 'expr' and p.kind == 'agg' and p.name.endswith('Some')]
        nones = [(p.site[0] if p.site else bb, p) for bb, k, p in ras
                 if k == 'expr' and p.kind == 'agg' and p.name.endswith('None')]
        if not somes:
            ctx.fail(R1, b, kind + ':shape', 'ANCHOR-MISSING: no `Some(..)` result found')
            continue
        for bb, p in somes:
            v = uncast(p.args[0])
            ok = v.kind == 'bin' and v.name == 'Div' and is_isect(v.args[0])
            why = 'not a quotient with the intersection as numerator'
            if ok:
                I = uncast(v.args[0])
                den = uncast(v.args[1])
                ok = den.kind == 'bin' and den.name == 'Sub' and is_isect(den.args[1]) and repr(uncast(den.args[1])) == repr(I)
                why = 'denominator is not `areas - intersection` with the same intersection'
                if ok:
                    ra, rb = roots(I.args[0]), roots(I.args[1])
                    ok = {('param', 1), ('param', 2)} == (ra | rb) and len(ra) == 1 and len(rb) == 1
                    why = 'the intersection is not taken between the two operands'
                if ok:
                    u = uncast(den.args[0])
                    ok = u.kind == 'bin' and u.name == 'Add' and len(u.args) == 2
                    why = 'the union is not the sum of two areas minus the intersection'
                    if ok:
                        sides = []
                        for a in u.args:
                            a = uncast(a)
                            r = roots(a)
                            fs = {pl.fields[-1] for pl in a.places()} & GEOMETRY
                            if a.kind == 'call' and a.name.rsplit('::', 1)[-1] == 'area':
                                fs = set(size_fields)
                            prod = all(x.kind in ('place', 'cast') or (x.kind == 'bin' and x.name == 'Mul') or
                                       (x.kind == 'call' and x.name.rsplit('::', 1)[-1] == 'area')
                                       for x in a.walk())
                            sides.append((r, fs, prod))
                        ok = all(len(s[0]) == 1 for s in sides) and sides[0][0] != sides[1][0] and all(
                            (s[1] == size_fields or not s[1]) and s[2] for s in sides)
                        why = 'area terms read %s (expected one product of %s per operand)' % (
                            [sorted(s[1]) for s in sides], sorted(size_fields))
            n1 += 1
            ctx.check(ok, R1, b, kind + ':iou=I/(A_l+A_r-I)', repr(v)[:160],
                      'the value returned by %s is %r: %s' % (path.split(' as ')[0].lstrip('<'), v, why))
            # R08.2 present only when I != 0
            conds = path_conditions(b, bb)
            nz = False
            for c in conds:
                cm = c.cmp()
                o = orient(cm, is_isect) if cm else None
                if o and o[2].kind == 'const' and o[2].const_value() in ('0.0', '0') and o[0] in ('Ne', 'Gt'):
                    nz = True
            n2 += 1
            ctx.check(nz, R2, b, 'absent-iff-no-overlap',
                      'Some(..) only under intersection != 0',
                      '%s returns Some(iou) without requiring intersection != 0: for boxes that do not overlap the IoU '
                      'is Some(0.0) instead of absent' % path.split(' as ')[0].lstrip('<'))
        # every None with both operands present sits on the I == 0 side
        for bb, p in nones:
            conds = path_conditions(b, bb)
            present = [c for c in conds if c.kind == 'discr' and c.variants == {'Some'}]
            need = 4 if kind == 'visual' else 2
            if len(present) < need:
                continue
            z = False
            for c in conds:
                cm = c.cmp()
                o = orient(cm, is_isect) if cm else None
                if o and o[2].kind == 'const' and o[2].const_value() in ('0.0', '0') and o[0] in ('Eq', 'Le'):
                    z = True
            n2 += 1
            ctx.check(z, R2, b, kind + ':none-only-when-no-overlap', '',
                      'with both boxes present the IoU can be absent although the intersection is not 0')
    return n1, n2


def intersection_rule(ctx, R):
    n = 0
    b = ctx.anchor(R, 'utils::bbox::Universal2DBox::intersection')
    if b is None:
        return 0
    eb = ExprBuilder(b)
    zero = area = 0
    for bb, k, p in result_assignments(b):
        conds = path_conditions(b, bb)
        tf = [c for c in conds if c.kind == 'bool' and c.expr.kind == 'call' and c.expr.name.endswith('too_far')]
        if k == 'const' or (k == 'expr' and p.kind == 'const'):
            zero += 1
            n += 1
            ok = bool(tf) and all(c.truth is True for c in tf) and all(
                roots(c.expr.args[0]) | roots(c.expr.args[1]) == {('param', 1), ('param', 2)} for c in tf)
            ctx.check(ok, R, b, 'zero-only-when-too-far', [str(c) for c in conds],
                      'intersection() returns a constant without having established too_far(l, r) for these two boxes')
        else:
            area += 1
            v = p if k == 'expr' else None
            n += 1
            ok = v is not None and v.kind == 'call' and v.name.endswith('unsigned_area') and bool(
                v.calls('sutherland_hodgman_clip'))
            if ok:
                c = v.calls('sutherland_hodgman_clip')[0]
                ra, rb = roots(c.args[0]), roots(c.args[1])
                ok = len(ra) == 1 and len(rb) == 1 and ra != rb
            ctx.check(ok, R, b, 'area-of-clip(l,r)', repr(v)[:140],
                      'the non-trivial result is %r (expected the unsigned area of the clip of a polygon of l with a '
                      'polygon of r)' % v)
            n += 1
            ctx.check(bool(tf) and all(c.truth is False for c in tf), R, b, 'clip-only-when-not-too-far', '',
                      'the clip is not guarded by the too_far pre-check (or the guard is inverted)')
    n += 1
    ctx.check(zero == 1 and area == 1, R, b, 'two-way-shape', '%d/%d' % (zero, area),
              'intersection() has %d constant and %d computed results (expected 1 and 1)' % (zero, area))
    gens = b.find_calls('utils::bbox::Universal2DBox::gen_vertices')
    for c in gens:
        tgt = eb.arg(c, 0)
        conds = path_conditions(b, c.bb)
        g = [k for k in conds if k.kind == 'bool' and k.expr.kind == 'call' and k.expr.name.endswith('is_none') and
             k.expr.calls('get_cached_vertices')]
        n += 1
        # unguarded regeneration is fine; a guard, when present, must be "cache of the SAME box is none"
        ok = all(k.truth is True for k in g) and all(repr(roots(k.expr)) == repr(roots(tgt)) for k in g)
        ctx.check(ok, R, b, 'vertices-generated-when-cache-empty', repr(tgt),
                  'gen_vertices() is guarded by something else than `cached vertices of the same box are none` '
                  '(inverted test or test on the other box): the clip can run on a missing or foreign polygon', c.ln)
    n += 1
    both = len(gens) == 2
    if len(gens) == 1:
        # `for bx in [&mut l, &mut r] { .. bx.gen_vertices() .. }`: one call site run for both working copies
        from lib import iteration_context
        for it in iteration_context(ctx.F, b, b, gens[0].bb):
            arr = [x for x in it.walk() if x.kind == 'agg' and x.name == 'array' and len(x.args) == 2]
            if arr and len({repr(roots(a)) for a in arr[0].args}) == 2:
                both = True
    ctx.check(both, R, b, 'both-operands-get-vertices', str(len(gens)),
              'expected one gen_vertices() per operand, found %d' % len(gens))
    # the working copies are clones, and a clone never carries a (possibly stale) cache of the caller's box
    C14.clone_rule(ctx, R)
    n += 2
    return n


def clip_predicate_rule(ctx, R):
    """the inside/outside predicates of the clipper (bool helpers called by sutherland_hodgman_clip) decide by the SIGN
    of their quantity: they compare with the constant 0 — any tolerance makes disjoint boxes intersect"""
    from lib import local_callee_bodies, as_cmp
    n = 0
    b = ctx.anchor(R, 'utils::clipping::sutherland_hodgman_clip')
    if b is None:
        return 0
    seen = set()
    from lib import all_closures
    # (the predicate may be called from the clipper itself or from a closure of it: fold / for_each over the edges)
    for c in [c_ for hb in [b] + all_closures(ctx.F, b) for c_ in hb.find_calls()]:
        for cb in local_callee_bodies(ctx.F, c):
            if cb.npath in seen or cb.locals[0] != 'bool':
                continue
            seen.add(cb.npath)
            ctx.read(cb)
            e = ExprBuilder(cb).place(0, ())
            cm = as_cmp(e, True)
            n += 1
            def is_zero(x):
                x = x.strip() if x.kind == 'call' and x.name.rsplit('::', 1)[-1] != 'zero' else x
                return (x.kind == 'const' and x.const_value() in ('0.0', '0', '-0.0')) or (
                    x.kind == 'call' and x.name.rsplit('::', 1)[-1] == 'zero' and not x.args)   # num_traits::Zero::zero()
            ok = cm is not None and (is_zero(cm[2]) or is_zero(cm[1]))
            ctx.check(ok, R, cb, 'clip-predicate-is-a-sign-test:' + cb.npath.rsplit('::', 1)[-1], repr(e)[:120],
                      'the clipping predicate %s decides by %r: expected a comparison with the constant 0 (a tolerance '
                      'reports an intersection for boxes that do not overlap)' % (cb.npath, e))
    # the same test written in place (or spliced in from a helper of a new private type): every comparison of the
    # clipper between a cross-product-like quantity (f64 arithmetic over coordinates) and a constant
    seen_cmp = set()
    for hb in [b] + all_closures(ctx.F, b):
      eb = ExprBuilder(hb)
      for i in sorted(hb.live_blocks()):
        for si, s_ in enumerate(hb.blocks[i]['st']):
            if s_['k'] != 'assign' or s_['rv']['k'] != 'bin' or s_['rv']['op'] not in ('Le', 'Lt', 'Ge', 'Gt'):
                continue
            e = eb._rvalue(s_['rv'], (), 0, (i, si))
            sides = [(e.args[0], e.args[1]), (e.args[1], e.args[0])]
            for q, c in sides:
                if c.kind == 'const' and 'f64' in str(c.const.get('ty', '')) and any(
                        x.kind == 'bin' and x.name == 'Sub' for x in q.walk()) and any(
                        x.kind == 'bin' and x.name == 'Mul' for x in q.walk()):
                    key = repr(e)
                    if key in seen_cmp:
                        continue
                    seen_cmp.add(key)
                    n += 1
                    ctx.check(c.const_value() in ('0.0', '0', '-0.0'), R, b, 'clip-predicate-is-a-sign-test:inline',
                              repr(e)[:120], 'the clipper compares its edge cross product with %r (expected the '
                              'constant 0: a tolerance reports an intersection for boxes that do not overlap)' % c,
                              s_['ln'])
    return n


def closed_form_rule(ctx, R):
    n = 0
    b = ctx.anchor(R, 'utils::bbox::BoundingBox::intersection')
    if b is None:
        return 0
    pos = zero = 0
    for bb, k, p in result_assignments(b):
        if k == 'const' or (k == 'expr' and p.kind == 'const'):
            zero += 1
            continue
        v = uncast(p)
        pos += 1
        ok = v.kind == 'bin' and v.name == 'Mul' and len(v.args) == 2
        detail = repr(v)[:200]
        if ok:
            deps = []
            for a in v.args:
                a = uncast(a)
                fs = {}
                for pl in a.places():
                    if pl.root[0] == 'param':
                        fs.setdefault(pl.root[1], set()).add(pl.fields[-1])
                deps.append(fs)
            want = [{1: {'left', 'width'}, 2: {'left', 'width'}}, {1: {'top', 'height'}, 2: {'top', 'height'}}]
            ok = (deps == want) or (deps == want[::-1])
            detail = str(deps)
        n += 1
        ctx.check(ok, R, b, 'area=x-extent*y-extent', detail,
                  'the axis-aligned intersection is %r: expected the product of an extent over {left,width} of both '
                  'boxes and an extent over {top,height} of both boxes (%s)' % (v, detail))
        gts = []
        for c in path_conditions(b, bb):
            cm = c.cmp()
            if cm and cm[0] == 'Gt' and cm[2].kind == 'const' and cm[2].const_value() in ('0.0', '0') and \
                    cm[1].kind == 'bin':
                gts.append(repr(cm[1]))
        n += 1
        okg = ok and {repr(uncast(a)) for a in v.args} <= set(gts)
        ctx.check(okg, R, b, 'positive-only-if-both-extents>0', str(gts)[:160],
                  'the product is returned without requiring both extents to be > 0 (touching or disjoint boxes get '
                  'a positive or negative area)')
    n += 1
    ctx.check(pos == 1 and zero == 1, R, b, 'two-way-shape', '%d/%d' % (pos, zero),
              'BoundingBox::intersection has %d computed and %d constant results (expected 1 and 1)' % (pos, zero))
    return n


def radius_rule(ctx, R):
    n = 0
    b = ctx.anchor(R, 'utils::bbox::Universal2DBox::get_radius')
    if b is not None:
        e = ExprBuilder(b).place(0, ())
        fs = {pl.fields[-1] for pl in e.places() if pl.root == ('param', 1) and pl.fields}
        for x in e.walk():
            if x.kind == 'call' and len(x.args) == 1 and roots(x) == {('param', 1)} and len(ctx.F.get(x.name)) == 1 and not x.args[0].strip().fields:
                fs |= {pl.fields[-1] for pl in ExprBuilder(ctx.F.get(x.name)[0]).place(0, ()).places() if pl.fields}
        n += 1
        sq = [x for x in e.walk() if x.kind == 'call' and x.name.rsplit('::', 1)[-1] in ('sqrt', 'hypot')]
        ok = fs == {'aspect', 'height'} and bool(sq)
        if ok and sq[0].name.endswith('sqrt'):
            inner = uncast(sq[0].args[0])
            # a private helper computing the squared radius of `self` is looked through
            if inner.kind == 'call' and len(inner.args) == 1 and roots(inner) == {('param', 1)}:
                cbs = ctx.F.get(inner.name)
                if len(cbs) == 1 and cbs[0].nargs == 1:
                    ctx.read(cbs[0])
                    inner = uncast(ExprBuilder(cbs[0]).place(0, ()))
            ok = inner.kind == 'bin' and inner.name == 'Add' and all(
                uncast(a).kind == 'bin' and uncast(a).name == 'Mul' and repr(uncast(a).args[0]) == repr(uncast(a).args[1])
                for a in inner.args)
            if ok:
                d = [{pl.fields[-1] for pl in a.places() if pl.fields} for a in inner.args]
                ok = sorted(map(sorted, d)) == [['aspect', 'height'], ['height']]
        ctx.check(ok, R, b, 'radius=sqrt(hw^2+hh^2)', repr(e)[:140],
                  'the bounding radius is %r: it must be the root of the sum of the squares of BOTH half extents '
                  '(half width reads aspect and height, half height reads height), otherwise the pre-filter can '
                  'reject overlapping boxes' % e)
    return n


ARITH = ('Add', 'Sub', 'Mul', 'Div', 'AddWithOverflow', 'SubWithOverflow', 'MulWithOverflow')


def precision_rule(ctx, R):
    """polygon generation and clipping compute in f64: inputs are widened BEFORE any arithmetic (f32 arithmetic at
    coordinates ~1e4 moves vertices by ~1e-3, i.e. percents of a 0.1-sized box)"""
    from lib import local_callee_bodies, all_closures
    n = 0
    bs = [b for b in ctx.F.fn_bodies() if b.npath.endswith('from') and 'Polygon' in b.locals[0] and
          'Universal2DBox' in b.locals[1]]
    if not bs:
        ctx.fail(R, 'utils::bbox', 'ANCHOR-MISSING:polygon', 'polygon generator From<&Universal2DBox> for Polygon not found')
        return 0
    clip = ctx.F.one('utils::clipping::sutherland_hodgman_clip')
    todo = list(bs) + ([clip] if clip is not None else [])
    seen = set()
    while todo:
        b = todo.pop()
        if b.npath in seen:
            continue
        seen.add(b.npath)
        ctx.read(b)
        narrow = []
        for i in sorted(b.live_blocks()):
            for s_ in b.blocks[i]['st']:
                if s_['k'] == 'assign' and s_['rv']['k'] == 'bin' and s_['rv']['op'] in ARITH and \
                        b.locals[s_['lhs']['l']].startswith('f32'):
                    narrow.append('%s at %s' % (s_['rv']['op'], s_['ln']))
            c = b.call_at(i)
            if c is not None and 'f32' in c.callee and c.name in ('sin', 'cos', 'sin_cos', 'tan', 'sqrt', 'mul_add'):
                narrow.append('%s at %s' % (c.callee, c.ln))
        n += 1
        ctx.check(not narrow, R, b, 'f64-arithmetic:' + b.npath.rsplit('::', 2)[-1], 'no f32 arithmetic',
                  '%s computes vertex / clipping coordinates in f32 (%s): the polygon is rounded to the f32 grid of the '
                  'box position before it is widened' % (b.npath, '; '.join(narrow[:4])))
        for c in b.find_calls():
            for cb in local_callee_bodies(ctx.F, c):
                if cb.npath.startswith('utils::clipping'):
                    todo.append(cb)
        todo += all_closures(ctx.F, b)
    return n


def clip_no_shortcut_rule(ctx, R):
    """every polygon sutherland_hodgman_clip returns derives from the vertex buffer its edge loop fills: a result that
    is built without that buffer (the subject handed back as it is, a copy of an input) skips the clipping for the
    pairs that take the shortcut - whatever the guard, a bounding-rectangle / containment / equality test cannot know
    what the edges would cut.  (A result that flows from the buffer on a path where the loop ran zero times - empty
    clipping polygon - is the loop's own result and is accepted.)"""
    from lib import backward_locals
    b = ctx.anchor(R, 'utils::clipping::sutherland_hodgman_clip')
    if b is None:
        return 0
    loops = b.loops()
    bufs = set()
    for c in b.find_calls():
        if c.name in ('push', 'extend', 'push_back', 'insert') and any(c.bb in blks for blks in loops.values()) and c.args \
                and c.args[0].get('k') in ('copy', 'move'):
            # receiver is `&mut buffer`: the locals the reference was taken from
            r = c.args[0]['pl']['l']
            for d in b.defs().get(r, []):
                if d[0] == 'assign' and d[3]['rv']['k'] == 'ref':
                    bufs.add(d[3]['rv']['pl']['l'])
    if not bufs:
        ctx.note(R, 'the clipper has no explicit loop that pushes vertices into a buffer (iterator form): shortcut rule '
                    'not evaluated')
        return 0
    n = 0
    for d in b.defs().get(0, []):
        if d[1] not in b.live_blocks():
            continue
        n += 1
        src = backward_locals(b, [d])
        ln = d[3].get('ln', '') if d[0] == 'assign' else d[2].ln
        ctx.check(bool(src & bufs), R, b, 'result-derives-from-the-clipped-vertex-buffer', 'bb%d' % d[1],
                  'sutherland_hodgman_clip has a result (bb%d) that is not built from the vertex buffer its loop over the '
                  'clipping edges fills: an input polygon is handed back unclipped for the pairs that take this shortcut '
                  '(their intersection area and IoU are wrong; disjoint pairs get a positive area)' % d[1], ln)
    return n


def run(ctx):
    _ownership(ctx)
    ctx.rule('R08.11', 'every result of sutherland_hodgman_clip is produced by the loop over the clipping edges (no shortcut '
                       'that returns an input polygon)')
    ctx.evaluated('R08.11', clip_no_shortcut_rule(ctx, 'R08.11'), 1)
    ctx.rule('R08.1', 'IoU = I / (A_l + A_r - I) on one and the same intersection of both operands (3 siblings)')
    ctx.rule('R08.2', 'IoU absent exactly when both operands are present and the intersection is 0 (3 siblings)')
    n1, n2 = iou_rules(ctx)
    ctx.floor('R08.1', n1, 3)
    ctx.floor('R08.2', n2, 5)
    ctx.rule('R08.3', 'Universal2DBox::intersection: 0 only when too_far; else area of clip(l, r); vertices when cache empty')
    ctx.floor('R08.3', intersection_rule(ctx, 'R08.3'), 9)
    ctx.rule('R08.8', 'polygon generation and clipping compute in f64 (inputs widened before arithmetic)')
    ctx.floor('R08.8', precision_rule(ctx, 'R08.8'), 3)
    ctx.rule('R08.7', 'clipping predicates are sign tests (comparison with the constant 0)')
    ctx.floor('R08.7', clip_predicate_rule(ctx, 'R08.7'), 1)
    ctx.rule('R08.4', 'axis-aligned closed form: product of the two extents, only when both are positive')
    ctx.floor('R08.4', closed_form_rule(ctx, 'R08.4'), 3)
    import misclib
    ctx.rule('R08.12', 'tolerances of the box code are the public constant EPS = 1e-5')
    ctx.floor('R08.12', misclib.rule_library_epsilon(ctx, 'R08.12'), 1)
    import geomlib
    ctx.rule('R08.9', 'exact formulas (rational-function normal form): polygon of a box = its rectangle rotated by +angle '
                      'about the centre, in boundary order; area() and get_radius() are its area and circumradius')
    ctx.evaluated('R08.9', geomlib.polygon_rule(ctx, 'R08.9') + geomlib.measures_rule(ctx, 'R08.9'), 3)
    ctx.rule('R08.10', 'exact formulas: IoU == I / (A_l + A_r - I) as a rational function (3 siblings); axis-aligned '
                       'intersection == (min right - max left) * (min bottom - max top)')
    ctx.evaluated('R08.10', geomlib.iou_rule(ctx, 'R08.10') + geomlib.extent_rule(ctx, 'R08.10'), 4)
    ctx.rule('R08.13', 'the constructors of the rotated box store what the caller passed (an angle reduced in f32 is a '
                       'different rectangle: "rotated by any angle")')
    ctx.evaluated('R08.13', geomlib.stored_unchanged_rule(ctx, 'R08.13'), 13)
    ctx.rule('R08.5', 'pre-filter wiring: both centres, sum of both radii; radius from both half extents')
    n = C20.r4(ctx, 'R08.5', ('too_far',))
    n += radius_rule(ctx, 'R08.5')
    ctx.floor('R08.5', n, 4)


def _ownership(ctx):
    """who-may-write rows of rules/ownership.py that concern this property"""
    import ownership
    ctx.rule('R08.6', 'who-may-write: state this property depends on is changed only by its owners (rules/ownership.py)')
    ctx.floor('R08.6', ownership.run(ctx, 'R08.6', 'C08'), 2)
