"""C11 — track updates are atomic under callback failures; merge history intact."""
from lib import ExprBuilder, count_on_paths, path_conditions, local_callee_bodies
from mir import proj_key, fields_of
from restore import RestoreAnalysis, exits, DIRTY, NAMES, self_field

EXPLANATION = (
    "Restore-on-error dataflow (P6) over the MIR of Track::add_observation and Track::merge: for the field set "
    "{attributes, observations, metric, merge_history} of self, no field may be Dirty (assigned, mutably borrowed "
    "or handed to a helper that writes it) at any error exit (`?`/Err) unless it was re-assigned from a "
    "Clone::clone snapshot taken while the field was still clean; callback fault positions (update.apply, "
    "attributes.merge, metric.optimize inside the class loop) are covered by the loop fix-point. Notification "
    "counting (P4): notifier.send lies on no path to an error exit and exactly once on every path to an Ok exit "
    "(Track::new: once). Merge history: every write of merge_history lies outside natural loops, the written value "
    "contains the previous history exactly once, the source's history at most once and only under the history flag; "
    "store level: TrackStore::add delegates to add_observation / TrackBuilder::build, the worker's Merge arm forwards "
    "Track::merge's result, merge_owned re-adds the fetched source on failure. "
    "R11.4 also requires that TrackStore::add puts a track into the shard only when no error exit is reachable afterwards; R11.5 who-may-write rows for Track.{attributes, observations, merge_history}."
    " R11.4 also requires that the worker's Merge arm hands Track::merge the class list and the history flag exactly as the caller sent them (or the classes of the source when the list is empty)."
    ' (R11.6) who-may-notify: notifications come from Track::new / add_observation / merge only; (R11.7) Track::merge decides presence of a class in the source by a plain lookup in its observation map; (R11.8) the shard-membership owners of C09 (a merge that takes the destination out of its shard is reported).')
EXPLANATION += ' R11.3 also requires that the merged history is not extended in place before it is stored (except by the two histories themselves).'
NOT_DECIDED = ["faithfulness of the user's Clone impls (assumed)", "interior mutability inside user attribute types"]
ASSUMPTIONS = ["Clone of TA / M / observations is a faithful snapshot", "panics are out of scope",
               "rustc nightly MIR construction"]

TRACK = 'track::Track'
FIELDS = ['attributes', 'observations', 'metric', 'merge_history']


def sends(body):
    return [c.bb for c in body.find_calls('track::notify::ChangeNotifier::send')]


def restore_rule(ctx, body, R):
    ra = RestoreAnalysis(ctx.F, body, FIELDS)
    ex = exits(body)
    nerr = 0
    for bb, kind, desc in ex:
        if kind == 'unknown':
            # classify through the path condition is_err(x)/is_ok(x) on the returned value
            kind = classify_unknown(body, bb)
        if kind == 'unknown':
            ctx.note(R, '%s: exit %s not classified as Ok/Err; not armed' % (body.npath, desc))
            continue
        if kind != 'err':
            continue
        nerr += 1
        st = ra.state_after(bb)
        if st is None:
            continue
        for f in FIELDS:
            inst = 'error-exit[%s]:%s' % (desc.split(' at ')[0] + '@' + exit_anchor(body, bb), f)
            if st[f] == DIRTY and not ra.ok_only(st, f, bb):
                why = [t for b_, t in ra.events if f in t]
                ctx.fail(R, body, inst, 'field `%s` may be left modified at error exit %s (entry bb0 -> exit bb%d)%s' % (
                    f, desc, bb, ('; ' + why[0]) if why else ''), desc.split(' at ')[-1])
            else:
                ctx.ok(R, body, inst, 'state at exit: %s' % NAMES[st[f]], desc.split(' at ')[-1])
    return ra, ex, nerr


def exit_anchor(body, bb):
    """stable name for an error exit: the callee whose failure leads here (nearest dominating fallible call)"""
    best = None
    for c in body.find_calls():
        if c.bb == bb:
            continue
        if body.dominates(c.bb, bb) and ('Result' in body.locals[c.dest['l']]) and not c.is_(
                'std::ops::Try::branch', 'std::ops::FromResidual::from_residual'):
            if best is None or body.dominates(best.bb, c.bb):
                best = c
    return best.name if best else 'entry'


def classify_unknown(body, bb):
    eb = ExprBuilder(body)
    d = [x for x in body.defs().get(0, []) if x[1] == bb]
    if not d or d[0][0] != 'assign':
        return 'unknown'
    rv = d[0][3]['rv']
    if rv['k'] != 'use':
        return 'unknown'
    val = repr(eb.operand(rv['op']))
    for c in path_conditions(body, bb):
        if c.kind == 'bool' and c.expr.kind == 'call' and c.truth is not None:
            nm = c.expr.name.rsplit('::', 1)[-1]
            if nm in ('is_err', 'is_ok') and c.expr.args and repr(c.expr.args[0]) == val:
                iserr = (nm == 'is_err') == c.truth
                return 'err' if iserr else 'ok'
    return 'unknown'


def notify_rule(ctx, body, R, ex):
    marks = sends(body)
    for bb, kind, desc in ex:
        if kind == 'unknown':
            kind = classify_unknown(body, bb)
        if kind == 'unknown':
            continue
        pre = count_on_paths(body, 0, [bb], marks)
        rets = body.returns()
        post = count_on_paths(body, bb, rets, [m for m in marks if m != bb]) if rets else (0, 0)
        if pre is None:
            continue
        post = post or (0, 0)
        lo, hi = pre[0] + post[0], pre[1] + post[1]
        inst = '%s-exit[%s]:notifications' % (kind, desc.split(' at ')[0] + '@' + exit_anchor(body, bb))
        if kind == 'err':
            ctx.check(hi == 0, R, body, inst, 'no notification on any path to this error exit',
                      'a change notification can be emitted (up to %s times) on a path that ends in error exit %s' % (
                          hi if hi < 64 else 'unboundedly many', desc), desc.split(' at ')[-1])
        else:
            ctx.check(lo == 1 and hi == 1, R, body, inst, 'exactly one notification on every path to this Ok exit',
                      'paths to Ok exit %s emit between %d and %s notifications (expected exactly 1)' % (
                          desc, lo, hi if hi < 64 else 'unboundedly many'), desc.split(' at ')[-1])


def history_rule(ctx, body, R):
    """writes of self.merge_history: outside loops; value keeps previous history exactly once"""
    eb = ExprBuilder(body)
    n = 0
    loops = body.loops()
    for i in sorted(body.live_blocks()):
        b = body.blocks[i]
        for si, s in enumerate(b['st']):
            if s['k'] != 'assign':
                continue
            is_self, f = self_field(s['lhs'])
            rv = s['rv']
            write = is_self and f == 'merge_history' and s['lhs']['p']
            borrow = rv['k'] == 'ref' and rv['mut'] and self_field(rv['pl']) == (True, 'merge_history')
            if not (write or borrow):
                continue
            n += 1
            inl = [h for h, blks in loops.items() if i in blks]
            kind = 'assign' if write else 'mut-borrow'
            ctx.check(not inl, R, body, 'history-write-outside-loop:%s#%d' % (kind, n),
                      'merge history is written once, outside the per-class loop',
                      'merge history is written inside a loop (header bb%s): it can be extended once per feature '
                      'class instead of once per merge' % (inl[0] if inl else '?'), s['ln'])
            if write:
                e = eb._rvalue(rv, (), 0, (i, si))
                alts = e.args if e.kind == 'phi' else [e]
                for k, alt in enumerate(alts):
                    base = alt.strip()
                    if base.kind == 'call' and base.name.rsplit('::', 1)[-1] in ('with_capacity', 'new', 'default') and \
                            hasattr(base.extra, 'args'):
                        # built in place: `let mut h = Vec::with_capacity(a + b); h.extend(prev); h.extend(src)` — the
                        # fills of that very vector, in order: the previous history once, then the source's once
                        fills = []
                        for c in body.find_calls():
                            if c.args and c.name in ('extend', 'extend_from_slice', 'append', 'push', 'insert',
                                                     'extend_from_within', 'truncate', 'clear', 'retain', 'dedup',
                                                     'remove', 'pop', 'sort', 'reverse', 'drain', 'resize') and any(
                                    y.kind == 'call' and y.extra is base.extra for y in eb.arg(c, 0).walk()):
                                fills.append(c)
                        inst = 'history-value#%d.%d' % (n, k)
                        srcs = []
                        for c in fills:
                            a1 = eb.arg(c, 1) if len(c.args) > 1 else None
                            roots = {p.root for p in a1.places() if p.fields[:1] == ('merge_history',)} if a1 else set()
                            srcs.append((c, roots))
                        okf = len(fills) == 2 and all(c.name in ('extend', 'extend_from_slice', 'append') and
                                                      not body.in_loop(c.bb) for c in fills) and \
                            [r for _c, r in srcs] == [{('param', 1)}, {('param', 2)}] and \
                            body.dominates(fills[0].bb, fills[1].bb) and i in body.reach_from(fills[1].bb)
                        n_ = [c.name for c in fills]
                        ctx.check(okf, R, body, inst + ':verbatim', 'previous history then the source\'s, appended once each',
                                  'the merge history is built in place by %s over %s: expected the previous history '
                                  'followed once by the source\'s, verbatim' % (n_, [sorted(r) for _c, r in srcs]), s['ln'])
                        ctx.check(True, R, body, inst, 'built in place', '')
                        continue
                    prev = [p for p in alt.places() if p.root == ('param', 1) and p.fields[:1] == ('merge_history',)]
                    src = [p for p in alt.places() if p.root == ('param', 2) and p.fields[:1] == ('merge_history',)]
                    inst = 'history-value#%d.%d' % (n, k)
                    ok = len(prev) == 1 and len(src) <= 1
                    order_ok = True
                    for ch in alt.calls('chain'):
                        a0 = [p for p in ch.args[0].places() if p.root == ('param', 1)]
                        a1 = [p for p in ch.args[1].places() if p.root == ('param', 2)]
                        if src and not (a0 and a1):
                            order_ok = False
                    # only order- and multiplicity-preserving operations between the two histories and the result
                    KEEP = {'iter', 'into_iter', 'chain', 'cloned', 'copied', 'collect', 'clone', 'to_vec', 'to_owned',
                            'as_slice', 'deref', 'into', 'from', 'from_iter', 'concat', 'extend', 'map', 'by_ref',
                            'collect_vec', 'as_ref', 'borrow', 'take'}
                    alien = sorted({c.name.rsplit('::', 1)[-1] for c in alt.walk() if c.kind == 'call' and
                                    c.name.rsplit('::', 1)[-1] not in KEEP})
                    if 'take' in {c.name.rsplit('::', 1)[-1] for c in alt.walk() if c.kind == 'call' and
                                  'iter' in c.name.lower()}:
                        alien.append('Iterator::take')
                    # ... nor extended in place before it is stored (`let mut h = a.chain(b).collect(); h.push(x)`): entries
                    # from neither history
                    from lib import backward_locals
                    flow = backward_locals(body, [('assign', i, si, s)])
                    for c_ in body.find_calls('push', 'extend', 'extend_from_slice', 'append', 'insert', 'truncate', 'clear',
                                              'retain', 'dedup', 'remove', 'pop', 'sort', 'reverse', 'drain', 'resize',
                                              'swap_remove', 'dedup_by_key', 'sort_unstable', 'rotate_left', 'rotate_right'):
                        if not c_.args or c_.args[0].get('k') not in ('copy', 'move') or 'Vec<u64>' not in str(
                                body.locals[c_.args[0]['pl']['l']]).replace('std::vec::', ''):
                            continue
                        for d_ in body.defs().get(c_.args[0]['pl']['l'], []):
                            if d_[0] == 'assign' and d_[3]['rv'].get('k') == 'ref' and d_[3]['rv']['pl']['l'] in flow and \
                                    not d_[3]['rv']['pl']['p']:
                                a1_ = eb.arg(c_, 1) if len(c_.args) > 1 else None
                                hist_only = a1_ is not None and c_.name in ('extend', 'extend_from_slice', 'append') and \
                                    a1_.places() and all(p_.root in (('param', 1), ('param', 2)) and
                                                         p_.fields[:1] == ('merge_history',) for p_ in a1_.places())
                                if not hist_only:
                                    alien.append('%s (in place)' % c_.name)
                    ctx.check(not alien, R, body, inst + ':verbatim',
                              'histories are concatenated verbatim',
                              'the merge history is passed through %s before it is stored: entries can be dropped, '
                              'merged or reordered (the history must be the previous one followed once by the '
                              "source's, verbatim)" % alien, s['ln'])
                    ctx.check(ok and order_ok, R, body, inst,
                              'written value = %r' % alt,
                              'written merge history %r does not consist of the previous history once followed by the '
                              "source's history at most once" % alt, s['ln'])
                    if src:
                        # must be under the history flag
                        site_bb = alt.site[0] if alt.site else i
                        # find the defining block of this alternative: use the place where the chain is collected
                        # (the flag may travel as a private two-valued mode built from it: every way of reaching the
                        # site - variant tests unfolded to the conditions that built the variant - has the flag set)
                        from lib import expand_conditions
                        ways = expand_conditions(body, path_conditions(body, site_bb))
                        flag = bool(ways) and all(any(
                            c.kind == 'bool' and c.truth and c.expr.kind == 'place' and c.expr.root == ('param', 4)
                            for c in cv) for cv in ways)
                        ctx.check(flag, R, body, inst + ':flag',
                                  "source history is appended only when the merge_history flag is set",
                                  "the source's history can be appended although the merge_history flag is false",
                                  s['ln'])
            else:
                # a mutable borrow (mem::take / extend / push): must be covered by restore rule; value unknown
                ctx.note(R, '%s: merge_history mutably borrowed at %s (value not modelled)' % (body.npath, s['ln']))
    return n


def run(ctx):
    _ownership(ctx)
    R1, R2, R3, R4 = 'R11.1', 'R11.2', 'R11.3', 'R11.4'
    ctx.rule(R1, 'restore-on-error (P6): no field of {attributes, observations, metric, merge_history} Dirty at an error exit')
    ctx.rule(R2, 'notifier.send: 0 times on paths to error exits, exactly once on paths to Ok exits')
    ctx.rule(R3, 'merge_history written outside loops; value = previous history once (+ source once under the flag)')
    ctx.rule(R4, 'store level: add -> add_observation/build; Merge arm forwards Track::merge; merge_owned re-adds')
    nerr_total = 0
    for name in ('add_observation', 'merge'):
        body = ctx.anchor(R1, TRACK + '::' + name)
        if body is None:
            continue
        ra, ex, nerr = restore_rule(ctx, body, R1)
        nerr_total += nerr
        notify_rule(ctx, body, R2, ex)
        if name == 'merge':
            n = history_rule(ctx, body, R3)
            ctx.floor(R3, n, 1)
    ctx.floor(R1, nerr_total, 4)
    # Track::new notifies exactly once
    nb = ctx.anchor(R2, TRACK + '::new')
    if nb is not None:
        r = count_on_paths(nb, 0, nb.returns(), sends(nb))
        ctx.check(r == (1, 1), R2, nb, 'new:notifications', 'Track::new emits exactly one notification',
                  'Track::new emits %s notifications' % (r,))
    store_level(ctx, R4)
    # "a requested class present in either track": presence = the class key is in the track's observation map. The source
    # is consulted by a plain map lookup (directly or through an accessor that IS that lookup); an accessor that hides
    # empty / filtered classes makes a class of the source count as absent: no history, no class in the destination
    ctx.rule('R11.7', 'Track::merge decides presence of a class in the source by a plain lookup in its observation map')
    mb = ctx.anchor('R11.7', TRACK + '::merge')
    n7 = 0
    if mb is not None:
        from lib import expand_calls
        ebm = ExprBuilder(mb)
        for c in mb.find_calls():
            ty = mb.locals[c.dest['l']] if c.dest and not c.dest['p'] else ''
            if 'Option<&' not in ty or 'Observation' not in ty or not c.args:
                continue
            a0 = ebm.arg(c, 0)
            if not any(p_.root == ('param', 2) for p_ in a0.places()):
                continue
            e = expand_calls(ctx.F, ebm._call(c, (), 0), depth=2)
            x = e
            while x.kind == 'call' and x.name.rsplit('::', 1)[-1] in ('copied', 'cloned', 'as_ref', 'as_deref', 'map') and x.args \
                    and x.name.rsplit('::', 1)[-1] != 'map':
                x = x.args[0]
            plain = x.kind == 'call' and x.name.rsplit('::', 1)[-1] == 'get' and 'HashMap' in x.name and \
                x.args[0].has_field('observations') and any(p_.root == ('param', 2) for p_ in x.args[0].places())
            n7 += 1
            ctx.check(plain, 'R11.7', mb, 'source-class-present=key-in-map', repr(e)[:100],
                      'Track::merge reads the observations of a source class as %r: not a plain lookup in the source\'s '
                      'observation map - a class the source holds can count as absent (no history extension, class not '
                      'merged)' % e, c.ln)
    ctx.evaluated('R11.7', n7, 1)
    from props import C09
    C09.r10(ctx, 'R11.8')
    import misclib
    ctx.rule('R11.6', 'who-may-notify: change notifications come from Track::new / add_observation / merge only')
    ctx.floor('R11.6', misclib.rule_who_may_notify(ctx, 'R11.6'), 4)


def restore_rules(ctx, R):
    """the restore-on-error clause alone (shared with C09 / C10): Track::add_observation and Track::merge"""
    nerr_total = 0
    for name in ('add_observation', 'merge'):
        body = ctx.anchor(R, TRACK + '::' + name)
        if body is None:
            continue
        ra, ex, nerr = restore_rule(ctx, body, R)
        nerr_total += nerr
    ctx.floor(R, nerr_total, 4)
    return nerr_total


def store_level(ctx, R):
    F = ctx.F
    import storelib
    storelib.rule_merge_owned(ctx, R)
    add = ctx.anchor(R, 'track::store::TrackStore::add')
    if add is not None:
        direct = add.find_calls('track::Track::add_observation')
        built = add.find_calls('track::builder::TrackBuilder::build')
        ctx.check(bool(direct), R, add, 'add:existing->add_observation',
                  'existing track: delegates to Track::add_observation', 'TrackStore::add no longer reaches '
                  'Track::add_observation for an existing track (atomic update path bypassed)')
        # the missing-track arm: handled by C09 R09.5; here only that no raw Track aggregate is built
        raw = []
        for i in add.live_blocks():
            for s in add.blocks[i]['st']:
                if s['k'] == 'assign' and s['rv']['k'] == 'agg' and s['rv'].get('adt', '').startswith('track::Track') \
                        and s['rv']['ak'] == 'adt' and s['rv']['adt'].split('::<')[0] == 'track::Track':
                    raw.append(s['ln'])
        ctx.check(bool(built) and not raw, R, add, 'add:missing->builder',
                  'missing track: built through TrackBuilder::build (add_observation inside)',
                  'TrackStore::add constructs a Track inline (%s) instead of going through the builder / '
                  'add_observation: optimize, validation and notification are skipped' % (raw or 'no build call'))
        # store-level atomicity of add(): a track is put into the shard only when nothing can fail afterwards
        from restore import exits as _exits
        ex = {bb: kind for bb, kind, _ in _exits(add)}
        ins = [c for c in add.find_calls() if c.name in ('insert', 'or_insert', 'or_insert_with', 'insert_entry',
                                                        'or_insert_with_key', 'or_default') and
               ('hash_map' in c.callee or 'HashMap' in c.callee)]
        for c in ins:
            reach = add.reach_from(c.bb)
            bad = sorted(bb for bb, kind in ex.items() if bb in reach and kind != 'ok')
            ctx.check(not bad, R, add, 'add:insert-only-when-nothing-can-fail-afterwards',
                      'every exit reachable from the shard insert is Ok',
                      'TrackStore::add inserts a track into the shard and can still return an error afterwards '
                      '(exit block(s) %s): a failed add leaves a new (empty or half-updated) track in the store' % bad,
                      c.ln)
    # worker Merge arm forwards Track::merge's result
    import storelib as _S
    h = ctx.anchor(R, _S.WORKER)
    if h is not None:
        merges = h.find_calls('track::Track::merge')
        ctx.check(len(merges) >= 1, R, h, 'worker:merge-calls', '%d Track::merge call(s) in the worker' % len(merges),
                  'the store worker does not call Track::merge any more')
        # ... with the caller's class list and history flag as they were sent: a store-level merge must behave like
        # Track::merge on the same arguments (a class list filtered / rebuilt in the worker changes which classes count
        # as merged - and with it whether the history is extended)
        ebh = ExprBuilder(h)
        for c in merges:
            if len(c.args) < 4:
                continue
            cl = ebh.arg(c, 2)
            calls = [y.name.rsplit('::', 1)[-1] for y in cl.walk() if y.kind == 'call' and y.name.rsplit('::', 1)[-1] not in (
                'deref', 'recv', 'as_ref', 'as_slice', 'clone', 'borrow', 'get_feature_classes', 'unwrap', 'to_vec', 'as_deref')]
            from_cmd = any(y.kind == 'call' and y.name.rsplit('::', 1)[-1] == 'recv' for y in cl.walk())
            ctx.check(from_cmd and not calls and cl.kind != 'phi', R, h, 'worker:merge-classes-as-sent', repr(cl)[:100],
                      'the worker hands Track::merge the class list %r: not the list the caller sent (or the classes of the '
                      'source when that list is empty) - a merge through the store no longer equals Track::merge on the '
                      'same arguments (merge history / merged classes differ)' % cl, c.ln)
            hf = ebh.arg(c, 3).strip()
            ctx.check(hf.kind == 'place' or (hf.kind == 'call' and hf.name.endswith('recv')), R, h,
                      'worker:merge-history-flag-as-sent', repr(hf)[:80],
                      'the merge-history flag handed to Track::merge is %r, not the flag the caller sent' % hf, c.ln)
    # TrackBuilder::build: add_observation result propagated
    bld = ctx.anchor(R, 'track::builder::TrackBuilder::build')
    if bld is not None:
        from lib import deep_calls, adaptor_of_closure
        ao = deep_calls(F, bld, 'track::Track::add_observation')
        ok = bool(ao)
        eb = ExprBuilder(bld)
        for owner, c in ao:
            # result must reach a `?` (Try::branch) — not be dropped. In closure form (try_for_each / map + collect
            # into a Result) the closure returns the call's result and the adaptor's result reaches the `?`
            used = False
            if owner is bld:
                for br in bld.find_calls('std::ops::Try::branch'):
                    e = eb.operand(br.args[0])
                    if any(x.kind == 'call' and x.extra is c for x in e.walk()):
                        used = True
            else:
                ro = ExprBuilder(owner).place(0, ())
                returns_it = any(x.kind == 'call' and x.extra is c for x in ro.walk())
                pb, ac = adaptor_of_closure(F, bld, owner)
                if returns_it and pb is bld and ac is not None and ac.name in ('try_for_each', 'try_fold', 'map'):
                    for br in bld.find_calls('std::ops::Try::branch'):
                        e = eb.operand(br.args[0])
                        if any(x.kind == 'call' and x.extra is ac for x in e.walk()):
                            used = True
            ok = ok and used
        ctx.check(ok, R, bld, 'build:propagates-add_observation-error',
                  'TrackBuilder::build propagates add_observation failures',
                  'TrackBuilder::build does not propagate the result of Track::add_observation')


def _ownership(ctx):
    """who-may-write rows of rules/ownership.py that concern this property"""
    import ownership
    ctx.rule('R11.5', 'who-may-write: state this property depends on is changed only by its owners (rules/ownership.py)')
    ctx.floor('R11.5', ownership.run(ctx, 'R11.5', 'C11'), 7)
