"""C20 — spatio-temporal constraints are a pure, monotone filter on candidate pairs (filter semantics)."""
import trackerlib as T
from mir import norm
import votinglib as V
from lib import (ExprBuilder, all_closures, as_cmp, closure_args_of_call, orient, path_conditions,
                 result_assignments, upvar_expr)

EXPLANATION = (
    "Filter semantics decided on MIR: (R20.1) validate() selects the first constraint (in ascending stored order) "
    "whose gap is >= the epoch gap, admits exactly when dist <= that limit, and admits when no constraint applies; "
    "(R20.2) add_constraints sorts the table ascending by gap with a stable sort and then de-duplicates by gap, both "
    "after the last push, so lookups see a sorted, first-wins table; (R20.3) both compatible() impls return true only "
    "through validate(|epoch gap|, dist_in_2r(last predicted boxes of the two tracks)) == true (conjunction); (R20.4) "
    "dist_in_2r and too_far measure the centre distance between the two boxes against the sum of both bounding radii; "
    "(R20.6) who-may-write: the constraint table is mutated only by add_constraints (and helpers private to it), the "
    "builder hands its whole input to it."
    ' (R20.7) the batch trackers judge admission on the state the merge lands on: predict waits for the previous batch before advancing epochs and querying distances (monitor protocol shared with C06).'
    ' (R20.8) the regulariser of dist_in_2r is the public constant EPS = 1e-5; (R20.9) the epoch gap counts every predict call of the scene, empty frames included.')
EXPLANATION += ' R20.2 also requires that entries of the constraint table are never rewritten in place; (R20.10) the bounding radius is computed from the current half extents.'
NOT_DECIDED = ["tracker-level equivalence with/without non-binding constraints (two-run comparison)",
               "numeric value of the centre distance"]
ASSUMPTIONS = ["std sort_by is stable and dedup_by keeps the first of equal runs", "rustc nightly MIR construction"]

STC = 'trackers::spatio_temporal_constraints::SpatioTemporalConstraints'
STABLE_SORTS = ('sort_by', 'sort_by_key', 'sort', 'sort_by_cached_key')
UNSTABLE_SORTS = ('sort_unstable', 'sort_unstable_by', 'sort_unstable_by_key')


def run(ctx):
    _wiring(ctx)
    r1(ctx)
    r2(ctx)
    r6(ctx)
    ctx.rule('R20.3', 'compatible() true only through validate(gap, dist_in_2r(last predicted boxes))')
    ctx.rule('R20.3s', '(shared with C04) same scene')
    ctx.rule('R20.3i', '(shared with C03) idle bound')
    ctx.floor('R20.3', T.rule_compatible(ctx, 'R20.3s', 'R20.3i', 'R20.3'), 6)
    r4(ctx)
    from props import C08
    ctx.rule('R20.10', 'the bounding radius dist_in_2r / too_far divide by is computed from the CURRENT half extents of the box '
                       '(aspect and height are public, assignable fields: a radius stored at construction goes stale)')
    ctx.floor('R20.10', C08.radius_rule(ctx, 'R20.10'), 1)
    # batch trackers: admission is judged against the track the detection is then attached to - the previous batch is
    # finished (merged) before the distances of the next one are computed (monitor protocol, shared with C06 / C05)
    ctx.rule('R20.9', 'the epoch gap the table is consulted with counts every predict call of the scene, empty frames included')
    ctx.floor('R20.9', T.rule_predict_epoch(ctx, 'R20.9'), 4)
    import misclib
    ctx.rule('R20.8', 'the regulariser of dist_in_2r is the public constant EPS = 1e-5')
    ctx.floor('R20.8', misclib.rule_library_epsilon(ctx, 'R20.8'), 1)
    from props import C06
    ctx.rule('R20.7', 'batch trackers judge admission on the stored state the merge lands on: predict waits for the previous '
                      'batch before advancing epochs and querying distances')
    ctx.floor('R20.7', C06.protocol(ctx, 'R20.7'), 10)


def elem_roles(F):
    """(gap component, limit component) of one element of the constraint table: `.0` / `.1` of the reference tuple
    `(usize, f32)`, or - when the element became a private struct - the names of its usize and f32 fields"""
    a = F.adts.get('trackers::spatio_temporal_constraints::SpatioTemporalConstraints')
    if a:
        for v in a['variants']:
            for f in v['fields']:
                if f['name'] == 'constraints':
                    ty = f['ty']
                    inner = ty[ty.index('<') + 1:ty.rindex('>')].strip() if '<' in ty else ''
                    if inner and not inner.startswith('('):
                        e = F.adts.get(norm(inner.split('<', 1)[0]))
                        if e and len(e['variants']) == 1:
                            gaps = [g['name'] for g in e['variants'][0]['fields'] if g['ty'] == 'usize']
                            lims = [g['name'] for g in e['variants'][0]['fields'] if g['ty'] == 'f32']
                            if len(gaps) == 1 and len(lims) == 1:
                                return gaps[0], lims[0]
    return '0', '1'


def r1(ctx):
    R = 'R20.1'
    ctx.rule(R, 'validate: first constraint with gap >= epoch gap; admitted iff dist <= limit; none => admitted')
    b = ctx.anchor(R, STC + '::validate')
    if b is None:
        return
    GAP, LIM = elem_roles(ctx.F)
    F = ctx.F
    eb = ExprBuilder(b)
    n = 0
    finds = [c for c in b.find_calls() if c.name in ('find', 'rfind', 'position', 'rposition', 'find_map', 'filter',
                                                     'max_by', 'min_by', 'max_by_key', 'min_by_key', 'last', 'rev',
                                                     'binary_search_by', 'partition_point', 'skip_while', 'take_while',
                                                     'any', 'all')]
    if not finds and b.loops():
        n += loop_form_validate(ctx, R, b, eb)
        ctx.floor(R, n, 4)
        return
    fm_limit = False
    if len(finds) == 1 and finds[0].name == 'find_map':
        # `iter().find_map(|(gap, limit)| (gap >= epoch_gap).then_some(limit))`: the first applicable entry, projected to
        # its limit inside the closure - judged there; any other find_map closure is reported below
        recv = eb.arg(finds[0], 0)
        okc = False
        detail = ''
        for cb in closure_args_of_call(F, b, finds[0]):
            ctx.read(cb)
            r = ExprBuilder(cb).place(0, ())
            detail = repr(r)[:120]
            cand = []
            if r.kind == 'call' and r.name.rsplit('::', 1)[-1] == 'then_some' and len(r.args) == 2:
                cand.append((as_cmp(r.args[0], True), r.args[1]))
            elif r.kind == 'phi':
                for a in r.args:
                    if a.kind == 'agg' and a.name.endswith('Some') and a.args and a.site:
                        for c_ in path_conditions(cb, a.site[0]):
                            cm_ = c_.cmp()
                            if cm_:
                                cand.append((cm_, a.args[0]))
            for cm, v in cand:
                if not cm:
                    continue

                def is_gap(e):
                    e = e.strip()
                    if e.kind == 'place' and e.root[0] == 'upvar':
                        pb, pe = upvar_expr(F, cb, e.root[1])
                        return pe is not None and pe.strip().kind == 'place' and pe.strip().root == ('param', 2)
                    return False
                o = orient(cm, lambda e: not is_gap(e))
                vs = v.strip()
                okc = o is not None and is_gap(o[2]) and o[0] == 'Ge' and o[1].strip().kind == 'place' and \
                    o[1].strip().fields[-1:] == (GAP,) and vs.kind == 'place' and vs.fields[-1:] == (LIM,) and \
                    vs.root == o[1].strip().root
        n += 3
        fwd = recv.has_place(root=('param', 1), field='constraints') and not recv.has_call('rev')
        ctx.check(okc, R, b, 'lookup:first-match-in-stored-order', 'find_map: ' + detail,
                  'the applicable constraint is selected with a find_map whose closure is not `(gap >= epoch gap).then_some(limit)` '
                  '(%s)' % detail)
        ctx.check(fwd, R, b, 'lookup:over-self.constraints', repr(recv)[:80], 'the lookup does not iterate self.constraints forward')
        ctx.check(okc, R, b, 'lookup:gap>=epoch_delta', detail, 'a constraint is considered applicable without `configured gap >= epoch gap`')
        fm_limit = okc and fwd
        ok = False
    else:
        n += 1
        ok = len(finds) == 1 and finds[0].name == 'find'
        ctx.check(ok, R, b, 'lookup:first-match-in-stored-order', [c.name for c in finds],
                  'the applicable constraint is selected with %s (expected a single forward `find`: the smallest gap not '
                  'below the epoch gap)' % [c.name for c in finds])
    if ok:
        recv = eb.arg(finds[0], 0)
        n += 1
        ctx.check(recv.has_place(root=('param', 1), field='constraints') and not recv.has_call('rev'), R, b,
                  'lookup:over-self.constraints', repr(recv)[:80], 'the lookup does not iterate self.constraints forward')
        for cb in closure_args_of_call(F, b, finds[0]):
            ctx.read(cb)
            for bb, knd, payload in result_assignments(cb):
                if knd != 'expr':
                    continue
                cm = as_cmp(payload, True)
                if not cm:
                    continue
                l, r = cm[1].strip(), cm[2].strip()

                def is_gap(e):
                    if e.kind == 'place' and e.root[0] == 'upvar':
                        pb, pe = upvar_expr(F, cb, e.root[1])
                        return pe is not None and pe.strip().kind == 'place' and pe.strip().root == ('param', 2)
                    return False
                o = orient(cm, lambda e: not is_gap(e.strip()))
                n += 1
                ok2 = o is not None and is_gap(o[2].strip()) and o[0] == 'Ge' and o[1].strip().kind == 'place' and \
                    o[1].strip().fields[-1:] == (GAP,)
                ctx.check(ok2, R, cb, 'lookup:gap>=epoch_delta', '%r %s epoch_delta' % (o[1], o[0]) if o else '',
                          'a constraint is considered applicable when `%s` (expected `configured gap >= epoch gap`)' %
                          ('%r %s %r' % (cm[1], cm[0], cm[2])))
    # result: None => true ; Some => dist <= limit
    none_true = some_le = False
    for bb, knd, payload in result_assignments(b):
        conds = path_conditions(b, bb)
        is_none = any(c.kind == 'discr' and c.variants == {'None'} for c in conds)
        is_some = any(c.kind == 'discr' and c.variants == {'Some'} for c in conds)
        if is_none:
            n += 1
            none_true = knd == 'const' and payload is True
            ctx.check(none_true, R, b, 'no-constraint=>admitted', '', 'without an applicable constraint the pair is not '
                      'admitted (%s %r): constraints would add rejections of their own' % (knd, payload))
        if is_some and knd == 'expr':
            cm = as_cmp(payload, True)
            n += 1
            o = orient(cm, lambda e: e.strip().kind == 'place' and e.strip().root == ('param', 3)) if cm else None
            some_le = o is not None and o[0] == 'Le' and (o[2].has_call('find')) and (
                o[2].strip().proj[-1:] == (LIM,) or o[2].proj[-1:] == (LIM,) or repr(o[2]).endswith('.' + LIM))
            if fm_limit and o is not None and o[0] == 'Le' and o[2].has_call('find_map'):
                # the find_map closure already projected the selected entry to its limit
                some_le = True
            ctx.check(some_le, R, b, 'admitted-iff-dist<=limit', '%s' % (('%r %s %r' % (o[1], o[0], o[2])) if o else cm),
                      'with an applicable constraint the pair is admitted when `%s` (expected `dist <= configured '
                      'limit` of the selected constraint)' % (('%r %s %r' % (cm[1], cm[0], cm[2])) if cm else payload))
        if is_some and knd == 'const':
            n += 1
            ctx.fail(R, b, 'admitted-iff-dist<=limit', 'with an applicable constraint validate returns the constant %r' % payload)
    ctx.floor(R, n, 5)


def loop_form_validate(ctx, R, b, eb):
    """validate() written as an explicit forward loop with an early return on the first applicable constraint"""
    GAP, LIM = elem_roles(ctx.F)
    n = 0
    nx = [c for c in b.find_calls('std::iter::Iterator::next') if b.in_loop(c.bb)]
    n += 1
    fwd = len(nx) == 1 and eb.arg(nx[0], 0).has_place(root=('param', 1), field='constraints') and not any(
        eb.arg(nx[0], 0).has_call(x) for x in ('rev', 'sorted', 'sorted_by', 'skip', 'step_by'))
    ctx.check(fwd, R, b, 'lookup:first-match-in-stored-order', 'forward loop over self.constraints',
              'the applicable constraint is not searched by one forward pass over self.constraints')
    if not fwd:
        return n
    n += 1
    ctx.ok(R, b, 'lookup:over-self.constraints', 'forward loop')
    none_true = False
    for bb, knd, payload in result_assignments(b):
        conds = path_conditions(b, bb)
        in_loop = bool(b.in_loop(bb))
        exhausted = any(c.kind == 'discr' and c.variants == {'None'} and c.expr.has_call('next') for c in conds)
        if exhausted and not any(c.kind == 'discr' and c.variants == {'Some'} and c.expr.has_call('next') for c in conds):
            n += 1
            none_true = knd == 'const' and payload is True
            ctx.check(none_true, R, b, 'no-constraint=>admitted', '', 'without an applicable constraint the pair is not '
                      'admitted (%s %r): constraints would add rejections of their own' % (knd, payload))
            continue
        # a result produced inside the loop: the element is applicable (gap >= epoch gap) and the answer is dist <= limit
        gap_ok = False
        for c in conds:
            cm = c.cmp()
            if not cm:
                continue
            o = orient(cm, lambda e: e.strip().kind == 'place' and e.strip().root == ('param', 2))
            if o and o[2].has_call('next') and repr(o[2].strip()).endswith('.' + GAP):
                # epoch_gap OP elem.0  ->  elem.0 flipped
                from mir import FLIP
                gap_ok = gap_ok or FLIP.get(o[0], o[0]) == 'Ge'
        n += 1
        ctx.check(gap_ok, R, b, 'lookup:gap>=epoch_delta', str([str(c) for c in conds])[:120],
                  'a constraint is taken as applicable without `configured gap >= epoch gap` (%s)' % [str(c) for c in conds])
        n += 1
        if knd == 'expr':
            cm = as_cmp(payload, True)
            o = orient(cm, lambda e: e.strip().kind == 'place' and e.strip().root == ('param', 3)) if cm else None
            ok = o is not None and o[0] == 'Le' and o[2].has_call('next') and repr(o[2].strip()).endswith('.' + LIM)
            ctx.check(ok, R, b, 'admitted-iff-dist<=limit', '%s' % (('%r %s %r' % (o[1], o[0], o[2])) if o else cm),
                      'with an applicable constraint the pair is admitted when `%s` (expected `dist <= configured '
                      'limit` of the selected constraint)' % (('%r %s %r' % (cm[1], cm[0], cm[2])) if cm else payload))
        else:
            ctx.fail(R, b, 'admitted-iff-dist<=limit', 'with an applicable constraint validate returns the constant %r' % payload)
    return n


def r2(ctx):
    R = 'R20.2'
    ctx.rule(R, 'add_constraints: stable ascending sort by gap, then dedup by gap, after the last push')
    b = ctx.anchor(R, STC + '::add_constraints')
    if b is None:
        return
    n = writer_clauses(ctx, R, b, '')
    ctx.floor(R, n, 6)


def writer_clauses(ctx, R, b, tag):
    """the clauses that make a function a CONFORMING writer of the constraint table: everything it pushes ends up in a
    table that is stably sorted ascending by gap and de-duplicated first-wins"""
    F = ctx.F
    eb = ExprBuilder(b)
    n = 0
    sorts = [c for c in b.find_calls() if c.name in STABLE_SORTS + UNSTABLE_SORTS and 'slice' in c.callee]
    dedups = [c for c in b.find_calls() if c.name in ('dedup_by', 'dedup_by_key', 'dedup')]
    from lib import effective_sites

    class _Site:           # a push seen at the block of `b` where it effectively happens (closure bodies included)
        def __init__(self, bb):
            self.bb = bb
    pushes = [_Site(bb) for bb, c, owner in effective_sites(F, b, 'std::vec::Vec::push', 'std::vec::Vec::extend',
                                                            'extend_from_slice', 'append', 'std::vec::Vec::insert')]
    n += 1
    ctx.check(len(sorts) == 1 and sorts[0].name in STABLE_SORTS, R, b, tag + 'sort:stable', [c.name for c in sorts],
              'the constraint table is sorted with %s (expected one stable sort: with an unstable sort a gap '
              'configured twice no longer keeps its first limit)' % [c.name for c in sorts])
    for c in sorts:
        d, f = V.sort_semantics(F, b, c)
        n += 1
        ctx.check(d == 'asc' and f == elem_roles(F)[0], R, b, tag + 'sort:ascending-by-gap', '%s on .%s' % (d, f),
                  'the table is sorted %s on field .%s (expected ascending by gap: `find` must meet the smallest '
                  'applicable gap first)' % (d, f), c.ln)
        recv = eb.arg(c, 0)
        n += 1
        ctx.check(recv.has_place(root=('param', 1), field='constraints'), R, b, tag + 'sort:self.constraints', '',
                  'the sort is not applied to self.constraints')
        for p in pushes:
            n += 1
            inloop = b.in_loop(p.bb)
            ok = c.bb in b.reach_from(p.bb) and not (set(inloop) & set(b.in_loop(c.bb))) or not inloop and \
                b.dominates(p.bb, c.bb)
            ctx.check(ok, R, b, tag + 'sort:after-last-push', '', 'the sort does not run after all constraints were pushed')
    n += 1
    ctx.check(len(dedups) == 1 and bool(sorts) and b.dominates(sorts[0].bb, dedups[0].bb), R, b, tag + 'dedup:after-sort',
              [c.name for c in dedups], 'duplicates of a gap are not removed after the sort (%s)' % [c.name for c in dedups])
    for c in dedups:
        k = V.dedup_key(F, b, c)
        n += 1
        ctx.check(k == elem_roles(F)[0], R, b, tag + 'dedup:by-gap', 'duplicates identified by field .%s' % k,
                  'duplicates are identified by field .%s instead of equal gaps' % k, c.ln)
    # the limits stored are the limits configured: entries are pushed, ordered and de-duplicated, never rewritten in place
    # ("the limit configured for the smallest gap not below d" - a table made monotone by a running maximum answers with
    # a limit nobody configured)
    from lib import all_closures
    patch = []
    for hb in [b] + all_closures(F, b):
        for c in hb.find_calls('iter_mut', 'get_mut', 'index_mut', 'last_mut', 'first_mut', 'for_each', 'as_mut_slice',
                               'split_at_mut', 'chunks_mut', 'windows', 'get_unchecked_mut', 'swap', 'fill'):
            if c.name in ('for_each', 'windows'):
                continue
            if c.args and c.args[0].get('k') in ('copy', 'move'):
                ty = str(hb.locals[c.args[0]['pl']['l']])
                if '(usize, f32)' in ty:
                    patch.append(c)
    n += 1
    ctx.check(not patch, R, b, tag + 'limits-never-rewritten-in-place', '',
              'entries of the constraint table are rewritten in place (%s): the limit found for a gap is then not the one '
              'that was configured for it' % sorted({c.name for c in patch}), patch[0].ln if patch else '')
    return n


def r4(ctx, R='R20.4', names=('dist_in_2r', 'too_far')):
    if R == 'R20.4':
        ctx.rule(R, 'dist_in_2r / too_far: centre difference of the two boxes against the sum of BOTH bounding radii')
    n = 0
    for name in names:
        b = ctx.anchor(R, 'utils::bbox::Universal2DBox::' + name)
        if b is None:
            continue
        eb = ExprBuilder(b)
        adds = []
        subs = []
        for i in sorted(b.live_blocks()):
            for si, s in enumerate(b.blocks[i]['st']):
                if s['k'] == 'assign' and s['rv']['k'] == 'bin':
                    e = eb._rvalue(s['rv'], (), 0, (i, si))
                    if e.name == 'Add' and all(a.has_call('get_radius') and a.strip().kind == 'call' for a in e.args):
                        adds.append((e, s['ln']))
                    if e.name == 'Sub' and all(a.strip().kind == 'place' for a in e.args):
                        subs.append((e, s['ln']))
        n += 1
        ok = len(adds) == 1
        detail = [repr(a[0]) for a in adds]
        if ok:
            roots = [tuple(p.root for p in a.places()) for a in adds[0][0].args]
            ok = {r[0] for r in roots if r} == {('param', 1), ('param', 2)}
        ctx.check(ok, R, b, name + ':sum-of-both-radii', detail, '%s measures against %s (expected the sum of the '
                  'bounding radii of BOTH boxes)' % (name, detail), adds[0][1] if adds else '')
        # the verdict comes from that comparison on every path: a shortcut that answers without the bounding radii
        # (e.g. an axis test in the wrong frame for "parallel" boxes) can call overlapping boxes far
        n += 1
        bad = []
        for bb_, kind_, payload_ in result_assignments(b):
            if kind_ == 'expr' and len([y for y in payload_.walk() if y.kind == 'call' and
                                        y.name.rsplit('::', 1)[-1] == 'get_radius']) >= 2:
                continue
            bad.append((kind_, payload_))
        ctx.check(not bad, R, b, name + ':verdict-only-from-the-radius-comparison', '',
                  '%s can answer %s without comparing the centre distance with the sum of both bounding radii' % (
                      name, [repr(x[1])[:80] for x in bad]))
        for coord in ('xc', 'yc'):
            mine = [e for e, ln in subs if all(a.strip().fields[-1:] == (coord,) for a in e.args)]
            n += 1
            ok = len(mine) == 1 and {a.strip().root for a in mine[0].args} == {('param', 1), ('param', 2)}
            ctx.check(ok, R, b, '%s:centre-difference-%s' % (name, coord), [repr(m) for m in mine],
                      '%s does not use the difference of the two boxes\' %s' % (name, coord))
    if R == 'R20.4':
        ctx.floor(R, n, 6)
    return n


def r6(ctx):
    """who-may-write: the constraint table is only ever changed by add_constraints (the one place that validates,
    sorts stably and de-duplicates first-wins); any other writer can reorder, overwrite or drop limits."""
    from lib import field_mutators
    import wiring
    R = 'R20.6'
    ctx.rule(R, 'only add_constraints (and helpers private to it) mutates the constraint table')
    F = ctx.F
    owner = ctx.anchor(R, STC + '::add_constraints')
    if owner is None:
        return
    muts = field_mutators(F, 'SpatioTemporalConstraints', 'constraints', skip=wiring.skip_body)
    callers = F.callers()
    allowed = {owner.npath}

    def root_fn(b):
        # closures belong to the function that defines them
        p = b.npath
        while '::{closure#' in p:
            p = p[:p.rindex('::{closure#')]
        return p
    changed = True
    while changed:
        changed = False
        for b in muts:
            r = root_fn(b)
            if r in allowed:
                continue
            cs = [root_fn(cb) for cb, _ in callers.get(r, [])]
            if cs and all(c in allowed for c in cs):
                allowed.add(r)
                changed = True
    n = 0
    seen_owner = False
    conforming_writers = set()
    for b, sites in sorted(muts.items(), key=lambda kv: kv[0].npath):
        r = root_fn(b)
        n += 1
        seen_owner = seen_owner or r == owner.npath
        ctx.read(b)
        if r in allowed:
            ctx.ok(R, b, 'writer:' + r.rsplit('::', 1)[-1], '%d write site(s)' % len(sites), sites[0][1])
            continue
        # another writer is acceptable only if it is a complete, conforming writer itself (same validate / sort /
        # dedup procedure, e.g. through a helper shared with add_constraints)
        wb = F.one(r)
        before = len(ctx.findings)
        if wb is not None:
            writer_clauses(ctx, R, wb, 'writer:%s:' % r.rsplit('::', 1)[-1])
        conforming = wb is not None and len(ctx.findings) == before and bool(
            [c for c in wb.find_calls() if c.name in STABLE_SORTS and 'slice' in c.callee])
        ctx.check(conforming, R, b, 'writer:' + r.rsplit('::', 1)[-1], '%d write site(s)' % len(sites),
                  '%s changes SpatioTemporalConstraints::constraints directly (%s at %s) without performing the '
                  'complete procedure of add_constraints (stable sort by gap, first-wins de-duplication): the table '
                  'can lose its order, its first-wins rule or entries' % (r, sites[0][0], sites[0][1]), sites[0][1])
        if conforming:
            conforming_writers.add(r)
    ctx.check(seen_owner, R, owner, 'add_constraints-writes-the-table', '', 'add_constraints no longer writes the table')
    # the builder form goes through add_constraints with all of its input
    bb = ctx.anchor(R, STC + '::constraints')
    if bb is not None:
        eb = ExprBuilder(bb)
        cs = bb.find_calls(STC + '::add_constraints')
        n += 1
        ok = (len(cs) == 1 and eb.arg(cs[0], 1).has_place(root=('param', 2))) or bb.npath in conforming_writers
        ctx.check(ok, R, bb, 'builder-delegates-to-add_constraints', repr(eb.arg(cs[0], 1))[:80] if cs else '',
                  'the builder `constraints()` does not hand its whole input to add_constraints')
    ctx.floor(R, n + 1, 3)


def _wiring(ctx):
    """name-agreement wiring of the configuration values this property depends on (rules/wiring.py)"""
    import wiring
    ctx.rule('R20.5', 'configuration plumbing: same-named fields / parameters / setters / call arguments are not crossed')
    ctx.floor('R20.5', wiring.run(ctx, 'R20.5', {'spatio_temporal_constraints'}), 5)
