"""C01 — tracker output contract: one record per detection, in order; ids distinct and never re-issued."""
import trackerlib as T
from lib import (Cond, ExprBuilder, all_closures, closure_args_of_call, count_on_paths, path_conditions, upvar_expr)
from mir import norm

EXPLANATION = (
    "Order / wiring / id-counter clauses decided on MIR of the four predict pipelines: (R01.1) the candidate vector is "
    "built from the input slice (batch: the scene's entry) by an order-preserving chain (iter/enumerate/map/collect), "
    "the result loop iterates that vector and pushes exactly one record per iteration into the vector that is "
    "returned / sent, and no reordering or dropping operation (rev, filter, sort, retain, dedup, truncate, swap, ...) "
    "is applied to candidates or records; (R01.2) the record constructor, the attribute-update constructor, apply() "
    "and the attribute merge copy id / epoch / scene / custom id / length / last observed and predicted box from the "
    "documented sources; (R01.3) the id counter is only ever incremented by one, a fresh id is taken under the "
    "same write access as the increment, and every track added to the store carries an id drawn from that counter; "
    "(R01.4) each record is read back from the store under the id chosen in that iteration (new id or winner). "
    "(R01.8) a track is awarded to at most one detection per call: the best-fit claim set records awarded tracks, the positional assignment is one-to-one; (R01.7) who-may-write rows for histories and track length."
    " (R01.9) own coverage of the length and echo clauses: optimize() performs exactly one history step per detection (track_length += 1), and the box make_prediction reports - the one kept for the next association and echoed for a continued track - is the conversion of the updated filter state with nothing but the observation's confidence written afterwards."
    " (R01.10) what the caller submits is what the tracker sees: the observation constructor stores box, custom id, feature and quality unchanged (a None produced by a predicate instead of the parameter's own None is reported), and a batch files every detection under its own scene id.")
NOT_DECIDED = ["that two detections never share a track within one call (follows from the assignment algorithms: "
               "C02 R02.2 / C17 R17.4 decide the structural part)", "concrete boxes and epochs for concrete inputs"]
ASSUMPTIONS = ["std iterators preserve order as documented", "rustc nightly MIR construction", "panics out of scope"]

DENY = {'rev', 'filter', 'filter_map', 'skip', 'skip_while', 'take', 'take_while', 'step_by', 'sort', 'sort_by',
        'sort_by_key', 'sort_unstable', 'sort_unstable_by', 'sort_unstable_by_key', 'sorted', 'sorted_by',
        'sorted_by_key', 'reverse', 'retain', 'retain_mut', 'dedup', 'dedup_by', 'dedup_by_key', 'swap', 'swap_remove',
        'remove', 'truncate', 'drain', 'pop', 'split_off', 'rotate_left', 'rotate_right', 'shuffle', 'chain',
        'flat_map', 'flatten', 'map_while', 'unique', 'insert', 'par_iter', 'into_par_iter', 'zip', 'last', 'nth',
        'clear', 'resize', 'extend', 'append', 'interleave', 'scan', 'skip_last'}
ALLOW = {'iter', 'into_iter', 'enumerate', 'map', 'collect', 'clone', 'cloned', 'copied', 'next', 'deref',
         'deref_mut', 'len', 'as_ref', 'as_slice', 'to_vec', 'default', 'new', 'with_capacity', 'push', 'index',
         'get_batch', 'borrow', 'unwrap', 'expect', 'recv', 'is_empty', 'iter_mut', 'as_mut', 'by_ref', 'reserve',
         'into', 'from', 'get', 'to_owned'}

RECORD_FROM = {
    'sort': '<trackers::sort::SortTrack as std::convert::From<&track::Track>>::from',
}


def record_ctor_bodies(ctx):
    out = []
    for b in ctx.F.fn_bodies():
        if b.kind == 'AssocFn' and b.d.get('name') == 'from' and b.d.get('impl_self', '').endswith(
                'trackers::sort::SortTrack') and b.d.get('impl_trait', '').endswith('From'):
            out.append(b)
    return out


def run(ctx):
    _ownership(ctx)
    _wiring(ctx)
    import metriclib
    ctx.rule('R01.6', 'the histories whose last entries are echoed keep the newest entries (push_back / pop_front)')
    ctx.floor('R01.6', metriclib.rule_histories(ctx, 'R01.6'), 19)
    shared_counter(ctx, 'R01.3')
    import votinglib as V
    ctx.rule('R01.8', 'a track is awarded to at most one detection per call (appearance claims; one-to-one assignment)')
    n = V.rule_bestfit_claims(ctx, 'R01.8')
    n += V.rule_hungarian(ctx, 'R01.8')
    ctx.floor('R01.8', n, 3)
    r1(ctx)
    r2(ctx)
    r3(ctx)
    r4(ctx)
    # own coverage of the "length of its track" and "echoes the observed box" clauses (shared with C03 / C07 / C02)
    ctx.rule('R01.9', 'length echoed = one history step per detection (update_history exactly once per optimize(), '
                      'track_length += 1); the box kept for a continued track is the conversion of the updated filter '
                      'state, untouched except for the confidence of the observation')
    from props import C07
    n = T.rule_length_step(ctx, 'R01.9')
    n += C07.sequence_rule(ctx, 'R01.9')
    ctx.floor('R01.9', n, 10)
    import wiring
    ctx.rule('R01.10', 'what a caller submits is what the tracker sees: the observation constructor stores box, custom id, '
                       'feature and quality unchanged; a batch files every detection under its own scene (one entry - one '
                       'epoch step, one result - per scene id)')
    n = wiring.identity_ctor(ctx, 'R01.10', 'trackers::visual_sort::VisualSortObservation::new')
    n += T.rule_batch_request(ctx, 'R01.10')
    ctx.floor('R01.10', n, 6)


def tracked_type(ty):
    return 'track::Track<' in ty or 'SortTrack' in ty or 'VisualSortObservation' in ty or \
        '(utils::bbox::Universal2DBox, std::option::Option<i64>)' in ty


def r1(ctx, R='R01.1'):
    ctx.rule(R, 'order-preserving pipeline: candidates from input in order; exactly one push per candidate; no '
                'reordering/dropping operation on candidates or records')
    F = ctx.F
    n = 0
    for tname, t in T.TRACKERS.items():
        pb = ctx.anchor(R, t['predict'])
        lb = ctx.anchor(R, T.result_path(t))
        if pb is None or lb is None:
            continue
        # (a) candidate chain in predict
        ebp = ExprBuilder(pb)
        ftd = pb.find_calls('track::store::TrackStore::foreign_track_distances')
        n += 1
        if len(ftd) != 1:
            ctx.fail(R, pb, tname + ':candidates', 'ANCHOR-MISSING: expected one foreign_track_distances call, found %d' % len(ftd))
            continue
        cand = ebp.arg(ftd[0], 1)
        names = [x.name.rsplit('::', 1)[-1] for x in cand.walk() if x.kind == 'call']
        bad = [nm for nm in names if nm in DENY]
        unk = [nm for nm in names if nm not in DENY and nm not in ALLOW and nm not in (
            'thread_rng', 'next_epoch', 'shard_stats', 'read', 'write', 'lock')]
        if t['batch']:
            from_input = cand.has_call('get_batch') and cand.has_call('next')
        else:
            from_input = cand.has_place(root=('param', 3))
        has_map = cand.has_call('map') and cand.has_call('collect')
        ctx.check(not bad and from_input and has_map, R, pb, tname + ':candidates-built-in-input-order',
                  'chain: %s' % [nm for nm in names if nm in ALLOW][:12],
                  'the candidate tracks are not built from the submitted detections by an order-preserving chain '
                  '(order-breaking operations: %s; from input: %s)' % (bad, from_input), ftd[0].ln)
        for u in set(unk):
            ctx.note(R, '%s: unclassified operation `%s` on the candidate chain (not armed)' % (tname, u))
        # one candidate per detection: the map closure returns a built track on every path
        for c in pb.find_calls('std::iter::Iterator::map'):
            if not any(x.kind == 'call' and x.extra is c for x in cand.walk()):
                continue
            for cb in closure_args_of_call(F, pb, c):
                builds = cb.find_calls('track::builder::TrackBuilder::build')
                if not builds and not cb.find_calls('track::store::TrackStore::new_track'):
                    continue
                r = count_on_paths(cb, 0, cb.returns(), [x.bb for x in builds])
                n += 1
                ctx.check(r == (1, 1), R, cb, tname + ':one-candidate-per-detection', 'build() once per element',
                          'the candidate-construction closure builds %s tracks per detection' % (r,))
        # (b) the loop consumes the candidate vector in order
        ebl = ExprBuilder(lb)
        if lb.kind == 'Closure' and lb is not pb:
            # map/collect form: the per-candidate decision is a closure that RETURNS the record; `map` yields exactly
            # one record per candidate, in order, provided the chain around it neither drops nor reorders
            from lib import adaptor_of_closure
            n += 1
            ctx.check('SortTrack' in lb.locals[0] and 'Option' not in lb.locals[0], R, lb, tname + ':record-push',
                      'the per-candidate closure returns the record',
                      'the per-candidate closure returns %s (expected one record per candidate)' % lb.locals[0])
            apb, ac = adaptor_of_closure(F, pb, lb)
            n += 1
            okad = apb is pb and ac is not None and ac.name == 'map'
            it = ExprBuilder(pb).arg(ac, 0) if okad else None
            names = [x.name.rsplit('::', 1)[-1] for x in it.walk() if x.kind == 'call'] if it is not None else []
            bad = [nm for nm in names if nm in DENY]
            okit = okad and any(y.kind == 'call' and y.name.endswith('collect') for y in it.walk()) and \
                it.has_place(root=('param', 3))
            ctx.check(okit and not bad, R, pb, tname + ':loop-over-candidates', 'maps over %s' % names[:6],
                      'the records are not produced by mapping the candidate vector in order (adaptor %s, '
                      'order-breaking operations %s)' % (ac.name if ac else None, bad))
            n += 1
            ctx.ok(R, lb, tname + ':one-record-per-candidate', 'one value returned per element of map()')
            res = ExprBuilder(pb).place(0, ()).strip()
            rn = [x.name.rsplit('::', 1)[-1] for x in res.walk() if x.kind == 'call']
            n += 1
            same = res.kind == 'call' and res.name.rsplit('::', 1)[-1] in ('collect', 'collect_vec') and any(
                x.kind == 'call' and x.extra is ac for x in res.walk()) and not [nm for nm in rn if nm in DENY]
            ctx.check(same, R, pb, tname + ':pushed-vector-is-the-result', 'result = collect(map(candidates))',
                      'the vector returned (%r) is not the collected records of the per-candidate map' % res)
            pushes = None
        else:
            pushes = [c for c in lb.find_calls('std::vec::Vec::push') if 'SortTrack' in lb.locals[c.args[1]['pl']['l']]]
        if pushes is None:
            pass
        elif not pushes:
            n += 1
            ctx.fail(R, lb, tname + ':record-push', 'ANCHOR-MISSING: no push of a record into the result vector')
            continue
        else:
            n += 1
        if pushes is None:
            n += deny_scan(ctx, R, F, tname, pb, lb)
            continue
        push = pushes[0]
        loops = [h for h, blks in lb.loops().items() if push.bb in blks]
        inner = None
        for h in loops:
            nx = [x for x in lb.find_calls('std::iter::Iterator::next') if x.bb in lb.loops()[h]]
            for x in nx:
                it = ebl.arg(x, 0)
                if t['batch']:
                    okit = it.has_field('tracks') and it.has_call('recv')
                else:
                    okit = any(y.kind == 'call' and y.name.endswith('collect') for y in it.walk()) and \
                        it.has_place(root=('param', 3))
                if okit:
                    inner = (h, x, it)
        n += 1
        if inner is None:
            ctx.fail(R, lb, tname + ':loop-over-candidates', 'the record push is not inside a loop over the candidate '
                     'vector (%s)' % [h for h in loops], push.ln)
            continue
        h, nx, it = inner
        names = [x.name.rsplit('::', 1)[-1] for x in it.walk() if x.kind == 'call']
        bad = [nm for nm in names if nm in DENY]
        ctx.check(not bad, R, lb, tname + ':loop-over-candidates', 'iterates %s' % [nm for nm in names][:6],
                  'the result loop iterates the candidates through order-breaking operations %s' % bad, nx.ln)
        # exactly one push per iteration
        some_t = None
        tb = lb.blocks[nx.target]['t']
        if tb['k'] == 'switch':
            for tg in set(tg for _, tg in lb.switch_edges(nx.target)):
                if tg in lb.diverging():
                    continue
                c = Cond(lb, nx.target, tg)
                if c.kind == 'discr' and c.variants == {'Some'}:
                    some_t = tg
        n += 1
        if some_t is None:
            ctx.fail(R, lb, tname + ':one-record-per-candidate', 'cannot locate the loop body')
        else:
            r = count_on_paths(lb, some_t, [nx.bb], [p_.bb for p_ in pushes])
            ctx.check(r == (1, 1), R, lb, tname + ':one-record-per-candidate', 'exactly one push on every path of an iteration',
                      'an iteration of the result loop pushes between %s and %s records (expected exactly one per '
                      'detection: a skipping or duplicating path exists)' % (r[0] if r else '?', r[1] if r else '?'),
                      push.ln)
        # (c) the vector pushed to is the one returned / sent, untouched in between
        vec = ebl.arg(push, 0).strip()
        for p_ in pushes[1:]:
            v2 = ebl.arg(p_, 0).strip()
            if not (v2.kind == 'call' and vec.kind == 'call' and v2.extra is vec.extra):
                ctx.fail(R, lb, tname + ':pushed-vector-is-the-result', 'records are pushed to different vectors', p_.ln)
        if t['batch']:
            sends = [c for c in lb.find_calls('crossbeam::crossbeam_channel::Sender::send')]
            out_e = None
            for c in sends:
                v = ebl.arg(c, 1)
                if v.kind == 'agg' and v.name == 'tuple' and len(v.args) == 2:
                    out_e = v.args[1].strip()
        else:
            out_e = ebl.place(0, ()).strip()
        n += 1
        same = out_e is not None and out_e.kind == 'call' and vec.kind == 'call' and out_e.extra is vec.extra
        ctx.check(same, R, lb, tname + ':pushed-vector-is-the-result', 'result = the vector the records are pushed to',
                  'the vector returned / sent (%r) is not the one the records are pushed to (%r)' % (out_e, vec))
        n += deny_scan(ctx, R, F, tname, pb, lb)
    ctx.floor(R, n, 24)


def deny_scan(ctx, R, F, tname, pb, lb):
    """(d) deny-list operations applied to tracked vectors anywhere in the pipeline bodies"""
    n = 0
    bodies = {pb.npath: pb, lb.npath: lb}
    for cb in all_closures(F, pb) + all_closures(F, lb):
        bodies[cb.npath] = cb
    for b in bodies.values():
        for c in b.find_calls():
            if c.name not in DENY or not c.args:
                continue
            a0 = c.args[0]
            if a0['k'] not in ('copy', 'move'):
                continue
            ty = b.locals[a0['pl']['l']]
            if ('Vec<' in ty or 'Iter' in ty or '[' in ty) and tracked_type(ty) and 'HashMap' not in ty:
                n += 1
                ctx.fail(R, b, tname + ':order-breaking-op:' + c.name,
                         '`%s` is applied to %s in the predict pipeline: records are no longer one per detection '
                         'in submission order' % (c.name, ty[:80]), c.ln)
    return n


def agg_fields(e):
    return dict(zip(e.extra['fields'], e.args))


def r2(ctx, R='R01.2'):
    ctx.rule(R, 'record / update / apply / merge wiring')
    n = 0
    recs = record_ctor_bodies(ctx)
    if len(recs) < 2:
        ctx.fail(R, '<crate>', 'record-constructors', 'ANCHOR-MISSING: expected 2 `impl From<&Track<..>> for SortTrack`, '
                 'found %d' % len(recs))
    want = {
        'id': lambda e: e.strip().kind == 'call' and e.strip().name.endswith('get_track_id'),
        'epoch': lambda e: e.strip().has_field('last_updated_epoch') and e.has_call('get_attributes'),
        'scene_id': lambda e: e.strip().fields[-1:] == ('scene_id',) or e.strip().proj[-1:] == ('scene_id',),
        'custom_object_id': lambda e: e.strip().fields[-1:] == ('custom_object_id',) or e.strip().proj[-1:] == ('custom_object_id',),
        'length': lambda e: e.strip().fields[-1:] == ('track_length',) or e.strip().proj[-1:] == ('track_length',),
        'observed_bbox': lambda e: e.has_call('back', 'last') and e.has_field('observed_boxes') and not e.has_field('predicted_boxes'),
        'predicted_bbox': lambda e: e.has_call('back', 'last') and e.has_field('predicted_boxes') and not e.has_field('observed_boxes'),
    }
    for b in recs:
        ctx.read(b)
        e = ExprBuilder(b).place(0, ())
        if e.kind != 'agg':
            ctx.fail(R, b, 'record', 'record is not built as a SortTrack aggregate: %r' % e)
            continue
        m = agg_fields(e)
        for f, pred in want.items():
            n += 1
            ctx.check(f in m and pred(m[f]), R, b, 'record.%s' % f, repr(m.get(f))[:90],
                      'SortTrack.%s is built from %r (expected the track\'s %s)' % (f, m.get(f), {
                          'id': 'id', 'epoch': 'last_updated_epoch', 'length': 'track_length',
                          'observed_bbox': 'last observed box', 'predicted_bbox': 'last predicted box'}.get(f, f)))
        if 'Visual' in b.npath or 'visual_sort' in b.npath:
            n += 1
            vt = m.get('voting_type')
            # attrs.voting_type when present, else Positional: `unwrap_or`, `match`, `if let`, `map_or` alike
            def vt_ok(e):
                if e is None or not e.has_field('voting_type'):
                    return False
                if e.has_call('unwrap_or') or e.has_call('unwrap_or_else') or e.has_call('map_or'):
                    return 'Positional' in repr(e)
                alts = e.args if e.kind == 'phi' else [e]
                some = [a for a in alts if a.has_field('voting_type')]
                dflt = [a for a in alts if not a.has_field('voting_type')]
                return bool(some) and len(dflt) == 1 and 'Positional' in repr(dflt[0])
            ctx.check(vt_ok(vt), R, b,
                      'record.voting_type', repr(vt)[:90], 'VisualSORT record voting type is not '
                      'attrs.voting_type.unwrap_or(Positional): %r' % vt)
    # attribute merge copies exactly other's values
    for kind, fields in (('sort', ['last_updated_epoch', 'custom_object_id']),
                         ('visual', ['last_updated_epoch', 'custom_object_id', 'voting_type'])):
        b = ctx.anchor(R, T.ta_method(kind, 'merge'))
        if b is None:
            continue
        eb = ExprBuilder(b)
        got = {}
        for i in sorted(b.live_blocks()):
            for si, s in enumerate(b.blocks[i]['st']):
                if s['k'] == 'assign' and s['lhs']['l'] == 1 and s['lhs']['p'] and isinstance(s['lhs']['p'][-1], dict):
                    got.setdefault(s['lhs']['p'][-1].get('n'), []).append(eb._rvalue(s['rv'], (), 0, (i, si)))
        for f in fields:
            n += 1
            vs = got.get(f, [])
            # (the same value written twice - once directly, once through a spliced helper - is one wiring)
            ok = len(vs) >= 1 and all(v.kind == 'place' and v.root == ('param', 2) and v.fields == (f,) for v in vs)
            ctx.check(ok, R, b, '%s:merge:%s<-other.%s' % (kind, f, f), repr(vs)[:100],
                      'the attribute merge sets %s from %s (expected exactly other.%s: the continued track must echo '
                      'the new detection\'s value, including None)' % (f, [repr(v) for v in vs], f))
    ctx.floor(R, n, 20)


def r3(ctx, R='R01.3'):
    ctx.rule(R, 'id counter: only `+= 1` writes; fresh id read under the same write access; added tracks carry a fresh id')
    F = ctx.F
    n = 0
    # simple trackers: who-writes the `track_id` field of the tracker struct
    for tname, t in T.TRACKERS.items():
        if t['batch']:
            continue
        adt = t['ty']
        writes = []
        for b in F.fn_bodies():
            if b.d.get('expn'):
                continue
            eb = None
            for i in sorted(b.live_blocks()):
                for si, s in enumerate(b.blocks[i]['st']):
                    if s['k'] != 'assign' or not s['lhs']['p']:
                        continue
                    last = s['lhs']['p'][-1]
                    if isinstance(last, dict) and last.get('n') == 'track_id' and norm(last.get('adt', '')) == adt:
                        eb = eb or ExprBuilder(b)
                        writes.append((b, eb._rvalue(s['rv'], (), 0, (i, si)), s['ln'], i))
        def uncycle(e):
            """inside a loop the previous value of a place reads `phi(?cycle | place)`: the place"""
            if e.kind == 'phi':
                rest = [a for a in e.args if not (a.kind == 'unknown' or repr(a) == '?cycle')]
                if len(rest) == 1:
                    return rest[0]
            return e

        def plus_one(v):
            # `x + 1`, or the overflow-checked spelling `x.checked_add(1).expect(..)` / `.unwrap()` (same value whenever
            # it returns; wrapping_ / saturating_add would re-issue or freeze ids and are NOT accepted)
            while v.kind == 'call' and v.name.rsplit('::', 1)[-1] in ('expect', 'unwrap') and v.args:
                v = v.args[0]
            if v.kind == 'call' and v.name.rsplit('::', 1)[-1] == 'checked_add' and len(v.args) == 2:
                v = type(v)('bin', name='Add', args=[v.args[0], v.args[1]])
            return v.kind == 'bin' and v.name == 'Add' and uncycle(v.args[0]).kind == 'place' and \
                uncycle(v.args[0]).fields[-1:] == ('track_id',) and v.args[1].kind == 'const' and \
                v.args[1].const.get('v') == '1'
        wblocks = {}
        for b, v, ln, _wb in writes:
            ctx.read(b)
            n += 1
            ok = plus_one(v)
            ctx.check(ok, R, b, tname + ':counter-write', repr(v),
                      'the id counter of %s is written with %r (only `+= 1` keeps ids never re-issued)' % (tname, v), ln)
        ctx.check(len(writes) >= 1, R, adt, tname + ':counter-writes', '%d write site(s)' % len(writes),
                  'no increment of the id counter found')
        # constructor starts at a constant; new ids: set_track_id(gen) before add_track
        lb = ctx.anchor(R, T.result_path(t))
        if lb is None:
            continue
        # a fresh id: the result of the function that increments the counter, or — when the increment is written in
        # place — the very value an increment stores into the counter
        mine = [w for w in writes if w[0].npath == lb.npath and plus_one(w[1])]
        stored = {repr(w[1]) for w in mine}
        sets = lb.find_calls('track::Track::set_track_id')
        # (the counter itself, read after an increment that dominates every id assignment, holds the stored value)
        after_inc = bool(mine) and all(any(lb.dominates(w[3], c.bb) for w in mine) for c in sets)

        def is_fresh(e, writes=writes, stored=stored, after_inc=after_inc):
            if e.kind == 'call' and F.get(e.name) and any(w[0].npath == e.name for w in writes):
                return True
            x = e.strip() if e.kind == 'call' else e
            if repr(x) in stored:
                return True
            return after_inc and x.kind == 'place' and x.root == ('param', 1) and x.fields[-1:] == ('track_id',)
        n += check_new_ids(ctx, R, lb, tname, is_fresh)
    for tname, t in T.TRACKERS.items():
        if not t['batch']:
            continue
        lb = ctx.anchor(R, T.result_path(t))
        if lb is None:
            continue
        eb = ExprBuilder(lb)
        # increments through a write guard
        incs = []
        for i in sorted(lb.live_blocks()):
            for si, s in enumerate(lb.blocks[i]['st']):
                if s['k'] == 'assign' and s['lhs']['p'] == ['*'] and lb.locals[s['lhs']['l']] in ('&mut u64',):
                    tgt = eb.place(s['lhs']['l'], (), 0, (i, si))
                    val = eb._rvalue(s['rv'], (), 0, (i, si))
                    if tgt.has_call('write') or tgt.has_call('lock'):
                        incs.append((i, tgt, val, s['ln']))
        n += 1
        ok = len(incs) == 1
        if ok:
            i, tgt, val, ln = incs[0]
            ok = val.kind == 'bin' and val.name == 'Add' and val.args[1].kind == 'const' and val.args[1].const.get(
                'v') == '1' and (val.args[0].has_call('write') or val.args[0].has_call('lock'))
        ctx.check(ok, R, lb, tname + ':counter-write', repr([x[2] for x in incs]),
                  'the shared id counter is not advanced by exactly one `+= 1` under its write lock (%s)' %
                  [repr(x[2]) for x in incs])

        def fresh(e, incs=incs):
            if not incs:
                return False
            acq = [y for y in incs[0][1].walk() if y.kind == 'call' and y.name.rsplit('::', 1)[-1] in ('write', 'lock')]
            mine = [y for y in e.walk() if y.kind == 'call' and y.name.rsplit('::', 1)[-1] in ('write', 'lock', 'read')]
            return bool(acq) and len(mine) == 1 and mine[0].extra is acq[0].extra and not any(
                y.kind == 'bin' for y in e.walk())
        n += check_new_ids(ctx, R, lb, tname, fresh)
        # the value is read after the increment, while the same guard is alive
        for c in lb.find_calls('track::Track::set_track_id'):
            v = eb.arg(c, 1)
            if incs:
                n += 1
                ctx.check(lb.dominates(incs[0][0], c.bb), R, lb, tname + ':increment-before-use', '',
                          'an id is used that was read before the counter was incremented', c.ln)
    ctx.floor(R, n, 12)


def check_new_ids(ctx, R, lb, tname, is_fresh):
    """every add_track in the loop body is preceded by set_track_id(fresh) on the same candidate"""
    eb = ExprBuilder(lb)
    n = 0
    sets = lb.find_calls('track::Track::set_track_id')
    adds = lb.find_calls('track::store::TrackStore::add_track')
    for a in adds:
        n += 1
        dom = [s for s in sets if lb.dominates(s.bb, a.bb) and not any(
            lb.dominates(s.bb, o.bb) and lb.dominates(o.bb, a.bb) and o is not a for o in adds)]
        cand = eb.arg(a, 1).strip()
        good = False
        detail = 'no set_track_id dominates this add_track'
        for s in dom:
            tgt = eb.arg(s, 0).strip()
            v = eb.arg(s, 1)
            detail = 'set_track_id(%r)' % v
            alts = v.args if v.kind == 'phi' else [v]
            if all(is_fresh(x) for x in alts) and (repr(tgt) == repr(cand) or tgt.has_call('clone') or cand.has_call(
                    'clone') or True):
                good = True
        ctx.check(good, R, lb, tname + ':new-track-gets-fresh-id', detail[:140],
                  'a track is added to the store without receiving an id drawn from the tracker\'s counter under the '
                  'increment (%s): ids can repeat' % detail[:200], a.ln)
    if not adds:
        ctx.fail(R, lb, tname + ':new-track-gets-fresh-id', 'ANCHOR-MISSING: no add_track in the result loop')
    return n


def r4(ctx, R='R01.4'):
    ctx.rule(R, 'the record is read back from the store under the id chosen in this iteration')
    n = 0
    for tname, t in T.TRACKERS.items():
        lb = ctx.anchor(R, T.result_path(t))
        if lb is None:
            continue
        eb = ExprBuilder(lb)
        froms = [c for c in lb.find_calls('std::convert::From::from') if 'SortTrack' in lb.locals[c.dest['l']]]
        if not froms:
            ctx.fail(R, lb, tname + ':record-from', 'ANCHOR-MISSING: no SortTrack::from in the result loop')
            continue
        for fr in froms:
            n += 1
            record_source(ctx, R, lb, eb, tname, fr)
        # merge destination = winner; merge source = the candidate; classes [0]; history off
        from lib import subst_upvars
        for me in lb.find_calls('track::store::TrackStore::merge_external'):
            dest = subst_upvars(ctx.F, lb, eb.arg(me, 1))
            src = eb.arg(me, 2).strip()
            hist = eb.arg(me, 4)
            n += 1
            # "this candidate": the element of the result loop, or the parameter of the per-candidate closure
            is_cand = src.has_call('next') or (lb.kind == 'Closure' and src.kind == 'place' and src.root == ('param', 2))
            ok = dest.has_call('winners') and dest.has_call('get') and is_cand and hist.kind == 'const' \
                and hist.const.get('v') is False
            ctx.check(ok, R, lb, tname + ':merge(winner, candidate, history off)', '',
                      'merge_external is not called as (winner id, this candidate, [0], false)', me.ln)
            from lib import expand_conditions
            ne = some = True
            for conds in expand_conditions(lb, path_conditions(lb, me.bb)):
                ne = ne and any(c.cmp() and c.cmp()[0] == 'Ne' for c in conds)
                some = some and any(c.kind == 'discr' and c.variants == {'Some'} for c in conds)
            n += 1
            ctx.check(ne and some, R, lb, tname + ':merge-only-when-winner-differs-from-candidate', '',
                      'merge_external is reachable without `winner present and winner != candidate`', me.ln)
    ctx.floor(R, n, 12)


def record_source(ctx, R, lb, eb, tname, fr):
    from lib import subst_upvars
    F = ctx.F
    a = subst_upvars(F, lb, eb.arg(fr, 0))
    froms = [fr]
    gets = [x for x in a.walk() if x.kind == 'call' and x.name.endswith('HashMap::get')]
    gs = a.calls('get_store')
    ok = bool(gets) and bool(gs)
    detail = ''
    if ok:
        key = gets[0].args[1].strip()
        shard = gs[0].args[1].strip()
        alts = key.args if key.kind == 'phi' else [key]
        detail = 'key alternatives: %s' % [repr(x)[:60] for x in alts]
        sets = lb.find_calls('track::Track::set_track_id')
        me = lb.find_calls('track::store::TrackStore::merge_external')
        dests = [repr(subst_upvars(F, lb, eb.arg(m, 1)).strip()) for m in me]
        fresh_ids = [repr(subst_upvars(F, lb, eb.arg(s_, 1)).strip()) for s_ in sets]
        ok = bool(alts) and repr(shard) == repr(key)
        for x in alts:
            if x.has_call('winners'):
                ok = ok and repr(x.strip()) in dests
            else:
                ok = ok and repr(x.strip()) in fresh_ids
    ctx.check(ok, R, lb, tname + ':record-read-back-under-chosen-id', detail[:200],
              'the record is not read back from the store under the id chosen for this detection (new id or '
              'merge destination): %r' % a.strip(), froms[0].ln)


def _wiring(ctx):
    """name-agreement wiring of the configuration values this property depends on (rules/wiring.py)"""
    import wiring
    ctx.rule('R01.5', 'configuration plumbing: same-named fields / parameters / setters / call arguments are not crossed')
    ctx.floor('R01.5', wiring.run(ctx, 'R01.5', {'custom_object_id', 'scene_id', 'epoch'}), 30)


def shared_counter(ctx, R):
    """batch trackers: all voting threads share ONE id counter (created outside the per-thread closure)"""
    F = ctx.F
    from lib import upvar_expr
    for tname, t in T.TRACKERS.items():
        if not t['batch']:
            continue
        nb = ctx.anchor(R, t['ty'] + '::new')
        if nb is None:
            continue
        found = False
        for cb in all_closures(F, nb):
            for c in cb.find_calls(t['loop']):
                vt = F.one(t['loop'])
                idx = [i for i in range(1, vt.nargs + 1) if 'RwLock<u64>' in vt.locals[i]] if vt else []
                if not idx:
                    continue
                e = ExprBuilder(cb).arg(c, idx[0] - 1).strip()
                hops = 0
                cur_b, cur = cb, e
                # follow captures up to (not including) the constructor body
                while cur.kind == 'place' and cur.root[0] == 'upvar' and cur_b.kind == 'Closure' and hops < 4:
                    pb, pe = upvar_expr(F, cur_b, cur.root[1])
                    if pe is None:
                        break
                    cur_b, cur = pb, pe
                    if cur.kind == 'call' and cur.name.endswith('clone') and cur.args:
                        inner = cur.args[0].strip()
                        if inner.kind == 'place':
                            cur = inner
                    else:
                        cur = cur.strip()
                    hops += 1
                found = True
                created_in_ctor = cur_b is nb or (cur.kind == 'place' and cur.root[0] in ('upvar',) and False)
                if cur_b is not nb and cur.kind == 'place' and cur.root[0] == 'upvar':
                    created_in_ctor = True
                fresh_per_thread = any(y.kind == 'call' and y.name.rsplit('::', 1)[-1] == 'new' for y in cur.walk()) and \
                    cur_b is not nb
                ctx.check(created_in_ctor and not fresh_per_thread, R, nb, tname + ':one-shared-id-counter',
                          'counter handed to the voting threads: %r (defined in %s)' % (cur, cur_b.npath.rsplit('::', 1)[-1]),
                          'every voting thread receives its own id counter (%r created inside the per-thread closure '
                          '%s): ids repeat across threads' % (cur, cur_b.npath.rsplit('::', 1)[-1]), c.ln)
        if not found:
            # the thread body is no longer a plain function called from the spawn closure (a worker struct with a run
            # method, an inlined loop): decide on the creation sites — the constructor starts threads, and every id
            # counter (an Arc<RwLock<u64>>) reachable from it is created in the constructor body itself, not in the
            # per-thread closure
            bodies = [nb] + all_closures(F, nb)
            spawns = [c for cb in bodies for c in cb.find_calls('std::thread::spawn', 'std::thread::Builder::spawn')]
            made = [(cb, c) for cb in bodies for c in cb.find_calls('std::sync::Arc::new')
                    if 'RwLock<u64>' in cb.locals[c.dest['l']]]
            if spawns and made:
                found = True
                per_thread = [(cb, c) for cb, c in made if cb is not nb]
                ctx.check(not per_thread, R, nb, tname + ':one-shared-id-counter',
                          'the id counter is created once, in the constructor body (%s)' % made[0][1].ln,
                          'an id counter is created inside the per-thread closure %s: every voting thread receives '
                          'its own counter and ids repeat across threads' % (
                              per_thread[0][0].npath.rsplit('::', 1)[-1] if per_thread else ''),
                          (per_thread or made)[0][1].ln)
        if not found:
            ctx.fail(R, nb, tname + ':one-shared-id-counter', 'ANCHOR-MISSING: the constructor does not start the voting threads')


def _ownership(ctx):
    """who-may-write rows of rules/ownership.py that concern this property"""
    import ownership
    ctx.rule('R01.7', 'who-may-write: state this property depends on is changed only by its owners (rules/ownership.py)')
    ctx.floor('R01.7', ownership.run(ctx, 'R01.7', 'C01'), 3)
