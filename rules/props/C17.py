"""C17 — voting engines: vote counting, weights, top-N order, one winner per track."""
import votinglib as V

EXPLANATION = (
    "Counting rules and barriers of the three voting engines decided on MIR: (R17.1) a distance is counted iff it is "
    "present and <= max_distance, a (query, track) group is kept iff len >= min_votes, the vote weight is the sum of "
    "(running maximum - distance); (R17.2) the closure that updates the running maximum is separated from the one "
    "that reads it by a collecting barrier (into_group_map), so weights cannot depend on arrival order; (R17.3) "
    "top-N: per-query sort by decreasing weight dominates truncate(self.topn); (R17.4) best-fit: a sort by "
    "decreasing weight dominates the claim loop, the taken-set is queried and extended with the contested track, a "
    "loser is redirected to itself; (R17.5) Hungarian: exactly one call of pathfinding's maximising kuhn_munkres, "
    "winners derive from its solution, pairs filtered by positive ids, own-column = threshold on the diagonal, "
    "one scale constant."
    " (R17.7) composition in VisualVoting: the track won by appearance is the track excluded from the Hungarian stage; (R17.8) the running maximum is fed only by distances that exist in the stream (a stand-in for a missing distance never becomes the 'largest distance seen')."
    ' (R17.9) the stream the engines consume is read by blocking receives only (no is_empty / try_recv / size_hint peeks at the channel); (R17.10) Hungarian weights are 64-bit fixed point.')
EXPLANATION += ' (R17.11) TopNVoting::new / BestFitVoting::new store topn, max_distance, min_votes unchanged; R17.10 also excludes saturation of the fixed-point weights.'
NOT_DECIDED = ["permutation invariance as an input-output statement", "tie handling",
               "optimality of pathfinding::kuhn_munkres (trusted)"]
ASSUMPTIONS = ["itertools::into_group_map and std sort behave as documented", "rustc nightly MIR construction"]


def run(ctx):
    _wiring(ctx)
    ctx.rule('R17.1', 'd <= max_distance; len >= min_votes; weight = sum(max_dist - d)')
    n = V.rule_filter_and_weights(ctx, 'R17.1', V.TOPN, 'topn')
    n += V.rule_filter_and_weights(ctx, 'R17.1', V.BEST, 'bestfit')
    ctx.floor('R17.1', n, 6)
    ctx.rule('R17.2', 'collecting barrier between writer and reader of the running maximum distance')
    n = V.rule_barrier(ctx, 'R17.2', V.TOPN, 'topn')
    n += V.rule_barrier(ctx, 'R17.2', V.BEST, 'bestfit')
    ctx.floor('R17.2', n, 2)
    ctx.rule('R17.8', 'the running maximum is fed by distances that exist in the stream (no sentinel for a missing distance)')
    n = V.rule_running_max_source(ctx, 'R17.8', V.TOPN, 'topn')
    n += V.rule_running_max_source(ctx, 'R17.8', V.BEST, 'bestfit')
    ctx.evaluated('R17.8', n, 2)
    import misclib
    ctx.rule('R17.10', 'Hungarian weights are 64-bit fixed point (no overflow of the solver sums at Mahalanobis scale)')
    ctx.floor('R17.10', misclib.rule_weights_fit(ctx, 'R17.10'), 2)
    ctx.rule('R17.9', 'the stream the engines consume is read by blocking receives only (an engine never sees a stream that '
                      'is merely not delivered yet as empty)')
    ctx.floor('R17.9', misclib.rule_blocking_receives_only(ctx, 'R17.9'), 1)
    from props import C12
    ctx.rule('R17.7', 'composition of the engines in VisualVoting: a track won by appearance is the track taken out of the '
                      'Hungarian stage (no track twice across the two stages)')
    ctx.floor('R17.7', C12.cascade(ctx, 'R17.7'), 5)
    ctx.rule('R17.3', 'top-N: sort by decreasing weight dominates truncate(topn)')
    ctx.floor('R17.3', V.rule_topn_order(ctx, 'R17.3'), 2)
    ctx.rule('R17.4', 'best-fit: sort by decreasing weight dominates the claim loop; taken-set holds contested tracks')
    ctx.floor('R17.4', V.rule_bestfit_claims(ctx, 'R17.4'), 4)
    ctx.rule('R17.5', 'Hungarian: single maximising kuhn_munkres call; winners from its solution; matrix wiring')
    n = V.rule_hungarian(ctx, 'R17.5')
    n += V.rule_hungarian_matrix(ctx, 'R17.5')
    ctx.floor('R17.5', n, 5)


def _wiring(ctx):
    """name-agreement wiring of the configuration values this property depends on (rules/wiring.py)"""
    import wiring
    ctx.rule('R17.6', 'configuration plumbing: same-named fields / parameters / setters / call arguments are not crossed')
    ctx.floor('R17.6', wiring.run(ctx, 'R17.6', {'topn', 'max_distance', 'min_votes'}), 5)
    ctx.rule('R17.11', 'the engines are configured with the values the caller passed: TopNVoting::new / BestFitVoting::new store '
                       'topn, max_distance, min_votes unchanged ("at most N" includes N = 0)')
    n = 0
    for path in ('track::voting::topn::TopNVoting::new', 'track::voting::best::BestFitVoting::new'):
        n += wiring.identity_ctor(ctx, 'R17.11', path)
    ctx.evaluated('R17.11', n, 5)
