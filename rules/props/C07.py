"""C07 — Kalman filters (narrow structural claim: gates, sibling recurrences, noise-scale source, weight wiring)."""
import collections
from mir import norm as norm_c
from lib import ExprBuilder, path_conditions, all_closures

EXPLANATION = (
    "Only the structural clauses of C07 are decided: (R07.1) in each calculate_cost the direct and the inverted "
    "conversion gate on the same CHI2INV95 entry, whose index is the filter's measurement dimension - 1, with the "
    "same comparison; out-of-gate constants are the upper bound / 0 and in-gate values distance / upper bound - "
    "distance; the vector filter delegates per element to the point filter; (R07.2) box and point filter perform the "
    "same multiset of linear-algebra operations in initiate / predict / project / update / distance (contradiction "
    "rule between siblings); (R07.3) the height-scaled noise of the box filter is computed from the incoming state "
    "(never from the already propagated mean); (R07.4) constructors store (position, velocity) weights in that order, "
    "the vector filter forwards them in order, Default uses 1/20 and 1/160, and the std helpers multiply by the "
    "matching weight; (R07.6) the per-observation step shared by all trackers (make_prediction) runs predict and update "
    "exactly once on every path, update takes the predicted state and the observation, predict starts from the stored "
    "state or from initiate(observation), and the state stored and the box reported are the result of that update; "
    "(R07.7) the state -> box conversion reads mean[0,1,3,4] in place and drops the angle exactly when mean[2] == 0. "
    "Equality with the textbook recurrence, SPD-ness and stationarity are numeric and NOT decided. "
    "(R07.9) initiate / predict / update / distance have no data-dependent shortcut: every linear-algebra step runs exactly once on every path."
    ' (R07.10) the measurement a box / point contributes is the same vector of plain coordinates at initiate, update and distance (contradiction rule between the three sites), in the order in which the state -> box conversion reads the state back, with the optional angle defaulting to the constant 0 and all velocities starting at 0; R07.6 also requires that the reported box is the conversion of the updated state with only the confidence written afterwards.'
    " (R07.11) predict, project, update and distance of the box and the point filter, read as matrix expressions in a non-commutative normal form with transpose and inverse (P, S symmetric; solve_lower_triangular(S, B) = S^-1 B), equal the textbook recurrences m' = F m, P' = F P F^T + Q, (H m, H P H^T + R), m' = m + K (z - H m), P' = P - K S K^T with K = P H^T S^-1, d = (z - H m)^T S^-1 (z - H m)."
    ' (R07.12) initiate / predict / project / update / distance never rewrite single components of a vector or matrix in place (premise of R07.11: the expression builder does not see element writes), and the gating distance is computed by a filter built from the position / velocity weight of the track it is measured for.')
EXPLANATION += ' R07.12 also excludes element-wise rewrites of a whole matrix (map / zip_map / abs on nalgebra matrices) in the recurrences.'
NOT_DECIDED = ["f32 rounding of the recurrences (their real-valued matrix formulas ARE decided: R07.11)",
               "symmetric positive-definiteness of the covariance as a numeric statement (R07.11 shows P' = P - K S K^T "
               "and P' = F P F^T + Q, which preserve it in exact arithmetic)", "stationary-object prediction as a numeric statement",
               "that solve_lower_triangular(S, .) equals S^-1 (true for the diagonal S this model produces from initiate)"]
ASSUMPTIONS = ["nalgebra behaves as documented", "rustc nightly MIR construction"]

BOX = 'utils::kalman::kalman_2d_box::Universal2DBoxKalmanFilter'
PT = 'utils::kalman::kalman_2d_point::Point2DKalmanFilter'
VEC = 'utils::kalman::kalman_2d_point_vec::Vec2DKalmanFilter'
DIMS = {BOX: 'utils::kalman::kalman_2d_box::DIM_2D_BOX', PT: 'utils::kalman::kalman_2d_point::DIM_2D_POINT'}
VOC = ('mul', 'add', 'sub', 'transpose', 'from_diagonal', 'component_mul', 'solve_lower_triangular', 'cholesky', 'l',
       'sum', 'from_iterator', 'from_vec', 'sub_assign', 'chain', 'identity', 'div', 'neg', 'try_inverse', 'inverse',
       'add_assign', 'mul_assign', 'scale', 'component_div', 'dot', 'norm', 'sqrt', 'abs')


def const_usize(ctx, path):
    b = ctx.F.one(path)
    if b is None:
        return None
    e = ExprBuilder(b).place(0, ())
    try:
        return int(e.const_value())
    except Exception:
        return None


def fold_index(p):
    """'[Sub(utils::..::DIM_2D_BOX=5, 1:usize)]' -> '[4]': an index written as constant arithmetic over named constants"""
    import re
    m = re.match(r'^\[(.*)\]$', p)
    if not m or re.match(r'^\d+$', m.group(1)):
        return p
    t = re.sub(r'[A-Za-z_][\w:<>]*=(\d+)', r'\1', m.group(1))
    t = re.sub(r'(\d+):[iu](?:size|8|16|32|64)', r'\1', t)
    for _ in range(8):
        t2 = re.sub(r'(Sub|Add|Mul)(?:WithOverflow|Unchecked)?\((\d+), (\d+)\)(?:\.0)?',
                    lambda k: str({'Sub': lambda a, b: a - b, 'Add': lambda a, b: a + b, 'Mul': lambda a, b: a * b}[k.group(1)](
                        int(k.group(2)), int(k.group(3)))), t)
        if t2 == t:
            break
        t = t2
    return '[%s]' % t if re.match(r'^\d+$', t) else p


def gate_rule(ctx, R):
    n = 0
    for flt, dimpath in DIMS.items():
        b = ctx.anchor(R, flt + '::calculate_cost')
        if b is None:
            continue
        dim = const_usize(ctx, dimpath)
        eb = ExprBuilder(b)
        rows = []
        from lib import expand_conditions
        for d, conds in [(d, cv) for d in b.defs().get(0, []) if d[0] == 'assign' and d[1] in b.live_blocks()
                         for cv in expand_conditions(b, path_conditions(b, d[1]))]:
            inv = None
            gate = None
            for c in conds:
                if c.kind == 'bool' and c.expr.kind == 'place' and c.expr.root == ('param', 2):
                    inv = c.truth
                cm = c.cmp()
                if cm:
                    # normalise so that the distance parameter is on the left
                    from lib import orient
                    o = orient(cm, lambda e: e.kind == 'place' and e.root == ('param', 1))
                    if o and o[2].kind == 'const' and 'CHI2INV95' not in (o[2].const.get('item') or ''):
                        from lib import resolve_const_item
                        o = (o[0], o[1], resolve_const_item(ctx.F, o[2]))
                    if o and o[2].kind == 'const' and 'CHI2INV95' in (o[2].const.get('item') or ''):
                        gate = (o[0], ''.join(fold_index(p_) for p_ in o[2].proj))
            val = eb._rvalue(d[3]['rv'], (), 0, (d[1], d[2]))
            rows.append((inv, gate, val, d[3]['ln']))
        name = flt.rsplit('::', 1)[-1]
        if len(rows) != 4 or any(r[0] is None or r[1] is None for r in rows):
            ctx.note(R, '%s::calculate_cost has an unrecognised shape (%d result sites); gate clause not armed' % (name, len(rows)))
            ctx.fail(R, b, name + ':shape', 'ANCHOR-MISSING: calculate_cost no longer has the four-way (inverted x '
                     'gated) shape the gate rule reads') if len(rows) == 0 else None
            continue
        idxs = {(r[0], r[1][1]) for r in rows}
        for inv in (False, True):
            mine = [r for r in rows if r[0] is inv]
            label = 'inverted' if inv else 'direct'
            out = [r for r in mine if r[1][0] in ('Gt', 'Ge')]
            inn = [r for r in mine if r[1][0] in ('Le', 'Lt')]
            n += 1
            idx = {r[1][1] for r in mine}
            okidx = len(idx) == 1 and dim is not None and idx == {'[%d]' % (dim - 1)}
            ctx.check(okidx, R, b, '%s:%s:gate-index=dim-1' % (name, label), 'CHI2INV95%s, dim=%s' % (sorted(idx), dim),
                      '%s cost of %s gates on CHI2INV95%s but the measurement dimension is %s (expected index %s): the '
                      '95%% gate is taken for the wrong number of degrees of freedom' % (
                          label, name, sorted(idx), dim, dim - 1 if dim else '?'), mine[0][3])
            n += 1
            if inv:
                okv = len(out) == 1 and len(inn) == 1 and out[0][2].kind == 'const' and out[0][2].const_value() in (
                    '0.0', '0') and inn[0][2].kind == 'bin' and inn[0][2].name == 'Sub' and \
                    'CHI2_UPPER_BOUND' in repr(inn[0][2].args[0]) and inn[0][2].args[1].kind == 'place'
            else:
                okv = len(out) == 1 and len(inn) == 1 and 'CHI2_UPPER_BOUND' in repr(out[0][2]) and \
                    inn[0][2].kind == 'place' and inn[0][2].root == ('param', 1)
            ctx.check(okv, R, b, '%s:%s:values' % (name, label), 'out-of-gate %r, in-gate %r' % (
                out[0][2] if out else None, inn[0][2] if inn else None),
                '%s cost of %s returns %s out of gate and %s in gate (expected %s)' % (
                    label, name, [repr(r[2]) for r in out], [repr(r[2]) for r in inn],
                    '0 / upper bound - distance' if inv else 'upper bound / distance'), mine[0][3])
        n += 1
        d_gate = {r[1] for r in rows if r[0] is False and r[1][0] in ('Gt', 'Ge')}
        i_gate = {r[1] for r in rows if r[0] is True and r[1][0] in ('Gt', 'Ge')}
        ctx.check(d_gate == i_gate and len(d_gate) == 1, R, b, name + ':direct-and-inverted-gate-at-the-same-distance',
                  'both: distance %s' % sorted(d_gate),
                  'direct cost gates with %s but inverted cost gates with %s: the two conversions reject at different '
                  'distances' % (sorted(d_gate), sorted(i_gate)))
    # vector filter delegates per element
    vb = ctx.anchor(R, VEC + '::calculate_cost')
    if vb is not None:
        ok = False
        for cb in all_closures(ctx.F, vb):
            for c in cb.find_calls(PT + '::calculate_cost'):
                e = ExprBuilder(cb)
                a0 = e.arg(c, 0).strip()
                a1 = e.arg(c, 1).strip()
                ok = a0.kind == 'place' and a0.root == ('param', 2) and a1.kind == 'place' and a1.root[0] == 'upvar'
        n += 1
        ctx.check(ok, R, vb, 'vec:delegates-per-element', '', 'the vector filter cost does not map '
                  'Point2DKalmanFilter::calculate_cost(d, inverted) over its elements')
    return n


# the mathematical core of the recurrences; construction helpers (from_vec / from_iterator / chain / identity ...)
# and the in-place vs by-value spelling of an operator are not part of it
CORE = {'mul': 'mul', 'mul_assign': 'mul', 'add': 'add', 'add_assign': 'add', 'sub': 'sub', 'sub_assign': 'sub',
        'transpose': 'transpose', 'cholesky': 'cholesky', 'solve_lower_triangular': 'solve_lower_triangular',
        'try_inverse': 'inverse', 'inverse': 'inverse', 'component_mul': 'component_mul',
        'component_div': 'component_div', 'dot': 'dot', 'norm': 'norm', 'sqrt': 'sqrt', 'neg': 'neg',
        'scale': 'scale', 'div': 'div'}


def core_ops(F, body, depth=3, _seen=None):
    """multiset of core linear-algebra operations performed by `body`, private helpers of the same type included"""
    from lib import local_callee_bodies
    _seen = _seen or set()
    out = collections.Counter()
    if body.npath in _seen or depth < 0:
        return out
    _seen.add(body.npath)
    own = norm_path_parent(body.npath)
    for c in body.find_calls():
        if c.name in CORE and ('nalgebra' in c.callee or 'std::ops' in c.callee or 'core::ops' in c.callee or
                               'f32' in c.callee or 'simba' in c.callee or 'num' in c.callee):
            out[CORE[c.name]] += 1
            continue
        for cb in local_callee_bodies(F, c):
            if norm_path_parent(cb.npath) == own and cb.d.get('vis') != 'Public':
                out.update(core_ops(F, cb, depth - 1, _seen))
    return out


def norm_path_parent(p):
    return p.rsplit('::', 1)[0] if '::' in p else ''


def sibling_rule(ctx, R):
    n = 0
    import helpers as HH
    for m in ('initiate', 'predict', 'project', 'update', 'distance'):
        if m == 'project':
            bb, pb = HH.kalman_helper(ctx.F, BOX, 'project'), HH.kalman_helper(ctx.F, PT, 'project')
            if bb is None or pb is None:
                ctx.note(R, 'projection helper not found in both filters; sibling comparison of `project` skipped')
                continue
            ctx.read(bb)
            ctx.read(pb)
        else:
            bb = ctx.anchor(R, BOX + '::' + m)
            pb = ctx.anchor(R, PT + '::' + m)
        if bb is None or pb is None:
            continue
        cb, cp = core_ops(ctx.F, bb), core_ops(ctx.F, pb)
        n += 1
        diff = {k: (cb.get(k, 0), cp.get(k, 0)) for k in set(cb) | set(cp) if cb.get(k, 0) != cp.get(k, 0)}
        ctx.check(not diff, R, bb, m + ':box-and-point-perform-the-same-operations', str(dict(cb)),
                  'the box filter and the point filter no longer perform the same linear-algebra operations in '
                  '`%s` (operation: (box, point) counts %s): one of the two recurrences was changed without its '
                  'sibling' % (m, diff))
    # the vector filter maps the point filter over its own elements
    for m in ('initiate', 'predict', 'update', 'distance'):
        vb = ctx.anchor(R, VEC + '::' + m)
        if vb is None:
            continue
        calls = []
        for cb in [vb] + all_closures(ctx.F, vb):
            calls += cb.find_calls(PT + '::' + m)
            # the point-filter method handed over by name to a per-pair helper (`for_each_pair(.., Point2D..::update)`)
            for c_ in cb.find_calls():
                for a_ in c_.args:
                    if a_.get('k') == 'const' and norm_c(a_.get('c', {}).get('fn', '')) == PT + '::' + m:
                        calls.append(c_)
            for blk_ in cb.blocks:
                for s_ in blk_['st']:
                    if s_['k'] == 'assign' and s_['rv']['k'] == 'use' and s_['rv']['op'].get('k') == 'const' and \
                            norm_c(s_['rv']['op'].get('c', {}).get('fn', '')) == PT + '::' + m:
                        calls.append(s_)
        calls = calls[:1] if calls and not hasattr(calls[0], 'callee') else calls
        n += 1
        ctx.check(len(calls) == 1, R, vb, 'vec:%s-delegates-to-point-filter' % m, '',
                  'Vec2DKalmanFilter::%s does not apply Point2DKalmanFilter::%s to each of its points (%d call '
                  'sites)' % (m, m, len(calls)))
    return n


def noise_source_rule(ctx, R):
    n = 0
    import helpers as HH
    for m, state_param in (('predict', 2), ('project', None), ('initiate', None)):
        b = HH.kalman_helper(ctx.F, BOX, 'project') if m == 'project' else ctx.anchor(R, BOX + '::' + m)
        if b is None:
            continue
        ctx.read(b)
        eb = ExprBuilder(b)
        import helpers as HH
        hp, hv = HH.kalman_helper(ctx.F, BOX, 'std_position'), HH.kalman_helper(ctx.F, BOX, 'std_velocity')
        names = [x.npath for x in (hp, hv) if x is not None] or [BOX + '::std_position', BOX + '::std_velocity']
        for c in b.find_calls(*names):
            h = eb.arg(c, 3)
            n += 1
            propagated = any(x.kind == 'call' and x.name.rsplit('::', 1)[-1] == 'mul' for x in h.walk())
            if m == 'predict':
                ok = not propagated and h.has_place(root=('param', 2), field='mean') and '4' in repr(h)
                why = 'height of the incoming state: %r' % h
            elif m == 'project':
                ok = not propagated and any(p.root == ('param', 2) for p in h.places()) and '4' in repr(h)
                why = 'height of the mean being projected: %r' % h
            else:
                ok = not propagated and h.has_place(root=('param', 2), field='height')
                why = 'height of the first observation: %r' % h
            ctx.check(ok, R, b, '%s:%s-scaled-by-current-height' % (m, c.name), why,
                      'in %s the noise scale handed to %s is %r (expected the height component [4] of the state '
                      'before it is propagated)' % (m, c.name, h), c.ln)
        if not b.find_calls(*names):
            # inline form (the std helpers were merged into their callers): every product `k * weight * h`
            for w, h, ln_ in weighted_products(b, eb):
                n += 1
                propagated = any(x.kind == 'call' and x.name.rsplit('::', 1)[-1] == 'mul' for x in h.walk())
                if m == 'predict':
                    ok = not propagated and h.has_place(root=('param', 2), field='mean') and '4' in repr(h)
                elif m == 'project':
                    ok = not propagated and any(p.root == ('param', 2) for p in h.places()) and '4' in repr(h)
                else:
                    ok = not propagated and h.has_place(root=('param', 2), field='height')
                ctx.check(ok, R, b, '%s:%s-scaled-by-current-height' % (m, w), repr(h)[:100],
                          'in %s the noise scaled by %s uses %r (expected the height component [4] of the state before '
                          'it is propagated)' % (m, w, h), ln_)
    return n


def weighted_products(b, eb):
    """[(weight field, height factor E, ln)] for every f32 product in `b` that multiplies one of the two noise weights
    of the filter with a non-constant factor (inline form of std_position / std_velocity)"""
    out = []
    seen = set()
    for i in sorted(b.live_blocks()):
        for si, s_ in enumerate(b.blocks[i]['st']):
            if s_['k'] != 'assign' or s_['rv']['k'] != 'bin' or s_['rv']['op'] != 'Mul':
                continue
            e = eb._rvalue(s_['rv'], (), 0, (i, si))
            ws = [w for w in ('std_position_weight', 'std_velocity_weight') if e.has_field(w)]
            if len(ws) != 1:
                continue
            # the factor that carries neither the weight nor a constant
            hs = [a for a in e.args if not a.has_field(ws[0]) and a.kind != 'const']
            if len(hs) != 1:
                continue
            key = (ws[0], repr(hs[0]))
            if key in seen:
                continue
            seen.add(key)
            out.append((ws[0], hs[0], s_['ln']))
    return out


def weights_rule(ctx, R):
    n = 0
    for flt in (BOX, PT):
        b = ctx.anchor(R, flt + '::new')
        if b is None:
            continue
        e = ExprBuilder(b).place(0, ())
        ok = e.kind == 'agg'
        if ok:
            m = dict(zip(e.extra['fields'], e.args))
            ok = m['std_position_weight'].strip().kind == 'place' and m['std_position_weight'].strip().root == (
                'param', 1) and m['std_velocity_weight'].strip().kind == 'place' and \
                m['std_velocity_weight'].strip().root == ('param', 2)
        n += 1
        ctx.check(ok, R, b, flt.rsplit('::', 1)[-1] + ':new(position,velocity)', '',
                  'the constructor does not store (position_weight, velocity_weight) in that order')
        import helpers as HH
        for h, w in (('std_position', 'std_position_weight'), ('std_velocity', 'std_velocity_weight')):
            hb = HH.kalman_helper(ctx.F, flt, h)
            if hb is None:
                # inline form: the noise vector is `positions.chain(velocities)`; the first half must be scaled by the
                # position weight only, the second by the velocity weight only (in initiate and in predict)
                okc = []
                for mname in ('initiate', 'predict'):
                    mb = ctx.F.one(flt + '::' + mname)
                    if mb is None:
                        continue
                    me = ExprBuilder(mb)
                    for c_ in mb.find_calls():
                        if c_.name != 'chain' or len(c_.args) != 2:
                            continue
                        a0, a1 = me.arg(c_, 0), me.arg(c_, 1)
                        # (one half may still go through its helper, which is judged on its own below / above)
                        hp_ = HH.kalman_helper(ctx.F, flt, 'std_position')
                        hv_ = HH.kalman_helper(ctx.F, flt, 'std_velocity')

                        def uses(x, field, helper):
                            return x.has_field(field) or (helper is not None and any(
                                y.kind == 'call' and y.name == helper.npath for y in x.walk()))
                        okc.append(uses(a0, 'std_position_weight', hp_) and not uses(a0, 'std_velocity_weight', hv_) and
                                   uses(a1, 'std_velocity_weight', hv_) and not uses(a1, 'std_position_weight', hp_))
                if okc:
                    n += 1
                    ctx.check(all(okc), R, flt, '%s uses %s' % (h, w), 'inline: positions.chain(velocities)',
                              'the noise vector of %s is not (position stds scaled by the position weight) followed by '
                              '(velocity stds scaled by the velocity weight)' % flt)
                else:
                    ctx.fail(R, flt, 'ANCHOR-MISSING:' + h, 'no helper of %s scales the noise by %s' % (flt, w))
                continue
            ctx.read(hb)
            he = ExprBuilder(hb).place(0, ())
            n += 1
            other = 'std_velocity_weight' if w == 'std_position_weight' else 'std_position_weight'
            ctx.check(he.has_field(w) and not he.has_field(other), R, hb, '%s uses %s' % (h, w), '',
                      '%s is computed from %s' % (h, 'the wrong weight' if he.has_field(other) else 'no weight'))
        db = ctx.anchor(R, '<%s as std::default::Default>::default' % flt)
        if db is not None:
            eb = ExprBuilder(db)
            cs = db.find_calls(flt + '::new')
            okd = False
            detail = ''
            if cs:
                a = [eb.arg(cs[0], i) for i in (0, 1)]
                detail = '%r, %r' % tuple(a)

                def ratio(x, num, den):
                    if x.kind == 'bin' and x.name == 'Div':
                        return x.args[0].const_value() in (num, num + '.0') and x.args[1].const_value() in (den, den + '.0')
                    if x.kind == 'const':
                        try:
                            return abs(float(x.const_value()) - float(num) / float(den)) < 1e-9
                        except Exception:
                            return False
                    return False
                okd = ratio(a[0], '1', '20') and ratio(a[1], '1', '160')
            n += 1
            ctx.check(okd, R, db, flt.rsplit('::', 1)[-1] + ':default-weights=1/20,1/160', detail,
                      'Default does not construct the filter with weights (1/20, 1/160): %s' % detail)
    vb = ctx.anchor(R, VEC + '::new')
    if vb is not None:
        eb = ExprBuilder(vb)
        cs = vb.find_calls(PT + '::new')
        ok = bool(cs) and eb.arg(cs[0], 0).strip().kind == 'place' and eb.arg(cs[0], 0).strip().root == ('param', 1) \
            and eb.arg(cs[0], 1).strip().root == ('param', 2)
        n += 1
        ctx.check(ok, R, vb, 'vec:new-forwards(position,velocity)', '',
                  'Vec2DKalmanFilter::new does not forward (position_weight, velocity_weight) in that order to the '
                  'point filter')
    return n


def alternatives(e):
    """leaf alternatives of an expression through phi nodes and value-preserving wrappers"""
    e = e.strip()
    if e.kind == 'phi':
        out = []
        for a in e.args:
            out += alternatives(a)
        return out
    return [e]


def no_shortcut_rule(ctx, R):
    """R07.9 — the recurrences have no data-dependent shortcut: every linear-algebra operation of initiate / predict /
    update / distance runs exactly once on every path to the return (an early `return *state` skips the covariance
    update)."""
    from lib import count_on_paths
    n = 0
    for flt in (BOX, PT):
        for m in ('initiate', 'predict', 'update', 'distance'):
            b = ctx.anchor(R, flt + '::' + m)
            if b is None:
                continue
            rets = b.returns()
            bad = []
            ops = [c for c in b.find_calls() if c.name in VOC]
            for c in ops:
                r = count_on_paths(b, 0, rets, [c.bb])
                if r != (1, 1):
                    bad.append('%s at %s runs %s times' % (c.name, c.ln, r))
            n += 1
            ctx.check(bool(ops) and not bad, R, b, '%s:%s:every-operation-on-every-path' % (flt.rsplit('::', 1)[-1], m),
                      '%d operations, each exactly once on every path' % len(ops),
                      '%s::%s can return without performing all of its linear-algebra steps (%s): a shortcut path '
                      'leaves mean or covariance un-updated' % (flt.rsplit('::', 1)[-1], m, '; '.join(bad[:4]) or 'no operations found'))
    return n


def sequence_rule(ctx, R):
    """R07.6 — the per-observation step of every tracker: (initiate when there is no state) -> predict -> update,
    the state stored and the box reported are both the result of that update."""
    from lib import count_on_paths
    n = 0
    T = 'trackers::kalman_prediction::TrackAttributesKalmanPrediction'
    b = ctx.anchor(R, T + '::make_prediction')
    if b is None:
        return 0
    eb = ExprBuilder(b)
    rets = b.returns()
    for m in ('predict', 'update'):
        cs = b.find_calls(BOX + '::' + m)
        r = count_on_paths(b, 0, rets, [c.bb for c in cs])
        n += 1
        ctx.check(r == (1, 1), R, b, 'make_prediction:%s-exactly-once-on-every-path' % m, str(r),
                  'make_prediction runs Universal2DBoxKalmanFilter::%s %s times (min, max) on the paths to its return: '
                  'every observation must be preceded by exactly one %s step' % (m, r, m))
    ups = b.find_calls(BOX + '::update')
    if len(ups) == 1:
        st = alternatives(eb.arg(ups[0], 1))
        n += 1
        okp = bool(st) and all(x.kind == 'call' and x.name == BOX + '::predict' for x in st)
        ctx.check(okp, R, b, 'make_prediction:update-takes-the-predicted-state', repr(st)[:200],
                  'the state handed to update() is %s: on some path it has not gone through predict() (the '
                  'covariance misses one propagation)' % repr(st)[:300], ups[0].ln)
        meas = eb.arg(ups[0], 2).strip()
        n += 1
        ctx.check(meas.kind == 'place' and meas.root == ('param', 2) and not meas.fields, R, b,
                  'make_prediction:update-takes-the-observation', repr(meas),
                  'update() is not given the observed box (%r)' % meas, ups[0].ln)
        for x in st:
            if x.kind == 'call' and x.name == BOX + '::predict' and len(x.args) > 1:
                src = alternatives(x.args[1])
                n += 1
                oks = bool(src) and all(
                    (y.kind == 'call' and y.name == BOX + '::initiate') or
                    (y.kind == 'call' and y.name.endswith('::get_state') and 'Some' in ''.join(y.proj)) or
                    (y.kind == 'place' and False) for y in src)
                ctx.check(oks, R, b, 'make_prediction:predict-from-stored-or-initiated-state', repr(src)[:200],
                          'predict() starts from %s (expected the stored state, or initiate(observation) when there '
                          'is none)' % repr(src)[:300])
                for y in src:
                    if y.kind == 'call' and y.name == BOX + '::initiate':
                        a = y.args[1].strip() if len(y.args) > 1 else None
                        n += 1
                        ctx.check(a is not None and a.kind == 'place' and a.root == ('param', 2), R, b,
                                  'make_prediction:initiate-from-the-observation', repr(a),
                                  'initiate() is not given the observed box')
    sets = b.find_calls(T + '::set_state')
    n += 1
    oks = len(sets) == 1 and all(x.kind == 'call' and x.name == BOX + '::update'
                                 for x in alternatives(eb.arg(sets[0], 1)))
    r = count_on_paths(b, 0, rets, [c.bb for c in sets]) if sets else None
    ctx.check(oks and r == (1, 1), R, b, 'make_prediction:stores-the-updated-state', str(r),
              'the state stored back is not the result of update() on every path (%s)' % (
                  repr(eb.arg(sets[0], 1))[:200] if sets else 'no set_state'))
    res = eb.place(0, ())
    n += 1
    okr = any(c.name == BOX + '::update' for c in res.calls('update')) and not any(
        x.kind == 'call' and x.name == BOX + '::predict' for x in alternatives(
            (res.calls('try_from') or [res])[0].args[0] if (res.calls('try_from')) else res))
    ctx.check(okr, R, b, 'make_prediction:reports-the-updated-mean', repr(res)[:200],
              'the box reported by make_prediction is not converted from the updated state: %s' % repr(res)[:300])
    # the reported box IS the conversion of the updated state: between the conversion and the return only `confidence`
    # (which the filter does not carry) is written, from the observation; a geometry component that is re-written
    # (normalised angle, clamped aspect ..) makes the box kept for the next association - and echoed in the record of a
    # continued track - differ from the filter's state
    from lib import backward_locals
    flows = backward_locals(b, b.defs().get(0, [])) | {0}
    for i in sorted(b.live_blocks()):
        for si, s_ in enumerate(b.blocks[i]['st']):
            if s_['k'] != 'assign' or not s_['lhs']['p'] or s_['lhs']['l'] not in flows:
                continue
            if 'bbox::Universal2DBox' not in b.locals[s_['lhs']['l']]:
                continue
            fl = [p.get('n') for p in s_['lhs']['p'] if isinstance(p, dict) and p.get('n')]
            if not fl:
                continue
            n += 1
            v = eb._rvalue(s_['rv'], (), 0, (i, si))
            if fl[0] == 'confidence':
                ctx.check(v.has_place(root=('param', 2), field='confidence'), R, b,
                          'make_prediction:confidence-from-the-observation', repr(v)[:80],
                          'the reported box gets its confidence from %r, not from the observed box' % v, s_.get('ln', ''))
            else:
                ctx.check(False, R, b, 'make_prediction:reported-box-is-the-updated-state', '%s = %r' % (fl[0], v),
                          'make_prediction overwrites `%s` of the reported box with %r after converting the updated '
                          'state: the box stored for the next association / echoed in the record is no longer the '
                          "filter's estimate" % (fl[0], v), s_.get('ln', ''))
    return n


def angle_option_rule(ctx, R):
    """R07.7 — state -> box: the angle is absent exactly when the angle component equals 0 (the inverse of
    `angle.unwrap_or(0.0)` in box -> state); a sign test would report rotated boxes as axis aligned."""
    n = 0
    # the impl is found by what it implements (TryFrom<KalmanState<_>> for Universal2DBox), wherever its block lives
    bs = [b for b in ctx.F.fn_bodies() if b.npath.rsplit('::', 1)[-1] == 'try_from' and
          b.d.get('impl_self', '').endswith('Universal2DBox') and b.nargs == 1 and 'KalmanState' in b.locals[1]]
    if len(bs) != 1:
        ctx.fail(R, 'utils::kalman::try_from', 'ANCHOR-MISSING:TryFrom<KalmanState> for Universal2DBox',
                 'conversion from the filter state to a box not found')
        return 0
    b = bs[0]
    ctx.read(b)
    eb = ExprBuilder(b)
    from lib import orient
    cs = b.find_calls('utils::bbox::Universal2DBox::new')
    if len(cs) != 1:
        ctx.note(R, 'TryFrom<KalmanState> for Universal2DBox no longer builds the box through Universal2DBox::new; '
                 'angle clause not armed on this shape')
        ctx.fail(R, b, 'ANCHOR-MISSING:new', 'no single Universal2DBox::new call in the state->box conversion')
        return 0
    c = cs[0]
    def mean_idx(e):
        """k when e is mean[k] of the state parameter"""
        while e.kind == 'call' and e.name.rsplit('::', 1)[-1] in ('clone', 'deref', 'to_owned') and e.args:
            e = e.args[0]
        if e.kind == 'cast' and e.args:
            return mean_idx(e.args[0])
        if e.kind == 'call' and e.name.rsplit('::', 1)[-1] in ('index', 'get_unchecked') and len(e.args) == 2 and \
                e.args[0].kind == 'place' and e.args[0].root == ('param', 1) and e.args[0].fields[-1:] == ('mean',) \
                and e.args[1].kind == 'const':
            try:
                return int(e.args[1].const_value())
            except (TypeError, ValueError):
                return None
        return None
    for i in (0, 1, 3, 4):
        a = eb.arg(c, i)
        n += 1
        ctx.check(mean_idx(a) == i, R, b, 'state->box:component[%d]' % i, repr(a),
                  'argument #%d of Universal2DBox::new is %r (expected mean[%d])' % (i + 1, a, i), c.ln)
    # the angle operand: every feasible construction site of an Option<f32> in this (small) function, with the
    # conditions of the block that builds it
    from lib import feasible
    rows = []
    for i_ in sorted(b.live_blocks()):
        for si_, s_ in enumerate(b.blocks[i_]['st']):
            rv = s_['rv'] if s_['k'] == 'assign' else None
            if not rv or rv['k'] != 'agg' or rv.get('ak') != 'adt' or not str(rv.get('adt', '')).endswith('option::Option'):
                continue
            if 'Option<f32>' not in b.locals[s_['lhs']['l']] and b.locals[s_['lhs']['l']] not in ('?',):
                if not ('Option' in b.locals[s_['lhs']['l']] and 'f32' in b.locals[s_['lhs']['l']]):
                    continue
            conds = path_conditions(b, i_)
            if not feasible(conds):
                continue
            alt = eb._rvalue(rv, (), 0, (i_, si_))
            variant = rv['v']
            if variant == 'Some' and mean_idx(alt.args[0]) != 2 and not (
                    alt.args[0].kind == 'place' or alt.args[0].has_call('index')):
                continue
            zero = None
            for cnd in conds:
                cm = cnd.cmp()
                if not cm:
                    continue
                o = orient(cm, lambda e: mean_idx(e) == 2)
                if o and o[2].kind == 'const' and o[2].const_value() in ('0.0', '0', '-0.0'):
                    zero = o[0]
            if variant == 'Some' and zero is None and not any(mean_idx(x) == 2 for x in alt.walk()):
                continue
            rows.append((variant, zero, alt))
    # an unconditional `Some(mean[2])` that only feeds a filter is not a result alternative
    if len(rows) > 2:
        rows = [r for r in rows if not (r[0] == 'Some' and r[1] is None)] or rows
    n += 1
    ok = len(rows) >= 2 and {r[0] for r in rows} == {'None', 'Some'} and all(
        (r[0] == 'None' and r[1] == 'Eq') or (r[0] == 'Some' and r[1] == 'Ne') for r in rows)
    if not rows:
        # other accepted form: Some(x).filter(|a| *a != 0.0) etc. is not recognised: fail closed with a diagnosable id
        ctx.check(False, R, b, 'state->box:angle-absent-iff-zero', '',
                  'the angle argument of the state->box conversion is not built as `None` under angle == 0 / `Some` '
                  'otherwise (shape not recognised)')
        return n
    ctx.check(ok, R, b, 'state->box:angle-absent-iff-zero', str([(r[0], r[1]) for r in rows]),
              'the state->box conversion yields %s: the angle must be None exactly when the angle component equals 0 '
              '(negative or small angles would be dropped otherwise)' % [(r[0], 'angle %s 0' % r[1]) for r in rows])
    for r in rows:
        if r[0] == 'Some':
            n += 1
            ctx.check(r[2].kind == 'agg' and len(r[2].args) == 1 and mean_idx(r[2].args[0]) == 2, R, b,
                      'state->box:angle-component', repr(r[2]),
                      'Some(angle) is built from %r (expected mean[2])' % r[2])
    return n


def measurement_rule(ctx, R):
    """R07.10 — the measurement a box / point contributes is the same vector wherever the filter builds it (initiate,
    update, distance: contradiction rule between the three sites), every component is the untransformed coordinate
    (a bare field read; the optional angle defaults to the constant 0), in the order in which the state -> box
    conversion reads the state back (writer's and reader's tables agree), and initiate starts all velocities at 0.
    A site that normalises, clamps or defaults a component differently from its siblings makes the innovation
    z - H m compare two different encodings of the same box."""
    import wiring
    n = 0
    order = None
    nb = ctx.F.get('utils::bbox::Universal2DBox::new')
    if len(nb) == 1:
        pn = wiring.param_names(nb[0])
        order = [pn.get(k) for k in range(1, 6)]
    for K, ty, dim in ((BOX, 'bbox::Universal2DBox', 5), (PT, 'OPoint', 2)):
        per = {}
        for m in ('initiate', 'update', 'distance'):
            b = ctx.anchor(R, K + '::' + m)
            if b is None:
                continue
            zs = [k for k in range(1, b.nargs + 1) if ty in b.locals[k]]
            if len(zs) != 1:
                ctx.note(R, '%s::%s has no single %s parameter: measurement wiring not evaluated' % (K, m, ty))
                continue
            z = zs[0]
            eb = ExprBuilder(b)
            cands = []
            for i in sorted(b.live_blocks()):
                for si, s_ in enumerate(b.blocks[i]['st']):
                    if s_['k'] == 'assign' and s_['rv']['k'] == 'agg' and s_['rv'].get('ak') == 'array':
                        es = [eb.operand(op, at=(i, si)) for op in s_['rv']['ops']]
                        if sum(1 for e in es if any(p.root == ('param', z) for p in e.places())) >= 2:
                            cands.append((s_.get('ln'), es))
            if len(cands) != 1:
                ctx.note(R, '%s::%s builds its measurement vector in %d array literals: wiring not evaluated' % (
                    K.rsplit('::', 1)[-1], m, len(cands)))
                continue
            ln, es = cands[0]
            ctx.read(b)
            comps = []
            for k, e in enumerate(es):
                st = e.strip() if e.kind in ('cast',) else e
                field = None
                plain = False
                if st.kind == 'place' and st.root == ('param', z) and len(st.fields) >= 1:
                    field, plain = st.fields[-1], True
                elif st.kind == 'call' and st.name.rsplit('::', 1)[-1] == 'unwrap_or' and len(st.args) == 2 and \
                        st.args[0].strip().kind == 'place' and st.args[0].strip().root == ('param', z):
                    field = st.args[0].strip().fields[-1]
                    d = st.args[1]
                    plain = d.kind == 'const' and d.const_value() in ('0.0', '0', '-0.0')
                elif st.kind == 'call' and st.name.rsplit('::', 1)[-1] == 'unwrap_or_default' and len(st.args) == 1 and \
                        st.args[0].strip().kind == 'place' and st.args[0].strip().root == ('param', z):
                    field, plain = st.args[0].strip().fields[-1], True
                elif st.kind == 'phi' and len(st.args) == 2 and sorted(x.kind for x in st.args) == ['const', 'place'] and \
                        [x for x in st.args if x.kind == 'const'][0].const_value() in ('0.0', '0', '-0.0') and \
                        [x for x in st.args if x.kind == 'place'][0].root == ('param', z):
                    # match z.angle { Some(a) => a, None => 0.0 }
                    pl = [x for x in st.args if x.kind == 'place'][0]
                    fs = [f for f in pl.fields if not f.startswith('as ') and not f.isdigit()]
                    field, plain = (fs[-1] if fs else '?'), True
                elif st.kind == 'const':
                    field = 'const:' + str(st.const_value())
                    plain = True
                else:
                    fs = sorted({p.fields[-1] for p in st.places() if p.root == ('param', z) and p.fields})
                    field = '/'.join(fs) or '?'
                comps.append((field, plain, repr(e)))
            per[m] = (b, ln, comps)
            for k, (field, plain, txt) in enumerate(comps[:dim]):
                n += 1
                ctx.check(plain and not field.startswith('const:'), R, b, '%s:z[%d]-is-the-plain-coordinate' % (m, k), txt,
                          '%s::%s feeds component %d of the measurement with %s: expected the untransformed coordinate '
                          '(optional angle: unwrap_or(0.0)); a normalised / clamped / state-dependent value is another '
                          'encoding than the one update(), distance() and the state -> box conversion use'
                          % (K.rsplit('::', 1)[-1], m, k, txt), ln)
                if K == BOX and order and plain:
                    n += 1
                    ctx.check(field == order[k], R, b, '%s:z[%d]=%s' % (m, k, order[k]), field,
                              '%s::%s puts `%s` into component %d of the measurement; the state -> box conversion reads '
                              'component %d back as `%s`' % (K.rsplit('::', 1)[-1], m, field, k, k, order[k]), ln)
            if m == 'initiate' and not comps[dim:]:
                ctx.note(R, '%s::initiate builds positions and velocities separately: velocity clause not evaluated' % K)
            elif m == 'initiate':
                n += 1
                rest = comps[dim:]
                ctx.check(len(rest) == dim and all(f in ('const:0.0', 'const:0', 'const:-0.0') for f, _, _ in rest), R, b,
                          'initiate:velocities-start-at-0', str([t for _, _, t in rest]),
                          'initiate does not start the %d velocity components at the constant 0: %s' % (
                              dim, [t for _, _, t in rest]), ln)
        ms = [m for m in ('initiate', 'update', 'distance') if m in per]
        for m in ms[1:]:
            a, bq = per[ms[0]], per[m]
            def canon(f, plain, t):
                return (f, 'plain') if plain else (f, t.replace('p%d.' % 2, 'z.').replace('p%d.' % 3, 'z.'))
            ca = [canon(*x) for x in a[2][:dim]]
            cb = [canon(*x) for x in bq[2][:dim]]
            n += 1
            ctx.check(ca == cb, R, bq[0], '%s-and-%s-build-the-same-measurement' % (ms[0], m), str([t for _, t in cb]),
                      '%s::%s encodes the measurement as %s while %s encodes it as %s: the filter compares two '
                      'different encodings of the same box' % (K.rsplit('::', 1)[-1], m, [t for _, t in cb], ms[0],
                                                                 [t for _, t in ca]), bq[1])
    return n


def recurrence_rule(ctx, R):
    """R07.11 — the recurrences as matrix expressions (rules/matnf.py: non-commutative normal form with transpose and
    inverse; static, no numbers):
        predict   m' = F m            P' = F P F^T + Q          (Q: one diagonal noise term)
        project   (H m,  H P H^T + R)                            (R: one diagonal noise term)
        update    m' = m + K (z - H m),   P' = P - K S K^T      with K = P H^T S^-1, S = project(..).covariance
        distance  d  = (z - H m)^T S^-1 (z - H m)
    P and S are taken as symmetric (reachable states), solve_lower_triangular(S, B) as S^-1 B.  The comparison is an
    identity in that algebra, so operand order, a dropped or misplaced transpose, `+` for `-`, P for S are all
    reported even when the multiset of operations is unchanged (which R07.2's sibling comparison cannot see).
    Evaluated only when the whole expression reduces; otherwise recorded as not evaluated."""
    import matnf
    from matnf import Mat, to_mat, NotLinear
    SYM = frozenset(['P', 'S', 'Q', 'R', 'I'])
    n = 0
    for K in (BOX, PT):
        short = K.rsplit('::', 1)[-1]
        for m in ('predict', 'project', 'update', 'distance'):
            bs = ctx.F.get(K + '::' + m)
            if len(bs) != 1:
                ctx.note(R, '%s::%s not found as one body: recurrence not evaluated' % (short, m))
                continue
            b = bs[0]
            ctx.read(b)
            eb = ExprBuilder(b)
            # parameter roles by type
            st = [k for k in range(1, b.nargs + 1) if 'KalmanState' in b.locals[k]]
            # in-place updates of a vector: x.sub_assign(&y) / add_assign
            mut = {}
            for c in b.find_calls('sub_assign', 'add_assign'):
                if len(c.args) == 2 and c.args[0].get('k') in ('copy', 'move'):
                    r = c.args[0]['pl']['l']
                    tgt = None
                    for d in b.defs().get(r, []):
                        if d[0] == 'assign' and d[3]['rv']['k'] == 'ref':
                            tgt = d[3]['rv']['pl']['l']
                    if tgt is not None:
                        # the mutated vector and every local it was moved / copied from (a value built by a helper and
                        # moved into the variable that is then updated in place)
                        todo, seen_ = [tgt], set()
                        while todo:
                            x_ = todo.pop()
                            if x_ in seen_:
                                continue
                            seen_.add(x_)
                            mut.setdefault(x_, []).append((c.name, eb.arg(c, 1)))
                            for d in b.defs().get(x_, []):
                                if d[0] == 'assign' and d[3]['rv']['k'] == 'use' and d[3]['rv']['op'].get('k') in ('copy', 'move') \
                                        and not d[3]['rv']['op']['pl']['p']:
                                    todo.append(d[3]['rv']['op']['pl']['l'])

            def atom_of(e, _m=m, _st=st, _b=b):
                if e.kind == 'place' and e.root[0] == 'param':
                    k, fl = e.root[1], tuple(f for f in e.fields if not f.startswith('as '))
                    if k == 1 and fl[-1:] == ('motion_matrix',):
                        return 'F'
                    if k == 1 and fl[-1:] == ('update_matrix',):
                        return 'H'
                    if _m == 'project':
                        if k == 2 and not fl:
                            return 'm'
                        if k == 3 and not fl:
                            return 'P'
                    if _st and k == _st[0]:
                        if fl[-1:] == ('mean',):
                            return 'm'
                        if fl[-1:] == ('covariance',):
                            return 'P'
                    return None
                if e.kind == 'call':
                    leaf = e.name.rsplit('::', 1)[-1]
                    if leaf == 'from_diagonal':
                        return 'Q' if _m == 'predict' else 'R'
                    if leaf == 'project' and e.name.startswith(K) and len(e.args) == 3:
                        try:
                            am = to_mat(e.args[1], atom_of, SYM)
                            ap = to_mat(e.args[2], atom_of, SYM)
                        except NotLinear:
                            return None
                        if not (am.same(Mat.atom('m', SYM)) and ap.same(Mat.atom('P', SYM))):
                            return None
                        if e.proj == ('mean',):
                            return Mat.atom('H', SYM) * Mat.atom('m', SYM)
                        if e.proj == ('covariance',):
                            return Mat.atom('S', SYM)
                        return None
                    if leaf in ('from_iterator', 'from_vec', 'from_column_slice', 'from_row_slice', 'new') and not e.proj \
                            and _m in ('update', 'distance') and 'Matrix' in (_b.locals[e.extra.dest['l']] if hasattr(e.extra, 'dest') else 'Matrix'):
                        z = Mat.atom('z', SYM)
                        dl = e.extra.dest['l'] if hasattr(e.extra, 'dest') else None
                        for nm, other in mut.get(dl, []):
                            try:
                                o = to_mat(other, atom_of, SYM)
                            except NotLinear:
                                return None
                            z = z - o if nm == 'sub_assign' else z + o
                        return z
                return None

            F_, H, mm, P, S, z = (Mat.atom(x, SYM) for x in ('F', 'H', 'm', 'P', 'S', 'z'))
            Q, Rn = Mat.atom('Q', SYM), Mat.atom('R', SYM)
            Kg = P * H.T() * S.inv()
            y = z - H * mm
            want = {
                'predict': {'mean': F_ * mm, 'covariance': F_ * P * F_.T() + Q},
                'project': {'mean': H * mm, 'covariance': H * P * H.T() + Rn},
                'update': {'mean': mm + Kg * y, 'covariance': P - Kg * S * Kg.T()},
                'distance': {None: y.T() * S.inv() * y},
            }[m]
            res = eb.place(0, ())
            parts = {}
            if m == 'distance':
                parts[None] = res
            else:
                aggs = [x for x in res.walk() if x.kind == 'agg' and x.name.endswith('KalmanState') and x.extra and
                        x.extra.get('fields')]
                if len(aggs) != 1:
                    ctx.note(R, '%s::%s does not return one KalmanState literal: recurrence not evaluated' % (short, m))
                    continue
                parts = dict(zip(aggs[0].extra['fields'], aggs[0].args))
            for f, ref in want.items():
                if f not in parts:
                    ctx.note(R, '%s::%s: component %s not found: not evaluated' % (short, m, f))
                    continue
                try:
                    got = to_mat(parts[f], atom_of, SYM)
                except NotLinear as x:
                    ctx.note(R, '%s::%s.%s is not a reducible matrix expression (%s): not evaluated' % (short, m, f or 'value', x))
                    continue
                n += 1
                ctx.check(got.same(ref), R, b, '%s:%s%s=textbook' % (short, m, ('.' + f) if f else ''), repr(got),
                          '%s::%s computes %s = %r; the Kalman recurrence is %r (F motion, H measurement matrix, P state '
                          'covariance, S projected covariance, Q / R noise, z measurement, m mean)' % (
                              short, m, f or 'the distance', got, ref))
    return n


def no_element_patch_rule(ctx, R):
    """R07.12 — the recurrences are whole-matrix linear algebra: predict / project / update / distance (and the vector
    filter's wrappers) never rewrite single components of a state / residual / covariance in place (`r[2] = f(r[2])`,
    `cov[(i, j)] = ..`).  A patched component (a wrapped angle residual, a clamped variance) makes the step something
    else than the linear filter the normal form of R07.11 describes - and the expression builder that R07.11 reads does
    not see in-place element writes, so their absence is a premise of that rule."""
    n = 0
    for K in (BOX, PT, VEC):
        for m in ('predict', 'project', 'update', 'distance', 'initiate'):
            for b in ctx.F.get(K + '::' + m):
                ctx.read(b)
                bad = []
                for hb in [b] + all_closures(ctx.F, b):
                    for c in hb.find_calls('index_mut', 'get_mut', 'iter_mut', 'column_mut', 'row_mut', 'fill', 'apply',
                                           'swap_rows', 'swap_columns', 'set_row', 'set_column', 'fixed_view_mut',
                                           'view_mut', 'as_mut_slice', 'get_unchecked_mut',
                                           # element-wise NON-LINEAR rewrites of a whole vector / matrix (a clamp of every
                                           # covariance entry breaks positive definiteness): same premise
                                           'map', 'map_with_location', 'zip_map', 'zip_zip_map', 'apply_into', 'zip_apply',
                                           'abs', 'sup', 'inf', 'simd_clamp', 'cap_magnitude', 'try_normalize',
                                           'normalize'):
                        if c.args and c.args[0].get('k') in ('copy', 'move'):
                            ty = hb.locals[c.args[0]['pl']['l']]
                            whole = c.name in ('map', 'map_with_location', 'zip_map', 'zip_zip_map', 'apply_into', 'zip_apply',
                                               'abs', 'sup', 'inf', 'simd_clamp', 'cap_magnitude', 'try_normalize', 'normalize')
                            if whole and not ('nalgebra' in c.callee and ty.lstrip('&').replace('mut ', '').startswith(
                                    'nalgebra::Matrix')):
                                continue
                            if 'nalgebra::Matrix' in ty or 'KalmanState' in ty:
                                bad.append(c)
                n += 1
                ctx.check(not bad, R, b, '%s:%s-no-element-patching' % (K.rsplit('::', 1)[-1], m), '',
                          '%s::%s rewrites single components of a vector / matrix in place (%s): the step is no longer the '
                          'linear recurrence (e.g. a residual component passed through a non-linear function)' % (
                              K.rsplit('::', 1)[-1], m, sorted({c.name for c in bad})), bad[0].ln if bad else '')
    return n


def run(ctx):
    ctx.rule('R07.12', 'no in-place element writes in initiate / predict / project / update / distance (premise of R07.11); '
                       'the gating distance is computed by a filter built from the weights of the track it is measured for')
    n = no_element_patch_rule(ctx, 'R07.12')
    import metriclib as _M
    n += _M.rule_positional(ctx, 'R07.12')
    ctx.floor('R07.12', n, 20)
    ctx.rule('R07.11', 'recurrences as matrix expressions equal the textbook ones (predict, project, update, distance; '
                       'normal form with transpose / inverse)')
    ctx.evaluated('R07.11', recurrence_rule(ctx, 'R07.11'), 14)
    ctx.rule('R07.10', 'measurement vector: same plain coordinates at initiate / update / distance, in the order the '
                       'state -> box conversion reads them back; velocities start at 0')
    ctx.evaluated('R07.10', measurement_rule(ctx, 'R07.10'), 42)
    _ownership(ctx)
    _wiring(ctx)
    ctx.rule('R07.1', 'direct and inverted cost gate on CHI2INV95[dim-1] with the same comparison; value table')
    ctx.floor('R07.1', gate_rule(ctx, 'R07.1'), 11)
    ctx.rule('R07.2', 'box / point filter sibling agreement; vector filter delegates per point')
    ctx.floor('R07.2', sibling_rule(ctx, 'R07.2'), 9)
    ctx.rule('R07.3', 'height-scaled noise computed from the state before propagation')
    ctx.floor('R07.3', noise_source_rule(ctx, 'R07.3'), 5)
    ctx.rule('R07.4', 'weight wiring: constructors, std helpers, defaults, vector filter')
    ctx.floor('R07.4', weights_rule(ctx, 'R07.4'), 9)
    ctx.rule('R07.6', 'make_prediction: (initiate) -> predict -> update exactly once each; stored and reported state = update result')
    ctx.floor('R07.6', sequence_rule(ctx, 'R07.6'), 8)
    ctx.rule('R07.9', 'no data-dependent shortcut in initiate / predict / update / distance')
    ctx.floor('R07.9', no_shortcut_rule(ctx, 'R07.9'), 8)
    ctx.rule('R07.7', 'state -> box conversion: components in place, angle absent exactly when it equals 0')
    ctx.floor('R07.7', angle_option_rule(ctx, 'R07.7'), 6)


def _wiring(ctx):
    """name-agreement wiring of the configuration values this property depends on (rules/wiring.py)"""
    import wiring
    ctx.rule('R07.5', 'configuration plumbing: same-named fields / parameters / setters / call arguments are not crossed')
    ctx.floor('R07.5', wiring.run(ctx, 'R07.5', {'position_weight', 'velocity_weight'}), 24)


def _ownership(ctx):
    """who-may-write rows of rules/ownership.py that concern this property"""
    import ownership
    ctx.rule('R07.8', 'who-may-write: state this property depends on is changed only by its owners (rules/ownership.py)')
    ctx.floor('R07.8', ownership.run(ctx, 'R07.8', 'C07'), 2)
