"""C16 — feature packing and distance functions (partial claim: unpacking, formula wiring and common-prefix pairing of
euclidean / cosine; the lane packing of `from_vec` is NOT decided)."""
from lib import ExprBuilder, all_closures, closure_args_of_call, ref_targets, E

EXPLANATION = (
    "Only the clauses of C16 whose truth is visible in the shape of the code are decided; lane packing (`n mod 8` "
    "arithmetic of Feature::from_vec) and every numeric identity are NOT. (R16.1) unpacking a feature appends the 8 "
    "lanes of every block, in order, over the whole feature (no dropping / reordering adaptor); (R16.2) euclidean: the "
    "blocks of the two features are paired at the same position over the common prefix (`0..min(len, len)` with one "
    "index on both, or zip), the accumulated term is reduce_add of a product whose two factors are the same difference "
    "of the paired blocks, terms are accumulated by `+` from 0, and the result is the square root of the accumulated "
    "sum; (R16.3) cosine: the numerator accumulates reduce_add of the product of the paired blocks over the same common "
    "prefix; the denominator is the square root of the product of two sums, each accumulating reduce_add(x*x) over the "
    "first min(len, len) blocks of ONE of the two features (one sum per feature); the result is numerator / "
    "denominator. In-place lane arithmetic (`a -= b; a *= a`) is evaluated symbolically per loop iteration, so the "
    "operator (`a - b`) and the in-place form read alike."
    ' (R16.4, the one decided clause of the packing routine) a lane buffer that is filled partially and pushed as a block inside the packing loop is re-initialised to zeros inside that loop (stale lanes of the previous block would otherwise pad a partial last block).'
    ' (R16.5) the owned conversion Vec<f32> -> Feature is the borrowed packer applied to the same vector (or both are spliced from one shared helper).')
NOT_DECIDED = ["Feature::from_vec: chunks of 8 lanes with a zero-padded last block (value-level `n mod 8` arithmetic)",
               "round trip equality, symmetry, triangle inequality, range and scaling invariance as numeric statements",
               "floating-point accuracy of the lane reductions"]
ASSUMPTIONS = ["ultraviolet::f32x8 lane arithmetic and reduce_add are what their names say",
               "rustc nightly MIR construction"]

INPLACE = {'sub_assign': 'Sub', 'mul_assign': 'Mul', 'add_assign': 'Add', 'div_assign': 'Div'}
BYVALUE = {'sub': 'Sub', 'mul': 'Mul', 'add': 'Add', 'div': 'Div'}
DROPPING = ('skip', 'take', 'step_by', 'rev', 'filter', 'filter_map', 'skip_while', 'take_while', 'chain', 'cycle',
            'dedup', 'flat_map', 'windows', 'chunks')


def sym(e):
    """normalise lane arithmetic written with operator calls into bin nodes; look through copies / derefs / casts"""
    if not isinstance(e, E):
        return e
    x = e
    while x.kind == 'call' and x.name.rsplit('::', 1)[-1] in ('clone', 'deref', 'deref_mut', 'borrow', 'as_ref',
                                                                'to_owned', 'into', 'from') and x.args and not x.proj:
        x = x.args[0]
    if x.kind == 'cast' and x.args:
        return sym(x.args[0])
    if x.kind == 'call' and x.name.rsplit('::', 1)[-1] in BYVALUE and len(x.args) == 2 and \
            x.name.startswith('std::ops::'):
        return E('bin', name=BYVALUE[x.name.rsplit('::', 1)[-1]], args=[sym(x.args[0]), sym(x.args[1])])
    if x.kind in ('bin', 'un', 'call') and x.args:
        return E(x.kind, name=x.name, args=[sym(a) for a in x.args], root=x.root, fields=x.fields, const=x.const,
                 site=x.site, extra=x.extra, proj=x.proj)
    return x


def lane_terms(F, body):
    """[(Call reduce_add, symbolic argument)] for every reduce_add of `body`: the argument is evaluated with the in-place
    lane operations that precede it on the same local (`b -= c; b *= b; b.reduce_add()` -> Mul(Sub(b0, c), Sub(b0, c)))"""
    eb = ExprBuilder(body)
    env = {}
    order = sorted(body.live_blocks())
    out = []

    def value_of_local(l, at):
        if l in env:
            return env[l]
        return sym(eb.place(l, (), 0, at))

    def arg_value(c, i):
        at = (c.bb, len(body.blocks[c.bb]['st']))
        tg = ref_targets(body, c.args[i])
        if len(tg) == 1 and not tg[0][1]:
            return tg[0][0], value_of_local(tg[0][0], at)
        a = c.args[i]
        if a['k'] in ('copy', 'move') and not a['pl']['p'] and a['pl']['l'] in env:
            return a['pl']['l'], env[a['pl']['l']]
        return None, sym(eb.arg(c, i))
    for bb in order:
        # plain copies of a tracked local keep its symbolic value
        for s in body.blocks[bb]['st']:
            if s['k'] == 'assign' and not s['lhs']['p'] and s['rv']['k'] == 'use' and \
                    s['rv']['op']['k'] in ('copy', 'move') and not s['rv']['op']['pl']['p'] and \
                    s['rv']['op']['pl']['l'] in env:
                env[s['lhs']['l']] = env[s['rv']['op']['pl']['l']]
        c = body.calls().get(bb)
        if c is None or body.blocks[bb]['cleanup']:
            continue
        nm = c.name
        if nm in INPLACE and len(c.args) == 2 and c.callee.startswith('std::ops::'):
            l, cur = arg_value(c, 0)
            _l2, rhs = arg_value(c, 1)
            if l is not None:
                env[l] = E('bin', name=INPLACE[nm], args=[cur, rhs])
        elif nm in BYVALUE and len(c.args) == 2 and c.callee.startswith('std::ops::') and not c.dest['p']:
            _l1, a = arg_value(c, 0)
            _l2, b_ = arg_value(c, 1)
            env[c.dest['l']] = E('bin', name=BYVALUE[nm], args=[a, b_])
        elif nm == 'reduce_add' and c.args:
            _l, v = arg_value(c, 0)
            out.append((c, v))
    return out


def flat_phi(e):
    out = []

    def rec(x):
        if x.kind == 'phi':
            for y in x.args:
                rec(y)
        else:
            out.append(x)
    rec(e)
    return out


def _plain(txt):
    """an index text with borrowing views looked through: len(as_ref(p1)) reads len(p1)"""
    import re
    for _ in range(6):
        t2 = re.sub(r'\b(?:as_ref|borrow|deref|as_slice|as_deref)\(([^()]*)\)', r'\1', txt)
        if t2 == txt:
            break
        txt = t2
    return txt


def is_min_len(e):
    """min(len(f1), len(f2)) of the two parameters"""
    for y in e.walk():
        if y.kind == 'call' and y.name.rsplit('::', 1)[-1] == 'min' and len(y.args) == 2:
            rr = {p.root for a in y.args for p in a.places()}
            if rr == {('param', 1), ('param', 2)} and all(a.has_call('len') for a in y.args):
                return True
    return False


BAD_ORDER = ('skip', 'step_by', 'rev', 'filter', 'filter_map', 'skip_while', 'take_while', 'chain', 'cycle', 'dedup',
             'flat_map', 'windows', 'chunks', 'rchunks', 'split_at', 'last', 'nth')


def feature_of(chain):
    """(parameter root, prefix-bounded?) of an iteration over ONE feature: iter(f), take(n), f[..n], f[0..n]"""
    roots = set()
    bounded = False
    for y in chain.walk():
        if y.kind == 'call' and y.name.rsplit('::', 1)[-1] in BAD_ORDER:
            return None, False
        if y.kind == 'call' and y.name.rsplit('::', 1)[-1] == 'take' and len(y.args) == 2:
            bounded = bounded or is_min_len(y.args[1])
        if y.kind == 'call' and y.name.rsplit('::', 1)[-1] == 'index' and len(y.args) == 2:
            r = y.args[1].strip() if y.args[1].kind == 'call' else y.args[1]
            if r.kind == 'agg' and (r.name.endswith('RangeTo::RangeTo') or r.name.endswith('Range::Range')):
                if r.name.endswith('Range::Range') and not (r.args[0].kind == 'const' and str(r.args[0].const.get('v')) == '0'):
                    return None, False
                bounded = bounded or is_min_len(r.args[-1])
            elif r.kind == 'agg':
                return None, False
    for p in chain.places():
        if p.root[0] == 'param':
            roots.add(p.root)
    # the bound mentions both features: the iterated one is the receiver of the innermost iter / index
    heads = [y for y in chain.walk() if y.kind == 'call' and y.name.rsplit('::', 1)[-1] in ('iter', 'into_iter', 'index')
             and y.args]
    recv = set()
    for h in heads:
        rr = {p.root for p in h.args[0].places() if p.root[0] == 'param'} if not any(
            z.kind == 'call' and z.name.rsplit('::', 1)[-1] in ('iter', 'into_iter', 'index', 'zip') for z in h.args[0].walk()) else set()
        recv |= rr
    if len(recv) == 1:
        return list(recv)[0], bounded
    if len(roots) == 1:
        return list(roots)[0], bounded
    return None, bounded


def operand_info(F, root, body, x):
    """(feature parameter root, position key, prefix ok) of a lane-block operand of a reduction term"""
    from lib import elem_key, subst_upvars
    # index form: f[k]
    for y in x.walk():
        if y.kind == 'call' and y.name.rsplit('::', 1)[-1] == 'index' and len(y.args) == 2:
            r = y.args[1].strip() if y.args[1].kind == 'call' and y.args[1].name.rsplit('::', 1)[-1] != 'next' else y.args[1]
            if r.kind == 'agg':
                continue                  # a sub-slice, not an element
            pl = [p for p in subst_upvars(F, body, y.args[0]).places() if p.root[0] == 'param']
            if pl:
                bound = any(z.kind == 'agg' and z.name.endswith('Range::Range') and len(z.args) == 2 and
                            z.args[0].kind == 'const' and str(z.args[0].const.get('v')) == '0' and is_min_len(z.args[1])
                            for z in y.args[1].walk())
                return pl[0].root, repr(y.args[1]), bound
        if y.kind == 'place' and y.root[0] == 'param' and body.kind != 'Closure':
            idx = [str(f) for f in y.fields if str(f).startswith('[')]
            if idx:
                ix = _plain(idx[0])
                return y.root, idx[0], 'min(len(p1), len(p2))' in ix or 'min(len(p2), len(p1))' in ix
    k, chain, role = elem_key(F, root, body, x)
    if k is None or chain is None:
        return None, None, False
    z = [y for y in chain.walk() if y.kind == 'call' and y.name.rsplit('::', 1)[-1] == 'zip' and len(y.args) == 2]
    if z:
        # which component of the zipped pair: `.0` / `.1` after the payload of next() / of the closure parameter
        s_ = x
        while s_.kind == 'call' and s_.name.rsplit('::', 1)[-1] in ('clone', 'deref', 'copied', 'cloned') and s_.args:
            s_ = s_.args[0]
        pr = [str(q) for q in (s_.proj if s_.kind == 'call' else s_.fields)]
        pr = [q for q in pr if not q.startswith('as ')]
        if s_.kind == 'call' and pr[:1] == ['0']:
            pr = pr[1:]
        if body.kind == 'Closure' and s_.kind == 'place' and role == 'elem' and pr[:1] in (['0'], ['1']) and \
                len(pr) >= 2 and False:
            pr = pr[1:]
        comp = [q for q in pr if q in ('0', '1')]
        if not comp:
            return None, None, False
        side = z[0].args[int(comp[-1])] if len(comp) == 1 else z[0].args[int(comp[-1])]
        f_, _b = feature_of(side)
        other, _b2 = feature_of(z[0].args[1 - int(comp[-1])])
        ok = f_ is not None and other is not None
        return f_, k, ok
    f_, bounded = feature_of(chain)
    return f_, k, bounded


def reductions(F, b):
    """every `acc += reduce_add(T)` / fold / sum reduction of `b` (helpers inlined, closures included):
       {'call', 'owner', 'term' (symbolic), 'from_zero', 'value_site'}"""
    out = []
    for hb in [b] + all_closures(F, b):
        ehb = ExprBuilder(hb)
        for rc, v in lane_terms(F, hb):
            v = sym(v)
            from_zero = False
            if hb.kind == 'Closure':
                from lib import adaptors_of_closure
                ret = sym(ExprBuilder(hb).place(0, ()))
                # (one record per adaptor call that runs this closure: a helper spliced in twice shares its closure)
                for pb, ac in (adaptors_of_closure(F, b, hb) or [(None, None)]):
                    from_zero = False
                    if ac is not None and ac.name in ('fold', 'try_fold') and len(ac.args) >= 3:
                        init = ExprBuilder(pb).arg(ac, 1)
                        from_zero = ret.kind == 'bin' and ret.name == 'Add' and init.kind == 'const' and \
                            str(init.const.get('v')) in ('0.0', '0') and any(
                                y.kind == 'place' and y.root == ('param', 2) for y in ret.args[0].walk())
                    elif ac is not None and ac.name == 'map':
                        # map(term).sum() / fold(0, +)
                        from_zero = True
                    out.append({'call': rc, 'owner': hb, 'term': v, 'from_zero': from_zero, 'adaptor': ac, 'parent': pb})
            else:
                adds = []
                for i in sorted(hb.live_blocks()):
                    for si, s in enumerate(hb.blocks[i]['st']):
                        if s['k'] == 'assign' and s['rv']['k'] == 'bin' and s['rv']['op'] in ('Add', 'AddWithOverflow') \
                                and hb.in_loop(i):
                            e = ehb._rvalue(s['rv'], (), 0, (i, si))
                            if any(y.kind == 'call' and y.extra is rc for a in e.args for y in a.walk()):
                                adds.append(e)
                from_zero = len(adds) == 1 and any(y.kind == 'const' and str(y.const.get('v')) in ('0.0', '0')
                                                   for y in adds[0].walk())
                out.append({'call': rc, 'owner': hb, 'term': v, 'from_zero': from_zero, 'adaptor': None, 'parent': None})
    return out


def classify_term(F, b, red):
    """('square-diff' | 'product' | 'square' | None, operand infos)"""
    v = red['term']
    hb = red['owner']
    if v.kind == 'bin' and v.name == 'Mul':
        l, r = v.args
        if repr(l) == repr(r):
            if l.kind == 'bin' and l.name == 'Sub':
                return 'square-diff', [operand_info(F, b, hb, l.args[0]), operand_info(F, b, hb, l.args[1])]
            return 'square', [operand_info(F, b, hb, l)]
        return 'product', [operand_info(F, b, hb, l), operand_info(F, b, hb, r)]
    return None, []


def uses_value(e, red):
    """the expression contains the accumulated value of the reduction (its reduce_add call, or the fold / sum call of
    the adaptor that runs its closure)"""
    for y in e.walk():
        if y.kind == 'call' and (y.extra is red['call'] or (red['adaptor'] is not None and (
                y.extra is red['adaptor'] or any(z.kind == 'call' and z.extra is red['adaptor'] for z in y.walk())))):
            return True
    return False


def euclidean_rule(ctx, R):
    F = ctx.F
    b = ctx.anchor(R, 'distance::euclidean')
    if b is None:
        return 0
    n = 0
    reds = reductions(F, b)
    n += 1
    if len(reds) != 1:
        ctx.fail(R, b, 'euclidean:one-lane-reduction-per-block-pair', 'ANCHOR-MISSING: expected one reduce_add '
                 'reduction in euclidean, found %d' % len(reds))
        return n
    red = reds[0]
    kind, ops = classify_term(F, b, red)
    ctx.check(kind == 'square-diff', R, b, 'euclidean:term=reduce_add((a-b)*(a-b))', repr(red['term'])[:140],
              'the accumulated term of euclidean is reduce_add(%r) (expected the square of the difference of the paired '
              'blocks)' % red['term'], red['call'].ln)
    if kind == 'square-diff':
        (fa, ka, ba), (fb, kb, bb_) = ops
        n += 1
        ctx.check(fa is not None and fb is not None and {fa, fb} == {('param', 1), ('param', 2)} and ka == kb, R, b,
                  'euclidean:blocks-paired-at-the-same-position', '%s@%s / %s@%s' % (fa, str(ka)[:30], fb, str(kb)[:30]),
                  'the two blocks combined by euclidean come from %s at %s and %s at %s: expected block k of the first '
                  'feature with block k of the second' % (fa, ka, fb, kb), red['call'].ln)
        n += 1
        ctx.check(ba and bb_, R, b, 'euclidean:over-the-common-prefix', '',
                  'the block iteration of euclidean does not run over the common prefix (0..min(f1.len(), f2.len()) or '
                  'a zip of the two features): with features of different length it reads past the shorter one or '
                  'ignores part of the common prefix', red['call'].ln)
    n += 1
    ctx.check(red['from_zero'], R, b, 'euclidean:terms-summed-from-zero', '',
              'the terms of euclidean are not accumulated by `+` from 0')
    ret = ExprBuilder(b).place(0, ())
    n += 1
    r = ret
    while r.kind == 'cast' and r.args:
        r = r.args[0]
    if r.kind == 'phi':
        # explicit result 0 for an EMPTY common prefix (sqrt of the empty sum): accepted when the constant alternative
        # is returned under `min(len, len) == 0` / `is_empty()`, the other alternative is judged
        from lib import result_assignments, path_conditions
        rest = [a for a in r.args if not (a.kind == 'const' and a.const_value() in ('0.0', '0', '-0.0'))]
        zero_ok = True
        for bb_, kind_, pay_ in result_assignments(b):
            is_zero = (kind_ == 'const' and str(pay_) in ('0.0', '0', '-0.0')) or (
                kind_ == 'expr' and pay_.kind == 'const' and pay_.const_value() in ('0.0', '0', '-0.0'))
            if not is_zero:
                continue
            guarded = False
            for cnd in path_conditions(b, bb_):
                cm = cnd.cmp() if cnd.kind == 'bool' else None
                if cm and cm[0] == 'Eq':
                    for x_, y_ in ((cm[1], cm[2]), (cm[2], cm[1])):
                        if y_.kind == 'const' and y_.const_value() in ('0', 0) and x_.has_call('len') and (
                                x_.has_call('min') or x_.has_place(root=('param', 1)) or x_.has_place(root=('param', 2))):
                            guarded = True
                if cnd.kind == 'bool' and cnd.truth and cnd.expr.kind == 'call' and cnd.expr.name.rsplit('::', 1)[-1] == 'is_empty':
                    guarded = True
            zero_ok = zero_ok and guarded
        if len(rest) == 1 and zero_ok:
            r = rest[0]
            while r.kind == 'cast' and r.args:
                r = r.args[0]
    ok = r.kind == 'call' and r.name.rsplit('::', 1)[-1] == 'sqrt' and uses_value(r, red)
    ctx.check(ok, R, b, 'euclidean:result=sqrt(sum)', repr(ret)[:100],
              'euclidean returns %r (expected the square root of the accumulated sum)' % ret)
    return n


def cosine_rule(ctx, R):
    F = ctx.F
    b = ctx.anchor(R, 'distance::cosine')
    if b is None:
        return 0
    n = 0
    reds = reductions(F, b)
    kinds = [(classify_term(F, b, r), r) for r in reds]
    dots = [(k, o, r) for (k, o), r in kinds if k == 'product']
    norms = [(k, o, r) for (k, o), r in kinds if k == 'square']
    other = [r for (k, o), r in kinds if k not in ('product', 'square')]
    n += 1
    ctx.check(len(dots) == 1 and len(norms) == 2 and not other, R, b, 'cosine:dot-and-two-squared-norms',
              '%d dot, %d squared norms' % (len(dots), len(norms)),
              'cosine does not consist of one dot product of paired blocks and two squared norms (found %s)' % [
                  repr(r['term'])[:60] for r in reds])
    if len(dots) == 1:
        _k, ops, red = dots[0]
        (fa, ka, ba), (fb, kb, bb_) = ops
        n += 1
        ctx.check(fa is not None and fb is not None and {fa, fb} == {('param', 1), ('param', 2)} and ka == kb, R, b,
                  'cosine:blocks-paired-at-the-same-position', '%s / %s' % (fa, fb),
                  'the two blocks multiplied by cosine come from %s at %s and %s at %s: expected block k of the first '
                  'feature with block k of the second' % (fa, ka, fb, kb), red['call'].ln)
        n += 1
        ctx.check(ba and bb_, R, b, 'cosine:over-the-common-prefix', '',
                  'the dot product of cosine does not run over the common prefix of the two features', red['call'].ln)
        n += 1
        ctx.check(red['from_zero'], R, b, 'cosine:terms-summed-from-zero', '', 'the dot product terms are not '
                  'accumulated by `+` from 0')
    feats = []
    for _k, ops, red in norms:
        f_, key, bounded = ops[0]
        if red.get('adaptor') is not None and red.get('parent') is not None:
            # the feature this norm ranges over is what THIS adaptor call iterates (a shared helper's closure runs under
            # several adaptor calls, one per feature)
            from lib import subst_upvars as _su
            ch_ = _su(F, red['parent'], ExprBuilder(red['parent']).arg(red['adaptor'], 0))
            f2_, b2_ = feature_of(ch_)
            if f2_ is not None:
                f_, bounded = f2_, b2_
        feats.append(f_)
        n += 2
        ctx.check(bounded, R, b, 'cosine:norm-over-the-common-prefix', str(f_),
                  'a squared norm of cosine is not taken over the first min(f1.len(), f2.len()) blocks of its feature: '
                  'with features of different length the result is not the cosine of the common prefix', red['call'].ln)
        ctx.check(red['from_zero'], R, b, 'cosine:norm=sum(reduce_add(x*x))', '',
                  'a squared norm of cosine is not the sum from 0 of reduce_add(x * x) over the blocks', red['call'].ln)
    if len(norms) == 2:
        n += 1
        ctx.check(sorted(map(str, feats)) == sorted(map(str, [('param', 1), ('param', 2)])), R, b,
                  'cosine:one-squared-norm-per-feature', str(feats),
                  'cosine does not compute one squared norm for each of the two features (norms over %s)' % feats)
    ret = sym(ExprBuilder(b).place(0, ()))
    n += 1
    ok = False
    if ret.kind == 'bin' and ret.name == 'Div' and len(dots) == 1 and len(norms) == 2:
        num, den = ret.args
        s_ = den
        while s_.kind == 'cast' and s_.args:
            s_ = s_.args[0]
        if s_.kind == 'call' and s_.name.rsplit('::', 1)[-1] == 'sqrt' and s_.args:
            prod = sym(s_.args[0])
            both = prod.kind == 'bin' and prod.name == 'Mul' and all(uses_value(prod, r) for _k, _o, r in norms) and \
                uses_value(prod.args[0], norms[0][2]) != uses_value(prod.args[0], norms[1][2])
            ok = both and uses_value(num, dots[0][2]) and not any(uses_value(num, r) for _k, _o, r in norms)
    ctx.check(ok, R, b, 'cosine:result=dot/sqrt(norm1*norm2)', repr(ret)[:120],
              'cosine returns %r (expected accumulated dot product / sqrt(squared norm of f1 * squared norm of f2))' % ret)
    return n


def unpack_rule(ctx, R):
    F = ctx.F
    n = 0
    bs = [b for b in F.fn_bodies() if b.npath.rsplit('::', 1)[-1] == 'from_vec' and b.nargs == 1 and
          'f32x8' in b.locals[1] and b.locals[0].replace(' ', '') in ('std::vec::Vec<f32>',)]
    if len(bs) != 1:
        ctx.fail(R, 'track::utils::from_vec', 'ANCHOR-MISSING', 'the conversion Feature -> Vec<f32> was not found '
                 '(%d candidates)' % len(bs))
        return 0
    b = bs[0]
    ctx.read(b)
    eb = ExprBuilder(b)
    # every block of the input, in order: a loop / adaptor over the whole parameter
    sites = []
    for hb in [b] + all_closures(F, b):
        ehb = ExprBuilder(hb)
        for c in hb.find_calls():
            if c.name in ('as_array_ref', 'to_array', 'as_array', 'as_slice', 'into') and c.args and \
                    'f32x8' in str(hb.locals[c.args[0]['pl']['l']] if c.args[0].get('pl') else ''):
                sites.append((hb, c, ehb.arg(c, 0)))
    n += 1
    if not sites:
        ctx.fail(R, b, 'unpack:all-lanes-of-a-block', 'ANCHOR-MISSING: no block of the feature is turned into its 8 lanes')
        return n
    from lib import elem_key
    for hb, c, a in sites:
        k, chain, role = elem_key(F, b, hb, a)
        n += 1
        whole = chain is not None and any(p.root == ('param', 1) for p in chain.places()) and not any(
            y.kind == 'call' and y.name.rsplit('::', 1)[-1] in DROPPING + ('index',) for y in chain.walk())
        ctx.check(whole, R, b, 'unpack:every-block-in-order', repr(chain)[:100],
                  'the lanes are taken from %r: not every block of the feature, in order' % chain, c.ln)
        # all 8 lanes appended UNCHANGED: between the lane array and the sink (extend / extend_from_slice / the value a
        # flat_map closure yields) only view / copy adaptors may stand - no map, filter, sub-range or index
        PLAIN = ('as_array_ref', 'to_array', 'as_array', 'as_slice', 'iter', 'into_iter', 'copied', 'cloned', 'to_vec',
                 'deref', 'as_ref', 'borrow', 'by_ref', 'clone', 'into', 'from')
        used_whole = False
        e2 = ExprBuilder(hb)
        sinks = []
        for c2 in hb.find_calls():
            if c2.name in ('extend_from_slice', 'extend', 'append', 'extend_from_within'):
                for i in range(1, len(c2.args)):
                    if any(y.kind == 'call' and y.extra is c for y in e2.arg(c2, i).walk()):
                        sinks.append(e2.arg(c2, i))
        ret = e2.place(0, ())
        if hb.kind == 'Closure' and any(y.kind == 'call' and y.extra is c for y in ret.walk()):
            sinks.append(ret)
        for sk in sinks:
            ops_between = []

            def down(y):
                if y.kind == 'call' and y.extra is c:
                    return True
                for a_ in y.args:
                    if isinstance(a_, E) and any(z.kind == 'call' and z.extra is c for z in a_.walk()):
                        if y.kind == 'call':
                            ops_between.append(y.name.rsplit('::', 1)[-1])
                        elif y.kind != 'phi':
                            ops_between.append(y.kind)
                        return down(a_)
                return False
            down(sk)
            if all(o in PLAIN for o in ops_between):
                used_whole = True
            else:
                used_whole = False
                break
        n += 1
        ctx.check(used_whole, R, b, 'unpack:all-lanes-of-a-block', '',
                  'not all 8 lanes of a block are appended to the result', c.ln)
    return n


def padding_rule(ctx, R):
    """R16.4 (packing, one necessary clause only): a lane buffer that is pushed as a block inside the packing loop and
    written PARTIALLY inside that loop (one lane at a time, or a sub-slice) is reset to all-zero inside the loop - or
    lives only for one iteration, which in MIR is the same thing: its full initialisation lies in the loop.  A buffer
    that is initialised once before the loop keeps the lanes of the previous block in the padding of a partial last
    block.  Every full initialisation of such a buffer is a constant-zero array.  (Where the blocks are produced - the
    n mod 8 arithmetic - is not decided.)"""
    n = 0
    bodies = [b for b in ctx.F.fn_bodies() if b.npath.endswith('FromVec>::from_vec') and 'f32x8' in b.locals[0]
              and b.locals[1].replace(' ', '') in ('&std::vec::Vec<f32>', '&[f32]')]
    if not bodies:
        ctx.note(R, 'packing routine (FromVec<&Vec<f32>> for Feature) not found: padding clause not evaluated')
        return 0
    for b in bodies:
        ctx.read(b)
        loops = b.loops()
        bufs = [l for l, t in enumerate(b.locals) if t.replace(' ', '').startswith('[f32;')]
        for B in bufs:
            full, partial, pushed = [], [], []
            for i in sorted(b.live_blocks()):
                for si, s_ in enumerate(b.blocks[i]['st']):
                    if s_['k'] != 'assign':
                        continue
                    if s_['lhs']['l'] == B:
                        (partial if s_['lhs']['p'] else full).append((i, s_))
                    rv = s_['rv']
                    if rv['k'] == 'ref' and rv.get('mut') and rv['pl']['l'] == B:
                        # &mut B handed to a call: a sub-slice write (copy_from_slice on B[..n]) unless the whole array is
                        # overwritten; treated as partial when an index / range projection call follows
                        ref = s_['lhs']['l']
                        for c in b.find_calls():
                            if c.args and any(a.get('k') in ('copy', 'move') and a['pl']['l'] == ref for a in c.args):
                                if c.name in ('index_mut', 'get_mut', 'split_at_mut', 'iter_mut', 'get_unchecked_mut'):
                                    partial.append((c.bb, {'ln': c.ln}))
            for c in b.find_calls():
                if c.name in ('new', 'from', 'from_array', 'splat') and 'f32x8' in b.locals[c.dest['l']] and c.args:
                    a = c.args[0]
                    src = a['pl']['l'] if a.get('k') in ('copy', 'move') else None
                    while src is not None and src != B:
                        ds = [d for d in b.defs().get(src, []) if d[0] == 'assign' and d[3]['rv']['k'] == 'use'
                              and d[3]['rv']['op'].get('k') in ('copy', 'move')]
                        src = ds[0][3]['rv']['op']['pl']['l'] if len(ds) == 1 else None
                    if src == B:
                        pushed.append(c)
            for h, blks in loops.items():
                p_in = [x for x in pushed if x.bb in blks]
                w_in = [x for x in partial if x[0] in blks]
                if not p_in or not w_in:
                    continue
                # innermost loop only (a nested loop is judged on its own)
                if any(h2 != h and h2 in blks and any(x.bb in loops[h2] for x in p_in) for h2 in loops):
                    continue
                f_in = [x for x in full if x[0] in blks]
                n += 1
                ctx.check(bool(f_in), R, b, 'lane-buffer-reset-inside-the-block-loop', '%d reset(s) in the loop' % len(f_in),
                          'the lane buffer _%d is filled partially and pushed as a block inside the loop at bb%d but is never '
                          're-initialised inside that loop: the padding lanes of a partial last block keep the values of '
                          'the previous block instead of zeros' % (B, h), w_in[0][1].get('ln', ''))
            for i, s_ in full:
                rv = s_['rv']
                zero = None
                if rv['k'] == 'repeat':
                    op = rv.get('op') or {}
                    zero = op.get('k') == 'const' and str(op['c'].get('v')) in ('0.0', '0', '-0.0')
                elif rv['k'] == 'agg' and rv.get('ak') == 'array':
                    zero = all(o.get('k') == 'const' and str(o['c'].get('v')) in ('0.0', '0', '-0.0') for o in rv['ops'])
                if zero is None or not pushed:
                    continue
                n += 1
                ctx.check(zero, R, b, 'lane-buffer-initialised-to-zero', 'bb%d' % i,
                          'the lane buffer is initialised with a non-zero constant: padding lanes are not zero', s_.get('ln', ''))
    return n


def run(ctx):
    ctx.rule('R16.4', 'packing (one clause): a partially filled lane buffer is reset to zeros inside the block loop')
    ctx.evaluated('R16.4', padding_rule(ctx, 'R16.4'), 3)
    import misclib
    ctx.rule('R16.5', 'packing: the owned conversion Vec<f32> -> Feature delegates to the borrowed packer')
    ctx.evaluated('R16.5', misclib.rule_owned_packer_delegates(ctx, 'R16.5'), 1)
    ctx.rule('R16.1', 'Feature -> Vec<f32>: the 8 lanes of every block, in order, over the whole feature')
    ctx.floor('R16.1', unpack_rule(ctx, 'R16.1'), 3)
    ctx.rule('R16.2', 'euclidean = sqrt(sum over the common prefix of reduce_add((a_k - b_k)^2)), blocks paired by position')
    ctx.floor('R16.2', euclidean_rule(ctx, 'R16.2'), 5)
    ctx.rule('R16.3', 'cosine = dot / sqrt(norm1 * norm2): dot over paired blocks of the common prefix, one squared '
             'norm per feature over the same prefix')
    ctx.floor('R16.3', cosine_rule(ctx, 'R16.3'), 9)
