"""C12 — VisualSORT: appearance votes first, positional fallback, truthful voting type (gates, wiring, cascade)."""
import metriclib as M
import trackerlib as T
import votinglib as V
from lib import (ExprBuilder, all_closures, as_cmp, closure_args_of_call, eval_bool_paths, orient, path_conditions,
                 result_assignments)

EXPLANATION = (
    "Gates, wiring and cascade structure decided on MIR: (R12.1) a feature is usable iff area >= visual_minimal_area, "
    "quality >= threshold, own-area share >= threshold (missing share passes); the appearance distance is computed "
    "only if the track collected >= visual_minimal_track_length features (the collected-features count, not the "
    "track length); is_ok is d <= t (Euclidean) / d >= t (Cosine); vote counting d <= max_distance, len >= min_votes; "
    "(R12.2) metric() uses the *_use thresholds on the candidate's values, optimize() the *_collect thresholds; "
    "(R12.3) VisualVoting::winners feeds the positional (Hungarian) stage only with pairs whose detection has no "
    "appearance winner AND whose track was not taken by appearance AND that carry a positional weight; appearance "
    "winners are labelled Visual, positional winners Positional; best-fit awards a contested track to the greatest "
    "weight (shared with C17 R17.4) with weights relative to the stream-wide maximum distance; (R12.4) on the merge "
    "branch of all four trackers the candidate first receives VotingType(vt) from its winners entry and is then "
    "merged; the attribute merge copies voting_type and the record reports it; (R12.5) distance_to_weight is d / 1 - "
    "d and is returned only on the is_ok side; (R12.7) the positional fallback obeys the positional-metric clauses of "
    "SORT (C02 R02.1: gate, weight, and the confidence floor applied to the DETECTION's confidence); R12.6 includes "
    "the wiring of the vote quorum (VisualVoting::new receives visual_min_votes) in both trackers."
    ' R12.3 also requires that the track taken out of the positional stage is the very track reported as won by appearance; (R12.10) the observation constructor stores feature, quality, box and custom id unchanged and VisualMetricBuilder::build hands every configured threshold / bound over unchanged; (R12.11) the euclidean / cosine distances the votes are counted on satisfy the clauses of C16.'
    ' (R12.12) the count that gates appearance matching is maintained by the gallery bookkeeping of C13 (retain / sort / evict / push / recount); R12.11 includes the padding clause of the packing routine.')
EXPLANATION += ' (R12.13) the exclusively-owned share that gates the use of a feature is computed by the region / pair-filter / share rules of C15.'
NOT_DECIDED = ["vote arithmetic and gallery contents for concrete inputs", "feature distance numerics (C16, N/A)"]
ASSUMPTIONS = ["itertools::tee duplicates the stream", "rustc nightly MIR construction"]

VV = '<trackers::visual_sort::voting::VisualVoting as track::voting::Voting>::winners'
VKIND = 'trackers::visual_sort::metric::VisualSortMetricType'


def run(ctx):
    _ownership(ctx)
    _wiring(ctx)
    ctx.rule('R12.1', 'gate polarity of the appearance path')
    ctx.rule('R12.2', 'use thresholds in metric(); collect thresholds in optimize()')
    n = M.rule_collect_gate(ctx, 'R12.2', 'R12.1')
    n += gates(ctx, 'R12.1')
    n += V.rule_filter_and_weights(ctx, 'R12.1', V.BEST, 'bestfit')
    ctx.floor('R12.1', n, 20)
    ctx.rule('R12.3', 'cascade: appearance winners first; positional stage only for unclaimed detections/tracks')
    n = cascade(ctx, 'R12.3')
    n += V.rule_bestfit_claims(ctx, 'R12.3')
    n += V.rule_barrier(ctx, 'R12.3', V.BEST, 'bestfit')
    ctx.floor('R12.3', n, 14)
    ctx.rule('R12.4', 'voting type travels: add_observation(VotingType(vt)) before merge; merge copies; record reports')
    ctx.floor('R12.4', voting_type_travels(ctx, 'R12.4'), 3)
    ctx.rule('R12.5', 'similarity -> distance conversion')
    ctx.floor('R12.5', similarity(ctx, 'R12.5'), 4)
    from props import C06
    ctx.rule('R12.9', 'the simple and the batch VisualSORT front end run the same pipeline with the same constants')
    ctx.floor('R12.9', C06.sibling(ctx, 'R12.9', pairs=(('VisualSort', 'BatchVisualSort'),)), 3)
    ctx.rule('R12.7', 'positional fallback = the positional metric clauses of SORT (gate, detection confidence floor, cost)')
    ctx.floor('R12.7', M.rule_positional(ctx, 'R12.7'), 14)
    import wiring
    ctx.rule('R12.10', 'the observation a caller builds carries its feature, quality, box and custom id unchanged '
                       '(constructor stores its parameters as given; the trackers apply the documented defaults)')
    n = wiring.identity_ctor(ctx, 'R12.10', 'trackers::visual_sort::VisualSortObservation::new')
    from props import C13
    n += wiring.identity_from_self(ctx, 'R12.10', 'trackers::visual_sort::metric::builder::VisualMetricBuilder::build',
                                   'VisualMetricOptions', C13.GALLERY_OPTS)
    ctx.floor('R12.10', n, 8)
    # the cosine / euclidean distances the appearance votes are counted on (shared with C16)
    from props import C16
    ctx.rule('R12.11', 'the visual distances votes are counted on: euclidean / cosine over the common prefix (rules of C16)')
    n = C16.euclidean_rule(ctx, 'R12.11') + C16.cosine_rule(ctx, 'R12.11')
    n += C16.padding_rule(ctx, 'R12.11')
    ctx.floor('R12.11', n, 14)
    from props import C15
    ctx.rule('R12.13', 'the exclusively-owned share that gates the use of a feature is the share of C15: own polygon minus the '
                       'polygons of the other boxes (near pairs by the bounding-circle test alone), divided by the box area')
    n = C15.subtraction_rule(ctx, 'R12.13') + C15.pair_filter_rule(ctx, 'R12.13') + C15.share_rule(ctx, 'R12.13')
    ctx.floor('R12.13', n, 10)
    ctx.rule('R12.12', 'the count that gates appearance matching is the number of features actually stored (gallery '
                       'bookkeeping of C13: retain / sort / evict / push / recount)')
    ctx.floor('R12.12', M.rule_gallery(ctx, 'R12.12'), 8)


def gates(ctx, R):
    n = 0
    b = ctx.anchor(R, M.HELPER['visual'])
    if b is not None:
        eb = ExprBuilder(b)
        dist_calls = b.find_calls('distance::euclidean', 'distance::cosine')
        for c in dist_calls:
            conds = path_conditions(b, c.bb)
            okc = False
            detail = ''
            for k in conds:
                o = orient(k.cmp(), lambda e: e.has_place(root=('param', 4)))
                if o and o[2].has_field('visual_minimal_track_length'):
                    detail = '%r %s visual_minimal_track_length' % (o[1], o[0])
                    okc = o[0] == 'Ge' and o[1].has_field('visual_features_collected_count')
            n += 1
            ctx.check(okc, R, b, 'appearance-distance-only-if-enough-collected-features:' + c.name, detail,
                      'the appearance distance is computed when `%s` (expected visual_features_collected_count >= '
                      'visual_minimal_track_length: the number of features the track actually collected, not its '
                      'length)' % (detail or 'no such condition'), c.ln)
            a0, a1 = eb.arg(c, 0).strip(), eb.arg(c, 1).strip()
            n += 1
            ctx.check(a0.root == ('param', 2) and a1.root == ('param', 3), R, b, 'distance(candidate, track feature):' + c.name, '',
                      'the appearance distance is not computed between the candidate feature and the stored feature')
        # kind dispatch
        for c in dist_calls:
            conds = path_conditions(b, c.bb)
            vs = [k.variants for k in conds if k.kind == 'discr' and getattr(k, 'enum_ty', '').startswith(VKIND)]
            n += 1
            want = {'euclidean': {'Euclidean'}, 'cosine': {'Cosine'}}[c.name]
            ctx.check(vs == [want], R, b, 'metric-kind-dispatch:' + c.name, str(vs), '%s distance is used for metric '
                      'kind %s' % (c.name, vs))
    ib = ctx.anchor(R, VKIND + '::is_ok')
    if ib is not None:
        seen = {}
        for bb, knd, payload in result_assignments(ib):
            conds = path_conditions(ib, bb)
            vs = [list(k.variants)[0] for k in conds if k.kind == 'discr' and len(k.variants) == 1]
            if knd == 'expr' and vs:
                cm = as_cmp(payload, True)
                o = orient(cm, lambda e: e.strip().kind == 'place' and e.strip().root == ('param', 2)) if cm else None
                if o:
                    seen[vs[0]] = o[0]
        n += 2
        ctx.check(seen.get('Euclidean') == 'Le', R, ib, 'is_ok:euclidean d<=t', str(seen), 'Euclidean acceptance is '
                  '`d %s t` (expected <=)' % seen.get('Euclidean'))
        ctx.check(seen.get('Cosine') == 'Ge', R, ib, 'is_ok:cosine d>=t', str(seen), 'Cosine acceptance is `d %s t` '
                  '(expected >=)' % seen.get('Cosine'))
    return n


def cascade(ctx, R):
    F = ctx.F
    n = 0
    b = ctx.anchor(R, VV)
    if b is None:
        return 0
    eb = ExprBuilder(b)
    bf = b.find_calls('track::voting::best::BestFitVoting::new')
    n += 1
    ok = len(bf) == 1 and eb.arg(bf[0], 0).strip().fields[-1:] == ('max_allowed_feature_distance',) and \
        eb.arg(bf[0], 1).strip().fields[-1:] == ('min_winner_feature_votes',)
    ctx.check(ok, R, b, 'appearance-stage=BestFit(max_feature_distance,min_votes)', '',
              'the appearance stage is not BestFitVoting::new(max_allowed_feature_distance, min_winner_feature_votes)')
    sv = b.find_calls('trackers::sort::voting::SortVoting::new')
    n += 1
    ok = len(sv) == 1 and eb.arg(sv[0], 0).strip().fields[-1:] == ('positional_threshold',)
    if not sv:
        # the engine built through a (spliced) sibling constructor: one SortVoting literal whose threshold reads the
        # configured positional threshold, handed to the positional winners() call
        lits = []
        for i_ in sorted(b.live_blocks()):
            for si_, s_ in enumerate(b.blocks[i_]['st']):
                rv_ = s_.get('rv') or {}
                if s_['k'] == 'assign' and rv_.get('k') == 'agg' and rv_.get('ak') == 'adt' and \
                        str(rv_.get('adt', '')).endswith('sort::voting::SortVoting') and 'threshold' in rv_.get('fields', []):
                    lits.append(eb.operand(rv_['ops'][rv_['fields'].index('threshold')], at=(i_, si_)))
        ok = len(lits) == 1 and lits[0].has_field('positional_threshold')
    ctx.check(ok, R, b, 'positional-stage=Hungarian(positional_threshold)', '',
              'the positional stage is not SortVoting::new(positional_threshold, ..)')
    # closures
    visual_label = positional_label = excl_insert = False
    label_cb = b
    from lib import all_callables
    for cb in all_callables(F, b):
        ebc = ExprBuilder(cb)
        labels = set()
        from_best = False
        for i in sorted(cb.live_blocks()):
            for s_ in cb.blocks[i]['st']:
                if s_['k'] != 'assign':
                    continue
                rv = s_['rv']
                if rv['k'] == 'agg' and rv['ak'] == 'adt' and rv['adt'].endswith('VotingType'):
                    labels.add(rv['v'])
                for pl in [rv.get('pl')] + [o.get('pl') for o in [rv.get('op') or {}] if isinstance(o, dict)]:
                    if pl and any(isinstance(p, dict) and p.get('n') == 'winner_track' for p in pl['p']):
                        from_best = True
        if labels:
            # which stage the labelled winners come from: the adaptor chain the closure runs in starts at the result
            # of the appearance engine (BestFitVoting) or of the positional engine (SortVoting)
            from lib import adaptor_of_closure, subst_upvars
            pb_, ac_ = adaptor_of_closure(F, b, cb) if cb.kind == 'Closure' else (None, None)
            if ac_ is not None:
                chain_ = subst_upvars(F, pb_, ExprBuilder(pb_).arg(ac_, 0))
                engines = {('feature' if 'BestFitVoting' in (getattr(y.extra, 'res', '') or '') else 'positional')
                           for y in chain_.walk() if y.kind == 'call' and y.name.endswith('Voting::winners') and
                           any(k_ in (getattr(y.extra, 'res', '') or '') for k_ in ('BestFitVoting', 'SortVoting'))}
                if len(engines) == 1:
                    from_best = engines == {'feature'}
            if from_best:
                n += 1
                visual_label = labels == {'Visual'}
                ctx.check(visual_label, R, cb, 'appearance-winners-labelled-Visual', str(labels),
                          'winners of the appearance stage are labelled %s' % labels)
                ins = cb.find_calls('std::collections::HashSet::insert')
                excl_insert = bool(ins) and ebc.arg(ins[0], 1).has_field('winner_track')
                label_cb = cb
                # the track taken out of the positional stage IS the track reported as won: same expression
                if ins and excl_insert:
                    rep = []
                    for i_ in sorted(cb.live_blocks()):
                        for si_, s_ in enumerate(cb.blocks[i_]['st']):
                            rv_ = s_.get('rv') if s_['k'] == 'assign' else None
                            if rv_ and rv_['k'] == 'agg' and rv_.get('ak') == 'tuple' and len(rv_['ops']) == 2:
                                t2 = rv_['ops'][1]
                                if t2.get('k') in ('copy', 'move') and 'VotingType' in cb.locals[t2['pl']['l']] and \
                                        'Vec' not in cb.locals[t2['pl']['l']]:
                                    rep.append(ebc.operand(rv_['ops'][0], at=(i_, si_)))
                    taken = ebc.arg(ins[0], 1)
                    if rep:
                        n += 1
                        same = all(repr(r_.strip()) == repr(taken.strip()) for r_ in rep)
                        ctx.check(same, R, cb, 'excluded-track-is-the-reported-winner', repr(taken)[:80],
                                  'the appearance stage reports %r as the track won by the claimant but takes %r out of the '
                                  'positional stage: the reported track stays available there and can be awarded a second '
                                  'time' % (rep[0], taken), ins[0].ln)
            else:
                n += 1
                positional_label = labels == {'Positional'}
                ctx.check(positional_label, R, cb, 'positional-winners-labelled-Positional', str(labels),
                          'winners of the positional stage are labelled %s' % labels)
    if visual_label and not excl_insert:
        # split form: the taken set is filled by another closure of the same appearance chain
        # (`.map(|(from, w)| (from, w[0].winner_track)).inspect(|(_, t)| { taken.insert(*t); }).map(label)`)
        from lib import adaptor_of_closure as _aoc, subst_upvars as _su
        for cb2 in all_callables(F, b):
            if cb2.kind != 'Closure':
                continue
            pb2, ac2 = _aoc(F, b, cb2)
            if ac2 is None:
                continue
            ch2 = _su(F, pb2, ExprBuilder(pb2).arg(ac2, 0))
            feat = any(y.kind == 'call' and y.name.endswith('Voting::winners') and 'BestFitVoting' in (
                getattr(y.extra, 'res', '') or '') for y in ch2.walk())
            if not feat:
                continue
            e2 = ExprBuilder(cb2)
            for ic in cb2.find_calls('std::collections::HashSet::insert'):
                v2 = e2.arg(ic, 1).strip()
                if any(p_.root == ('param', 2) for p_ in v2.places()) or v2.has_field('winner_track'):
                    excl_insert = True
    if visual_label and not excl_insert:
        # collected form: the taken set is built by its own pass over the appearance winners
        # (`winners.values().map(|w| w[0].winner_track).collect::<HashSet<_>>()`)
        for c in b.find_calls():
            if c.name not in ('collect', 'extend', 'from_iter'):
                continue
            tys = [b.locals[c.dest['l']]] + [b.locals[a['pl']['l']] for a in c.args[:1] if a.get('pl')]
            if not any('HashSet' in t for t in tys):
                continue
            x = eb.arg(c, len(c.args) - 1)
            while x is not None and x.kind == 'call':
                if x.extra is not None and hasattr(x.extra, 'args'):
                    for mc in closure_args_of_call(F, b, x.extra):
                        r_ = ExprBuilder(mc).place(0, ())
                        if r_.has_field('winner_track'):
                            excl_insert = True
                        # ... or over the labelled winners map itself: `visual_winners.values().map(|w| w[0].0)` - the
                        # first component of the (track, VotingType::Visual) pairs the appearance stage produced
                        rs_ = r_.strip()
                        first = (rs_.kind == 'place' and rs_.fields[-1:] == ('0',)) or (rs_.kind == 'call' and rs_.proj[-1:] == ('0',)) \
                            or (r_.kind == 'call' and r_.proj[-1:] == ('0',))
                        chain_ = eb.arg(c, len(c.args) - 1)
                        if first and any(y.kind == 'call' and y.name.rsplit('::', 1)[-1] == 'values' for y in chain_.walk()) and \
                                any('VotingType' in str(b.locals[a_['pl']['l']]) for y in chain_.walk() if y.kind == 'call' and
                                    y.name.rsplit('::', 1)[-1] == 'values' and hasattr(y.extra, 'args')
                                    for a_ in y.extra.args[:1] if a_.get('pl')):
                            excl_insert = True
                x = x.args[0] if x.args else None
    if visual_label:
        n += 1
        ctx.check(excl_insert, R, label_cb, 'tracks-won-by-appearance-are-excluded', '',
                  'tracks won by appearance are not recorded as taken')
    if not visual_label:
        ctx.fail(R, b, 'appearance-winners-labelled-Visual', 'no closure labels appearance winners as Visual')
    if not positional_label:
        ctx.fail(R, b, 'positional-winners-labelled-Positional', 'no closure labels positional winners as Positional')
    # every claimant of the appearance stage stays a key of the winners map (a claimant that lost a contest is
    # re-pointed to itself by best-fit and must still be kept out of the positional stage)
    DROPPING = {'filter', 'filter_map', 'take', 'skip', 'take_while', 'skip_while', 'step_by', 'flat_map', 'flatten',
                'dedup', 'dedup_by', 'unique', 'unique_by'}
    chains = []
    for c in b.find_calls():
        if c.name not in ('collect', 'extend', 'for_each', 'fold', 'collect_vec'):
            continue
        recv = eb.arg(c, 0)
        sp = []          # the receiver spine: the adaptor chain itself, not what its closures capture
        x = recv
        while x is not None and x.kind == 'call':
            sp.append(x)
            x = x.args[0] if x.args else None
        if any(x.name.rsplit('::', 1)[-1] == 'winners' and x.args and any(
                y.kind == 'call' and y.name.endswith('BestFitVoting::new') for y in x.args[0].walk()) for x in sp):
            chains.append((c, sp))
    n += 1
    dropped = sorted({x.name.rsplit('::', 1)[-1] for _, sp in chains for x in sp
                      if x.name.rsplit('::', 1)[-1] in DROPPING})
    retains = [c for c in b.find_calls() if c.name in ('retain', 'remove', 'remove_entry') and 'HashMap' in c.callee]
    ctx.check(bool(chains) and not dropped and not retains, R, b, 'every-appearance-claimant-is-kept', '',
              'entries of the appearance result are dropped (%s) before the positional stage is fed: a detection that '
              'claimed a track by appearance and lost can now be attached positionally to another track' % (
                  dropped or [c.name for c in retains] or 'no chain from BestFitVoting::winners found'))
    # remaining distances: a pair reaches the positional stage only if its detection has no appearance winner, its
    # track was not taken by appearance and it carries a positional weight. Form independent: the facts are taken from
    # the predicate of a filter / filter_map over the second copy of the stream, or - for an explicit loop - from the
    # path conditions of the block that hands the pair on (push / insert of the remaining sets).
    from lib import necessary_keep_facts

    def classify(facts):
        got = {}
        for v in facts.values():
            if v[0] != 'bool' or v[2].kind != 'call':
                continue
            nm = v[2].name.rsplit('::', 1)[-1]
            arg = v[2].args[-1]
            fld = 'from' if arg.has_field('from') else ('to' if arg.has_field('to') else (
                'attribute_metric' if v[2].has_field('attribute_metric') else '?'))
            if nm == 'is_none':
                nm, truth = 'is_some', (not v[1])
            else:
                truth = v[1]
            got[(nm, fld)] = truth
        return got
    need = {('contains_key', 'from'): False, ('contains', 'to'): False, ('is_some', 'attribute_metric'): True}
    found = False
    verdicts = []
    for c in b.find_calls('std::iter::Iterator::filter', 'std::iter::Iterator::filter_map'):
        for cb in closure_args_of_call(F, b, c):
            if not cb.find_calls('std::collections::HashMap::contains_key', 'std::collections::HashSet::contains'):
                continue
            found = True
            kf, _pay = necessary_keep_facts(cb)
            got = classify(kf)
            verdicts.append((cb, [k for k, v in need.items() if got.get(k) != v], ExprBuilder(b).arg(c, 0)))
    if not found:
        # loop form: `for e in second_copy { if <claimed or taken or no weight> { continue } ...; remaining.push(e) }`.
        # Every iteration path that reaches the push must have established the three facts.
        from lib import loop_element_paths, E
        for c in b.find_calls('std::vec::Vec::push'):
            for h, blks in b.loops().items():
                if c.bb not in blks:
                    continue
                paths = loop_element_paths(b, h, [c.bb])
                if not any(k.kind == 'bool' and k.expr.kind == 'call' and k.expr.name.rsplit('::', 1)[-1] in (
                        'contains_key', 'contains') for conds, hit in paths for k in conds):
                    continue
                found = True
                missing = set()
                for conds, hit in paths:
                    if not hit:
                        continue
                    kf = {}
                    for k in conds:
                        if k.kind == 'bool' and k.truth is not None:
                            kf['bool:%s:%r' % (k.truth, k.expr)] = ('bool', k.truth, k.expr)
                        elif k.kind == 'discr' and k.variants == {'Some'} and k.expr.has_field('attribute_metric'):
                            kf['some'] = ('bool', True, E('call', name='is_some', args=[k.expr]))
                    got = classify(kf)
                    missing |= {k for k, v in need.items() if got.get(k) != v}
                src = [x for x in b.find_calls('std::iter::Iterator::next') if x.bb in blks]
                verdicts.append((b, sorted(missing), ExprBuilder(b).arg(src[-1], 0) if src else None))
    for cb, missing, recv in verdicts:
        n += 1
        ctx.check(not missing, R, cb, 'positional-stage-sees-only-unclaimed-detections-and-free-tracks', '',
                  'the pairs handed to the positional stage are not restricted to detections without an '
                  'appearance winner, tracks not taken by appearance, and pairs with a positional weight (%s)' %
                  ['%s(%s) not required to be %s' % (k[0], k[1], need[k]) for k in missing])
        n += 1
        ctx.check(recv is not None and recv.has_call('tee'), R, b, 'both-stages-see-the-same-stream', '',
                  'the positional stage does not read a copy (tee) of the distance stream of the appearance stage')
    if not found:
        ctx.fail(R, b, 'positional-stage-sees-only-unclaimed-detections-and-free-tracks', 'ANCHOR-MISSING: filter of '
                 'the remaining distances not found')
    # merged result
    ex = b.find_calls('std::iter::Extend::extend', 'std::collections::HashMap::extend')
    n += 1
    ctx.check(len(ex) == 1 and eb.arg(ex[0], 1).has_call('winners'), R, b, 'result=appearance-winners+positional-winners', '',
              'the result is not the appearance winners extended by the positional winners')
    return n


def voting_type_travels(ctx, R):
    n = 0
    for tname, t in T.TRACKERS.items():
        if not t['visual']:
            continue
        lb = ctx.anchor(R, T.result_path(t))
        if lb is None:
            continue
        eb = ExprBuilder(lb)
        ao = lb.find_calls('track::Track::add_observation')
        me = lb.find_calls('track::store::TrackStore::merge_external')
        n += 1
        ok = len(ao) == 1 and len(me) == 1 and lb.dominates(ao[0].bb, me[0].bb)
        detail = ''
        if ok:
            from lib import subst_upvars
            upd = subst_upvars(ctx.F, lb, eb.arg(ao[0], 4))
            detail = repr(upd)[:160]
            vt = upd.calls('new_voting_type')
            ok = bool(vt) and vt[0].args[0].has_call('winners') and (
                vt[0].args[0].proj[-1:] == ('1',) or '.1' in repr(vt[0].args[0])[-6:])
            tgt = eb.arg(ao[0], 0).strip()
            src = eb.arg(me[0], 2).strip()
            ok = ok and repr(tgt) == repr(src)
            # nothing else is added: class 0, no attributes, no feature
            ok = ok and eb.arg(ao[0], 2).kind == 'agg' and eb.arg(ao[0], 3).kind == 'agg'
        ctx.check(ok, R, lb, tname + ':candidate-gets-VotingType(vt)-before-merge', detail,
                  'on the continuation branch the candidate is not given VotingType(vt) (vt from its winners entry) '
                  'before it is merged into the winner: the record cannot report the voting type truthfully (%s)' % detail)
    ub = ctx.anchor(R, '<trackers::visual_sort::track_attributes::VisualAttributesUpdate as track::TrackAttributesUpdate>::apply')
    if ub is not None:
        eb = ExprBuilder(ub)
        okv = False
        for i in sorted(ub.live_blocks()):
            for si, s in enumerate(ub.blocks[i]['st']):
                if s['k'] == 'assign' and s['lhs']['l'] == 2 and s['lhs']['p'] and isinstance(s['lhs']['p'][-1], dict) \
                        and s['lhs']['p'][-1].get('n') == 'voting_type':
                    v = eb._rvalue(s['rv'], (), 0, (i, si))
                    conds = path_conditions(ub, i)
                    okv = v.has_place(root=('param', 1)) and any(k.kind == 'discr' and k.variants == {'VotingType'} for k in conds)
        n += 1
        ctx.check(okv, R, ub, 'apply:VotingType(vt)->attrs.voting_type', '', 'the VotingType update does not store '
                  'its payload in attrs.voting_type')
    return n


def similarity(ctx, R):
    n = 0
    b = ctx.anchor(R, VKIND + '::distance_to_weight')
    if b is not None:
        eb = ExprBuilder(b)
        seen = {}
        for d in b.defs().get(0, []):
            if d[0] != 'assign':
                continue
            conds = path_conditions(b, d[1])
            vs = [list(k.variants)[0] for k in conds if k.kind == 'discr' and len(k.variants) == 1]
            if vs:
                seen[vs[0]] = eb._rvalue(d[3]['rv'], (), 0, (d[1], d[2]))
        e, c = seen.get('Euclidean'), seen.get('Cosine')
        n += 2
        ctx.check(e is not None and e.strip().kind == 'place' and e.strip().root == ('param', 2), R, b,
                  'euclidean: weight = d', repr(e), 'Euclidean distance_to_weight is %r (expected d)' % e)
        ctx.check(c is not None and c.kind == 'bin' and c.name == 'Sub' and c.args[0].const_value() in ('1.0', '1') and
                  c.args[1].strip().root == ('param', 2), R, b, 'cosine: weight = 1 - d', repr(c),
                  'Cosine distance_to_weight is %r (expected 1 - d: best-fit voting treats smaller as closer)' % c)
    vb = ctx.anchor(R, M.HELPER['visual'])
    if vb is not None:
        from lib import effective_sites, adaptor_of_closure, subst_upvars
        for site, c, o in effective_sites(ctx.F, vb, VKIND + '::distance_to_weight'):
            if o is vb:
                from lib import expand_conditions
                ok = all(any(k.kind == 'bool' and k.truth is True and k.expr.kind == 'call' and
                             k.expr.name.endswith('is_ok') for k in conds)
                         for conds in expand_conditions(vb, path_conditions(vb, c.bb)))
            else:
                # `is_ok(d).then(|| distance_to_weight(d))`: the closure runs exactly when the receiver is true
                apb, ac = adaptor_of_closure(ctx.F, vb, o)
                if ac is None:
                    continue       # the combinator was desugared: the spliced copy of this call in vb is judged
                ok = ac.name in ('then', 'then_some') and ExprBuilder(apb).arg(ac, 0).has_call('is_ok')
            n += 1
            ctx.check(ok, R, vb, 'weight-only-if-is_ok', '', 'a visual weight is produced although is_ok(d) is false / unchecked')
            d_arg = subst_upvars(ctx.F, o, ExprBuilder(o).arg(c, 1))
            n += 1
            ctx.check(d_arg.has_call('euclidean') or d_arg.has_call('cosine'), R, vb, 'weight-of-the-computed-distance', '',
                      'distance_to_weight is not applied to the computed feature distance')
    return n


def _wiring(ctx):
    """name-agreement wiring of the configuration values this property depends on (rules/wiring.py)"""
    import wiring
    ctx.rule('R12.6', 'configuration plumbing: same-named fields / parameters / setters / call arguments are not crossed')
    ctx.floor('R12.6', wiring.run(ctx, 'R12.6', {'visual_kind', 'visual_minimal_track_length', 'visual_minimal_area', 'visual_minimal_quality_use', 'visual_minimal_own_area_percentage_use', 'visual_min_votes', 'max_allowed_feature_distance', 'min_winner_feature_votes', 'max_distance', 'min_votes'}), 21)


def _ownership(ctx):
    """who-may-write rows of rules/ownership.py that concern this property"""
    import ownership
    ctx.rule('R12.8', 'who-may-write: state this property depends on is changed only by its owners (rules/ownership.py)')
    ctx.floor('R12.8', ownership.run(ctx, 'R12.8', 'C12'), 3)
