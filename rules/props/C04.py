"""C04 — scene isolation (guards and keying)."""
import trackerlib as T
from lib import ExprBuilder

EXPLANATION = (
    "Scene isolation decided through its structural necessary conditions on MIR: (R04.1) both compatible() impls can "
    "return true only on the `self.scene_id == other.scene_id` side (every non-false result is dominated by the "
    "equal edge), so the metric — reached only through compatible() in Track::distances — never pairs scenes; "
    "(R04.2) epoch-map operations are keyed by the scene parameter, every predict advances exactly the epoch of the "
    "scene it was called for (exactly once on every path, never a scene-less skip) and stamps candidates with that "
    "scene and epoch, attribute updates copy scene_id, the idle lookup compares scene ids and reads the epoch of "
    "the track's own scene, and a batch job's result tuple carries the job's own scene id. "
    "(R04.5) in the batch VisualSORT the exclusively-owned-area shares are computed inside the per-scene loop from that scene's boxes only; (R04.6) scenes voted in parallel draw ids from one counter under one write-lock acquisition (a clash makes add_track fail inside a voting thread and the scene is not tracked); (R04.4) scene_id is written only by the attribute update. "
    "(R04.7) the idle listing of every tracker excludes Ok(Wasted) tracks, so what a scene reports does not depend on the collection timing driven by other scenes' calls."
    ' (R04.8) PredictionBatchRequest::add files a detection under its own scene: the per-scene entry is selected and created by the scene id (keyed lookup), never by position in the batch; (R04.9) tracks of other scenes only add empty columns to the assignment: winners always derive from the one maximising assignment over an id-indexed matrix; R04.7 also covers wasted().'
    ' (R04.10) a scene keeps its own clock and its own live tracks whatever other scenes do: epoch counters are never removed, the tracker-wide collection moves only tracks whose status is Ok(Wasted).')
EXPLANATION += ' Round 6 (R04.10): only next_epoch / skip_epochs_for_scene take the write lock of the epoch store and write through it; EpochDb::baked reads the map through get(&scene_id) only.'
NOT_DECIDED = ["non-interference of whole runs as a two-run comparison", "the shared auto-waste counter (GC timing is "
               "covered by C03 R03.4: observers do not depend on it)"]
ASSUMPTIONS = ["rustc nightly MIR construction", "Track::distances is the only path to the metric (checked in C02 R02.4)"]


def run(ctx):
    _ownership(ctx)
    _wiring(ctx)
    ctx.rule('R04.1', 'compatible() true only for equal scene ids')
    ctx.rule('R04.1i', '(shared with C03) idle bound in compatible')
    ctx.rule('R04.1v', '(shared with C20) validate in compatible')
    ctx.floor('R04.1', T.rule_compatible(ctx, 'R04.1', 'R04.1i', 'R04.1v'), 6)
    ctx.rule('R04.2', 'epoch map keyed by scene; predict advances and stamps its own scene; idle lookup per scene')
    n = T.rule_epoch_arithmetic(ctx, 'R04.2')
    n += T.rule_predict_epoch(ctx, 'R04.2')
    n += T.rule_idle_lookup(ctx, 'R04.2')
    n += apply_copies_scene(ctx, 'R04.2')
    n += batch_result_scene(ctx, 'R04.2')
    ctx.floor('R04.2', n, 29)
    ctx.rule('R04.5', 'batch VisualSORT: own-area shares are computed per scene, from that scene\'s boxes only')
    ctx.floor('R04.5', own_area_per_scene(ctx, 'R04.5'), 2)
    ctx.rule('R04.7', 'the idle listing of a scene excludes expired tracks whatever the (cross-scene) collection timing')
    ctx.floor('R04.7', T.rule_observers(ctx, 'R04.7', parts=('idle', 'wasted')), 9)
    ctx.rule('R04.8', 'a batch files every detection under its own scene: per-scene entries are selected and created by '
                      'scene id, never by position in the batch')
    ctx.floor('R04.8', T.rule_batch_request(ctx, 'R04.8'), 2)
    ctx.rule('R04.10', 'a scene keeps its own clock and its own live tracks whatever other scenes do: epoch counters are never '
                       'removed; the tracker-wide collection moves only tracks whose status is Ok(Wasted)')
    n = T.rule_epochs_never_forgotten(ctx, 'R04.10')
    n += T.rule_epoch_writers(ctx, 'R04.10')
    n += T.rule_status_reads_own_scene(ctx, 'R04.10')
    n += T.rule_only_expired_migrate(ctx, 'R04.10')
    ctx.floor('R04.10', n, 3)
    import votinglib as V
    ctx.rule('R04.9', 'tracks of other scenes only add empty columns to the assignment: the winners always come from the '
                      'one maximising assignment over the id-indexed matrix (no shortcut that depends on how many tracks '
                      'the whole store holds)')
    ctx.floor('R04.9', V.rule_hungarian(ctx, 'R04.9'), 3)
    ctx.rule('R04.6', 'scenes voted in parallel draw ids from one counter, atomically (a clash kills a scene\'s voting thread)')
    from props import C01
    C01.shared_counter(ctx, 'R04.6')
    C01.r3(ctx, 'R04.6')


def own_area_per_scene(ctx, R):
    n = 0
    b = ctx.anchor(R, 'trackers::visual_sort::batch_api::BatchVisualSort::predict')
    if b is None:
        return 0
    eb = ExprBuilder(b)
    calls = [c for c in b.find_calls() if c.name in ('exclusively_owned_areas', 'exclusively_owned_areas_normalized_shares')]
    for c in calls:
        a = eb.arg(c, 0)
        per_elem = any(x.kind == 'call' and x.name.rsplit('::', 1)[-1] == 'next' for x in a.walk())
        widened = [x.name.rsplit('::', 1)[-1] for x in a.walk() if x.kind == 'call' and
                   x.name.rsplit('::', 1)[-1] in ('flatten', 'flat_map', 'values', 'concat', 'chain')]
        n += 1
        ctx.check(bool(b.in_loop(c.bb)) and per_elem and not widened, R, b, 'own-area:%s-per-scene' % c.name,
                  'inside the scene loop, over the current scene element',
                  '%s is computed %s over %r: boxes of different scenes clip each other\'s exclusively owned area' % (
                      c.name, 'inside the scene loop' if b.in_loop(c.bb) else 'OUTSIDE the per-scene loop', a), c.ln)
    return n


def apply_copies_scene(ctx, R):
    n = 0
    for path, adt in (('<trackers::sort::SortAttributesUpdate as track::TrackAttributesUpdate>::apply', 'sort'),
                      ('<trackers::visual_sort::track_attributes::VisualAttributesUpdate as track::TrackAttributesUpdate>::apply', 'visual')):
        b = ctx.anchor(R, path)
        if b is None:
            continue
        eb = ExprBuilder(b)
        want = {'scene_id': 'scene_id', 'last_updated_epoch': 'epoch', 'custom_object_id': 'custom_object_id'}
        got = {}
        for i in sorted(b.live_blocks()):
            for si, s in enumerate(b.blocks[i]['st']):
                if s['k'] == 'assign' and s['lhs']['l'] == 2 and s['lhs']['p'] and isinstance(s['lhs']['p'][-1], dict):
                    f = s['lhs']['p'][-1].get('n')
                    v = eb._rvalue(s['rv'], (), 0, (i, si)).strip()
                    got[f] = v
        for f, src in want.items():
            n += 1
            v = got.get(f)
            ok = v is not None and v.kind == 'place' and v.root == ('param', 1) and v.fields[-1:] == (src,)
            ctx.check(ok, R, b, '%s:apply:%s<-update.%s' % (adt, f, src), repr(v),
                      'the attribute update writes %s from %r (expected the update\'s %s)' % (f, v, src))
    # constructors
    for path, fields in (('trackers::sort::SortAttributesUpdate::new_with_scene', None),
                         ('trackers::visual_sort::track_attributes::VisualAttributesUpdate::new_init_with_scene', None)):
        b = ctx.anchor(R, path)
        if b is None:
            continue
        e = ExprBuilder(b).place(0, ())
        ok = e.kind == 'agg'
        if ok:
            fs = e.extra['fields']
            m = dict(zip(fs, e.args))
            ok = all(m[f].strip().kind == 'place' and m[f].strip().root == ('param', k) for f, k in
                     (('epoch', 1), ('scene_id', 2), ('custom_object_id', 3)))
        n += 1
        ctx.check(ok, R, b, 'ctor(epoch,scene,custom)', repr(e)[:120],
                  'the update constructor does not store (epoch, scene_id, custom_object_id) from its parameters in '
                  'that order: %r' % e)
    return n


def batch_result_scene(ctx, R):
    """the result of a batch job is sent with the scene id of that job, which predict took from the batch entry"""
    n = 0
    for tname, t in T.TRACKERS.items():
        if not t['batch']:
            continue
        vt = ctx.anchor(R, t['loop'])
        pb = ctx.anchor(R, t['predict'])
        if vt is None or pb is None:
            continue
        # where the job carries the scene of its batch entry: the component of the VotingCommands::Distances payload
        # that predict fills with the scene it advanced the epoch for (the payload is private: the component is
        # found by what is stored in it, the voting thread must read that same component back)
        ebp = ExprBuilder(pb)
        okp = False
        scene_path = None
        detail = ''
        ne = pb.find_calls(T.EPOCH + '::next_epoch')
        want = repr(ebp.arg(ne[0], 1).strip()) if ne else None

        def leaves(x, path=()):
            x2 = x.strip() if x.kind == 'call' and not x.proj else x
            if x2.kind == 'agg' and not x2.proj and len(path) < 3 and isinstance(x2.extra, dict) and \
                    x2.extra.get('ak') in ('adt', 'tuple') and not x2.name.startswith('std::'):
                names = x2.extra.get('fields') or [str(i) for i in range(len(x2.args))]
                for nm, y in zip(names, x2.args):
                    for r in leaves(y, path + (str(nm),)):
                        yield r
            else:
                yield path, x
        for c in pb.find_calls('crossbeam::crossbeam_channel::Sender::send'):
            v = ebp.arg(c, 1)
            for x in v.walk():
                if x.kind == 'agg' and x.name.endswith('VotingCommands::Distances'):
                    for path, leaf in leaves(x):
                        if want is not None and repr(leaf.strip()) == want:
                            okp = True
                            scene_path = path
                            detail = '%s = %s' % ('.'.join(path), want)
        n += 1
        ctx.check(okp, R, pb, tname + ':job-carries-entry-scene', detail[:100],
                  'the voting job is not labelled with the scene id of the batch entry it was built from')
        eb = ExprBuilder(vt)
        sends = [c for c in vt.find_calls('crossbeam::crossbeam_channel::Sender::send')]
        ok = False
        detail = ''
        for c in sends:
            v = eb.arg(c, 1)
            if v.kind == 'agg' and v.name == 'tuple' and len(v.args) == 2:
                sc = v.args[0].strip()
                detail = repr(sc)
                proj = [str(x) for x in (sc.proj if sc.kind == 'call' else sc.fields)]
                if 'as Distances' in proj:
                    proj = proj[len(proj) - proj[::-1].index('as Distances'):]
                ok = sc.has_call('recv') and scene_path is not None and tuple(proj) == tuple(scene_path)
        n += 1
        ctx.check(ok, R, vt, tname + ':result-carries-job-scene', detail[:100],
                  'the voting thread does not send its result together with the scene id of the job (%s)' % detail)
    return n


def _wiring(ctx):
    """name-agreement wiring of the configuration values this property depends on (rules/wiring.py)"""
    import wiring
    ctx.rule('R04.3', 'configuration plumbing: same-named fields / parameters / setters / call arguments are not crossed')
    ctx.floor('R04.3', wiring.run(ctx, 'R04.3', {'scene_id'}), 20)


def _ownership(ctx):
    """who-may-write rows of rules/ownership.py that concern this property"""
    import ownership
    ctx.rule('R04.4', 'who-may-write: state this property depends on is changed only by its owners (rules/ownership.py)')
    ctx.floor('R04.4', ownership.run(ctx, 'R04.4', 'C04'), 2)
