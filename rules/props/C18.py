"""C18 — Python bindings are a faithful projection of the Rust API (wiring / delegation / registration / layout /
defaults; value equality needs the interpreter and is not decided)."""
import collections
import re

from lib import (ExprBuilder, all_closures, path_conditions, resolve_to_root, upvar_expr)
from mir import norm

EXPLANATION = (
    "Structural projection clauses decided on MIR of the pyo3 layer: (R18.1) every #[getter]/#[setter] whose name is a "
    "field of the wrapped Rust struct returns / assigns exactly that field of self.0; (R18.2) every other #[pymethods] "
    "method of a wrapper delegates, on every return path, to the same-named (or table-aliased) method of the wrapped "
    "value with the wrapped value itself as receiver (not a sub-object such as its options), option-builder methods "
    "have the same effect (fields written / metric-builder setters called) as the Rust builder method of that name; "
    "(R18.3) every #[pyclass] is registered with add_class and every #[pyfunction] with add_function in the "
    "#[pymodule] (PyVotingType excepted: value-only class); (R18.4) every mem::transmute outside macro expansions "
    "relates layout-compatible types (identical, repr(transparent) newtype, or Vec/tuple/Option thereof); (R18.5) the "
    "default arguments recovered from the generated argument extractors equal the documented table and their Rust "
    "counterparts (Default impls, DEFAULT_MINIMAL_SORT_CONFIDENCE), PySort and PyBatchSort agree."
    ' R18.5 also covers the default applied in the body of the Sort / BatchSort bindings (`method` omitted -> Mahalanobis); R18.7 also requires that each free #[pyfunction] goes through the Rust routine it is the projection of (delegate table with one reason per entry).'
    ' (R18.8) KalmanState -> BoundingBox composes KalmanState -> Universal2DBox -> BoundingBox, the two steps the Python bbox() takes.')
EXPLANATION += ' (R18.9) the Python constructors of the four trackers forward every argument unchanged; R18.7 also requires every answer of a free #[pyfunction] to come out of the Rust routine; (R18.10) wasted-track records carry the whole history in order (rule of C13).'
NOT_DECIDED = ["value equality Python <-> Rust for generated scripts (needs the interpreter)", "GIL handling",
               "text signatures / docstrings"]
ASSUMPTIONS = ["pyo3 0.23 macro expansion shape (__pymethod_*__ wrappers, extract_argument_with_default)",
               "rustc nightly MIR construction"]

INNER_FIELDS = ('0', 'filter', 'state')

# method of the wrapper -> accepted method names of the wrapped value
ALIAS = {
    'current_epoch': ['current_epoch_with_scene', 'current_epoch'],
    'predict': ['predict_with_scene', 'predict'],
    'idle_tracks': ['idle_tracks_with_scene', 'idle_tracks'],
    'idle_tracks_with_scene_py': ['idle_tracks_with_scene'],
    'shard_stats': ['active_shard_stats', 'shard_stats'],
    'as_ltwh': ['try_from', 'try_into', 'as_ltwh'],
    'rotate': ['rotate_mut', 'rotate'],
    'universal_bbox': ['try_from', 'try_into'],
    'bbox': ['try_from', 'try_into', 'universal_bbox'],
    'get_points': ['coords_iter', 'exterior', 'points'],
    'points': ['coords_iter', 'exterior', 'points', 'get_points'],
    'vertices': ['get_vertices'],
    'radius': ['get_radius'],
    'x': ['index'], 'y': ['index'],
    'new_py': ['new'],
    'prepare': ['add'],
    'add': ['add'],
}
# wrapper methods that are not projections of one wrapped method (reason each)
EXEMPT = {
    ('PyPositionalMetricType', 'maha'): 'constructs the enum value directly',
    ('PyPositionalMetricType', 'iou'): 'constructs the enum value directly (with an argument assertion)',
    ('PyVotingType', '*'): 'value-only class',
}


def wrappers(F):
    out = {}
    for path, a in F.adts.items():
        last = path.rsplit('::', 1)[-1]
        if last.startswith('Py') and len(a['variants']) == 1 and '::python::' in path or '_py::Py' in path:
            fs = a['variants'][0]['fields']
            if fs:
                out[path] = {'field': fs[0]['name'], 'inner': norm(fs[0]['ty']), 'transparent': a['transparent'],
                             'nfields': len(fs)}
    return out


def generated(F):
    """{wrapper path: [(kind, user fn name)]} from the pyo3-generated __pymethod_*__ trampolines"""
    gen = collections.defaultdict(list)
    for b in F.fn_bodies():
        if b.kind == 'Closure':
            continue
        m = re.match(r'(.*)::__pymethod_(get|set)_(.+)__$', b.npath)
        if m and F.get(m.group(1) + '::' + m.group(3)):
            gen[m.group(1)].append((m.group(2), m.group(3)))
            continue
        m = re.match(r'(.*)::__pymethod_(.+)__$', b.npath)
        if m and not m.group(2).startswith('__'):
            gen[m.group(1)].append(('method', m.group(2)))
    return gen


def inner_fields(F, inner):
    a = F.adts.get(inner)
    if not a or len(a['variants']) != 1:
        return []
    return [f['name'] for f in a['variants'][0]['fields']]


def leaves(e):
    if e.kind == 'phi':
        out = []
        for a in e.args:
            out += leaves(a)
        return out
    if e.kind == 'agg' and (e.name.endswith('Option::Some') or '::Py' in e.name) and len(e.args) == 1:
        return leaves(e.args[0])
    if e.kind == 'cast':
        return leaves(e.args[0])
    if e.kind == 'call' and e.name.rsplit('::', 1)[-1] in ('clone', 'to_owned', 'into', 'from', 'cloned', 'copied',
                                                          'to_vec', 'deref', 'as_ref') and e.args:
        return leaves(e.args[0])
    return [e]


def getters(ctx, R):
    F = ctx.F
    W = wrappers(F)
    G = generated(F)
    n = 0
    for w, lst in sorted(G.items()):
        if w not in W:
            continue
        f0, inner = W[w]['field'], W[w]['inner']
        fields = inner_fields(F, inner)
        for kind, fn in lst:
            if kind == 'method':
                continue
            x = re.sub(r'^(get_|set_)', '', fn)
            if x not in fields:
                continue
            b = F.one(w + '::' + fn)
            if b is None:
                continue
            ctx.read(b)
            eb = ExprBuilder(b)
            wname = w.rsplit('::', 1)[-1]
            if kind == 'get':
                e = eb.place(0, ())
                ls = leaves(e)
                ok = bool(ls) and all(l.strip().kind == 'place' and l.strip().root == ('param', 1) and
                                      l.strip().fields[:2] == (f0, x) for l in ls)
                # collections converted element-wise (transmute / map) still have to come from the field
                if not ok:
                    ok = all(any(p.root == ('param', 1) and p.fields[:2] == (f0, x) for p in l.places()) and
                             not any(p.root == ('param', 1) and p.fields[:1] == (f0,) and p.fields[1:2] != (x,)
                                     for p in l.places()) for l in ls) and bool(ls)
                n += 1
                ctx.check(ok, R, b, '%s.%s->self.%s.%s' % (wname, fn, f0, x), repr(e)[:100],
                          'getter `%s` of %s returns %r instead of the field `%s` of the wrapped value' % (
                              fn, wname, e, x))
            else:
                ok = False
                detail = ''
                for i in sorted(b.live_blocks()):
                    for si, s in enumerate(b.blocks[i]['st']):
                        if s['k'] == 'assign' and s['lhs']['l'] == 1 and s['lhs']['p']:
                            names = [p.get('n') if isinstance(p, dict) else p for p in s['lhs']['p'] if p != '*']
                            v = eb._rvalue(s['rv'], (), 0, (i, si))
                            detail = '%s = %r' % ('.'.join(map(str, names)), v)
                            if names[:2] == [f0, x] and v.strip().kind == 'place' and v.strip().root == ('param', 2):
                                ok = True
                            elif names[:1] == [f0]:
                                ok = False
                                break
                if not ok:
                    for c in b.find_calls():
                        if c.name == fn and c.callee.startswith(inner + '::') and len(c.args) == 2:
                            r0 = eb.arg(c, 0).strip()
                            v0 = eb.arg(c, 1).strip()
                            if r0.kind == 'place' and r0.root == ('param', 1) and r0.fields == (f0,) and \
                                    v0.kind == 'place' and v0.root == ('param', 2):
                                ok = True
                                detail = 'delegates to %s' % c.callee
                n += 1
                ctx.check(ok, R, b, '%s.%s->self.%s.%s=' % (wname, fn, f0, x), detail[:100],
                          'setter `%s` of %s performs `%s` instead of assigning its argument to field `%s`' % (
                              fn, wname, detail, x))
    return n


def through_accessors(F, e):
    """`x.inner()` where `inner(&self) -> &T { &self.0 }` is the place `x.0`: trivial accessors of the crate are looked
    through (the binding may reach the wrapped value by field or by accessor)"""
    from lib import E
    for _ in range(4):
        x = e.strip() if e.kind == 'call' and e.name.rsplit('::', 1)[-1] in ('clone', 'deref', 'as_ref', 'borrow') else e
        if x.kind != 'call' or len(x.args) != 1:
            return e
        cbs = F.get(x.name)
        if len(cbs) != 1 or cbs[0].nargs != 1:
            return e
        r = ExprBuilder(cbs[0]).place(0, ()).strip()
        a = x.args[0].strip()
        if r.kind == 'place' and r.root == ('param', 1) and a.kind == 'place':
            e = E('place', root=a.root, fields=tuple(a.fields) + tuple(r.fields))
        else:
            return e
    return e


def inner_calls(F, ub, f0, inner=None):
    """calls (in the method body and its closures) whose receiver is exactly self.<f0>, self, or self.<f0>.store"""
    out = []
    for b in [ub] + all_closures(F, ub):
        eb = ExprBuilder(b)
        for c in b.find_calls():
            if not c.args:
                continue
            r = eb.arg(c, 0)
            rb, rs = resolve_to_root(F, b, r)
            rs = through_accessors(F, rs).strip()
            if rb is not ub or rs.kind != 'place' or rs.root != ('param', 1):
                # the wrapped value handed to a closure as its own parameter by a private helper of the wrapper
                # (`self.unlocked(|tracker| tracker.wasted())`): inside a method of the wrapper the only value of the wrapped
                # type is self.<f0> (no constructor of that type is called in the method)
                if inner and rb is not ub and rb.kind == 'Closure' and rs.kind == 'place' and rs.root[0] == 'param' and \
                        not rs.fields and rs.root[1] < len(rb.locals) and \
                        str(rb.locals[rs.root[1]]).replace('&mut ', '').replace('&', '').strip() == inner and \
                        not any(c2.callee.startswith(inner + '::new') for hb in [ub] + all_closures(F, ub)
                                for c2 in hb.find_calls()):
                    out.append((c, (f0,), b))
                continue
            out.append((c, rs.fields, b))
    return out


def delegation(ctx, R):
    F = ctx.F
    W = wrappers(F)
    G = generated(F)
    n = 0
    for w, lst in sorted(G.items()):
        if w not in W:
            continue
        wname = w.rsplit('::', 1)[-1]
        f0, inner = W[w]['field'], W[w]['inner']
        if wname == 'PyVisualSortOptions':
            continue
        fields = inner_fields(F, inner)
        for kind, fn in lst:
            x = re.sub(r'^(get_|set_)', '', fn)
            if kind != 'method' and x in fields:
                continue        # field getters/setters: R18.1
            if (wname, fn) in EXEMPT or (wname, '*') in EXEMPT:
                continue
            ub = F.one(w + '::' + fn)
            if ub is None:
                continue
            if F.is_new_helper(ub.npath):
                # a binding that does not exist on the reference tree (new API): its Rust counterpart is new as well and
                # is seen spliced into it, so "calls the like-named method" cannot be read off - recorded, not judged
                ctx.note(R, 'new binding %s::%s (not on the reference tree): delegation not judged' % (wname, fn))
                continue
            ctx.read(ub)
            takes_self = ub.nargs >= 1 and wname in ub.locals[1]
            if not takes_self:
                # static constructor: must reach the same-named constructor of the wrapped type (or build the wrapper
                # from it)
                names = [c.callee for b in [ub] + all_closures(F, ub) for c in b.find_calls()]
                accept = ALIAS.get(fn, []) + [fn, x]
                ok = any(c.startswith(inner + '::') and (c.rsplit('::', 1)[-1] in accept or c.rsplit('::', 1)[-1].startswith(
                    fn) or fn.startswith(c.rsplit('::', 1)[-1])) for c in names) or \
                    any(c.startswith(w + '::') and (c.rsplit('::', 1)[-1] in accept + ['new'] or
                                                     c.rsplit('::', 1)[-1].startswith(fn) or
                                                     fn.startswith(c.rsplit('::', 1)[-1])) for c in names)
                n += 1
                ctx.check(ok, R, ub, '%s::%s(static)->%s' % (wname, fn, inner.rsplit('::', 1)[-1]), '',
                          'static binding %s::%s does not call %s::%s (calls: %s)' % (
                              wname, fn, inner.rsplit('::', 1)[-1], fn, sorted(set(
                                  c.rsplit('::', 2)[-2] + '::' + c.rsplit('::', 1)[-1] for c in names if '::' in c))[:6]))
                continue
            accept = set(ALIAS.get(fn, []) + ALIAS.get(x, []) + [fn, x])
            calls = inner_calls(F, ub, f0, inner)
            good = []
            if fn == 'shard_stats':
                # `self.0.get_main_store().shard_stats()`: the live store reached through the tracker's own accessor
                for hb_ in [ub] + all_closures(F, ub):
                    ebh_ = ExprBuilder(hb_)
                    for c_ in hb_.find_calls('shard_stats'):
                        r_ = ebh_.arg(c_, 0)
                        gm = [y for y in r_.walk() if y.kind == 'call' and y.name.rsplit('::', 1)[-1] == 'get_main_store' and y.args]
                        if gm:
                            rb_, rs_ = resolve_to_root(F, hb_, gm[0].args[0])
                            rs_ = through_accessors(F, rs_).strip()
                            if rb_ is ub and rs_.kind == 'place' and rs_.root == ('param', 1) and rs_.fields == (f0,):
                                good.append(c_)
            for c, flds, b in calls:
                nm = c.name
                if nm not in accept:
                    continue
                if flds == (f0,):
                    # receiver is the wrapped value itself; callee belongs to it (inherent, TrackerAPI, std conversion)
                    good.append(c)
                elif flds == () and c.callee.startswith(w + '::'):
                    good.append(c)      # sibling wrapper method (checked on its own)
                elif flds[:2] == (f0, 'store') and nm == 'shard_stats' and len(flds) == 2:
                    good.append(c)      # statistics of the live store
                elif nm == 'index' and flds[:2] == (f0, 'mean'):
                    good.append(c)
            n += 1
            others = sorted(set('%s on self.%s' % (c.name, '.'.join(flds)) for c, flds, b in calls if c not in good and
                                c.name not in ('clone', 'deref', 'as_ref', 'unwrap', 'read', 'write', 'lock', 'expect',
                                               'deref_mut', 'borrow', 'into', 'as_mut')))
            ctx.check(bool(good), R, ub, '%s::%s->%s' % (wname, fn, '|'.join(sorted(accept))), '%d delegate call(s)' % len(good),
                      'binding %s::%s does not delegate to `%s` of the wrapped value with the wrapped value itself as '
                      'receiver (calls found: %s): it is not a projection of the Rust method it is named after' % (
                          wname, fn, '|'.join(sorted(accept)), others[:6]))
            if not good:
                continue
            # every path to the return passes through a delegate call (no cached / short-cut alternative)
            if ub.locals[0] != '()':
                e = ExprBuilder(ub).place(0, ())
                alts = e.args if e.kind == 'phi' else [e]
                bad = []
                for a in alts:
                    has = any(y.kind == 'call' and (y.name.rsplit('::', 1)[-1] in accept or y.name.endswith('with_gil') or
                                                    y.name.endswith('allow_threads')) for y in a.walk())
                    if not has and a.kind != 'unknown':
                        # a value built on a path that has already examined the delegate's result (`None` arm of
                        # `match self.0.m() { Some(x) => .., None => None }`, or the desugared `.map(..)`) is still a
                        # projection of the delegate
                        site_bb = a.site[0] if a.site else None
                        examined = site_bb is not None and any(
                            k.kind == 'discr' and k.expr is not None and any(
                                y.kind == 'call' and y.name.rsplit('::', 1)[-1] in accept for y in k.expr.walk())
                            for k in path_conditions(ub, site_bb))
                        if not examined:
                            bad.append(a)
                if len(bad) == len([a for a in alts if a.kind != 'unknown']):
                    bad = []        # the result is not the delegate's value at all (e.g. a handle created alongside)
                n += 1
                ctx.check(not bad, R, ub, '%s::%s:every-result-comes-from-the-delegate' % (wname, fn), '',
                          'binding %s::%s can return %s without calling the wrapped method (e.g. a cached or '
                          'recomputed value): results can differ from the Rust API' % (wname, fn, [repr(b_)[:80] for b_ in bad]))
            else:
                from lib import count_on_paths
                r = count_on_paths(ub, 0, ub.returns(), [c.bb for c in good if c.body is ub]) if any(
                    c.body is ub for c in good) else (1, 1)
                n += 1
                ctx.check(r is not None and r[0] >= 1, R, ub, '%s::%s:delegate-on-every-path' % (wname, fn), str(r),
                          'binding %s::%s skips the wrapped method on some path' % (wname, fn))
    return n


def options_effects(ctx, R):
    """PyVisualSortOptions::m has the same effect on the options as VisualSortOptions::m"""
    F = ctx.F
    n = 0
    W = 'trackers::visual_sort::options::python::PyVisualSortOptions'
    I = 'trackers::visual_sort::options::VisualSortOptions'

    def effects(b, self_fields_prefix):
        eff = set()
        eb = ExprBuilder(b)
        for i in sorted(b.live_blocks()):
            for si, s in enumerate(b.blocks[i]['st']):
                if s['k'] == 'assign' and s['lhs']['l'] == 1 and s['lhs']['p']:
                    names = [p.get('n') if isinstance(p, dict) else None for p in s['lhs']['p'] if p != '*']
                    names = [x for x in names if x]
                    if names[:len(self_fields_prefix)] == self_fields_prefix and len(names) > len(self_fields_prefix):
                        eff.add('field:' + names[len(self_fields_prefix)])
        for c in b.find_calls():
            if 'VisualMetricBuilder' in c.callee:
                for cb in F.get(c.callee):
                    for i in sorted(cb.live_blocks()):
                        for s in cb.blocks[i]['st']:
                            if s['k'] == 'assign' and s['lhs']['l'] == 1 and s['lhs']['p']:
                                names = [p.get('n') for p in s['lhs']['p'] if isinstance(p, dict) and p.get('n')]
                                if names:
                                    eff.add('builder-field:' + names[-1])
        eff.discard('field:metric_builder')
        return eff
    for kind, fn in generated(F).get(W, []):
        if kind != 'method':
            continue
        pb = F.one(W + '::' + fn)
        rb = F.one(I + '::' + fn)
        if pb is None:
            continue
        n += 1
        if rb is None:
            ctx.fail(R, pb, 'options.%s' % fn, 'the Rust options builder has no method `%s` to project' % fn)
            continue
        ep, er = effects(pb, ['0']), effects(rb, [])
        ctx.check(ep == er and bool(ep), R, pb, 'options.%s:same-effect-as-rust-builder' % fn, str(sorted(ep)),
                  'PyVisualSortOptions::%s has effect %s but VisualSortOptions::%s has effect %s' % (
                      fn, sorted(ep), fn, sorted(er)))
        # the value written comes from the argument
        eb = ExprBuilder(pb)
        ok = False
        for i in sorted(pb.live_blocks()):
            for si, s in enumerate(pb.blocks[i]['st']):
                if s['k'] == 'assign' and s['lhs']['l'] == 1 and s['lhs']['p']:
                    v = eb._rvalue(s['rv'], (), 0, (i, si))
                    ok = ok or any(p.root == ('param', 2) for p in v.places())
        for c in pb.find_calls():
            if 'VisualMetricBuilder' in c.callee and len(c.args) > 1:
                ok = ok or any(p.root == ('param', 2) for p in eb.arg(c, 1).places())
        n += 1
        ctx.check(ok, R, pb, 'options.%s:value-from-argument' % fn, '', 'PyVisualSortOptions::%s does not store its '
                  'argument' % fn)
    return n


def registration(ctx, R):
    F = ctx.F
    n = 0
    mod = ctx.anchor(R, 'python::similari')
    if mod is None:
        return 0
    added = set()
    for c in mod.find_calls('add_class'):
        for g in c.ga:
            added.add(norm(g))
    funcs_added = set()
    for c in mod.find_calls():
        if 'wrap_pyfunction' in c.callee or c.name == 'add_function':
            pass
    e_all = ' '.join(repr(ExprBuilder(mod).arg(c, i)) for c in mod.find_calls('add_function', 'wrap_pyfunction')
                     for i in range(len(c.args)))
    classes = sorted(norm(i['self']) for i in F.impls if i.get('trait') == 'pyo3::PyClass')
    for cl in classes:
        n += 1
        if cl.endswith('PyVotingType'):
            ctx.ok(R, cl, 'pyclass-registered:exempt', 'value-only class (never constructed from Python)')
            continue
        ctx.check(cl in added, R, cl, 'pyclass-registered', 'add_class::<%s>' % cl.rsplit('::', 1)[-1],
                  '#[pyclass] %s is not registered in the #[pymodule] with add_class: it is unreachable from Python' % cl)
    pyfns = sorted(set(b.npath.rsplit('::__pyfunction_', 1)[1] for b in F.fn_bodies()
                       if '::__pyfunction_' in b.npath and b.kind != 'Closure'))
    text = ' '.join(c.callee + ' ' + ' '.join(c.ga) for c in mod.find_calls()) + ' ' + e_all
    wraps = [c for c in mod.find_calls() if 'wrap' in c.callee or 'add_function' in c.callee]
    for fn in pyfns:
        n += 1
        hit = any(fn in repr(ExprBuilder(mod).arg(c, i)) or fn in c.callee for c in mod.find_calls() for i in
                  range(len(c.args))) or ('_PYO3_DEF' in text and fn in text)
        # pyo3 0.23: wrap_pyfunction!(f, m) expands to a reference to f::_PYO3_DEF
        if not hit:
            for i in sorted(mod.live_blocks()):
                for s in mod.blocks[i]['st']:
                    if s['k'] == 'assign' and fn + '::_PYO3_DEF' in str(s['rv']):
                        hit = True
        for c in mod.find_calls('wrap_pyfunction'):
            a = ExprBuilder(mod).arg(c, 1)
            key = a.const.get('s') if a.kind == 'const' else None
            for pb in (F.get(norm(key)) if key else []):
                if any(fn + '::_PYO3_DEF' in str(st.get('rv')) for st in pb.blocks[0]['st']):
                    # and the wrapped function object is handed to add_function
                    hit = True
        ctx.check(hit, R, 'python::similari', 'pyfunction-registered:' + fn, '',
                  '#[pyfunction] %s is not registered in the #[pymodule] with add_function' % fn)
    return n


def layout_related(F, a, b, depth=0):
    """are two type strings layout-related: identical | repr(transparent) newtype | same constructor of related args"""
    a, b = a.strip(), b.strip()
    if a == b:
        return True
    if depth > 6:
        return False
    for x, y in ((a, b), (b, a)):
        ad = F.adts.get(norm(x))
        if ad and ad['transparent'] and len(ad['variants']) == 1 and len(ad['variants'][0]['fields']) >= 1:
            inner = ad['variants'][0]['fields'][0]['ty']
            if layout_related(F, inner, y, depth + 1):
                return True
    # same outer constructor
    ma = re.match(r'^([\w:]+)<(.*)>$', a)
    mb = re.match(r'^([\w:]+)<(.*)>$', b)
    if ma and mb and ma.group(1) == mb.group(1):
        aa, bb_ = split_args(ma.group(2)), split_args(mb.group(2))
        return len(aa) == len(bb_) and all(layout_related(F, p, q, depth + 1) for p, q in zip(aa, bb_))
    if a.startswith('(') and b.startswith('(') and a.endswith(')') and b.endswith(')'):
        aa, bb_ = split_args(a[1:-1]), split_args(b[1:-1])
        return len(aa) == len(bb_) and all(layout_related(F, p, q, depth + 1) for p, q in zip(aa, bb_))
    for pre in ('&mut ', '&', '*const ', '*mut '):
        if a.startswith(pre) and b.startswith(pre):
            return layout_related(F, a[len(pre):], b[len(pre):], depth + 1)
    # lifetimes
    a2, b2 = re.sub(r"<'\w+>", '', a), re.sub(r"<'\w+>", '', b)
    if (a2, b2) != (a, b):
        return layout_related(F, a2, b2, depth + 1)
    return False


def split_args(s):
    out, depth, cur = [], 0, ''
    for ch in s:
        if ch in '<([':
            depth += 1
        elif ch in '>)]':
            depth -= 1
        if ch == ',' and depth == 0:
            out.append(cur.strip())
            cur = ''
        else:
            cur += ch
    if cur.strip():
        out.append(cur.strip())
    return out


def transmutes(ctx, R):
    F = ctx.F
    n = 0
    for b in F.fn_bodies():
        if b.d.get('expn') or '__pymethod' in b.npath or '__pyfunction' in b.npath or b.npath.startswith('examples'):
            continue
        for i in sorted(b.live_blocks()):
            for s in b.blocks[i]['st']:
                if s['k'] == 'assign' and s['rv']['k'] == 'cast' and s['rv']['ck'] == 'Transmute' and not s.get('x'):
                    src, dst = s['rv']['from'], s['rv']['ty']
                    if 'MaybeUninit' in src or 'MaybeUninit' in dst or src.startswith('*') or dst == 'usize':
                        continue        # vec![] / Box allocation plumbing
                    if src.startswith('std::ptr::NonNull<') and dst.startswith(('*const ', '*mut ')) and \
                            src[len('std::ptr::NonNull<'):-1] == dst.split(' ', 1)[1]:
                        continue        # compiler-generated deref of a Box<T> / Box<[T]> (its pointer read as a raw pointer)
                    ctx.read(b)
                    n += 1
                    ctx.check(layout_related(F, src, dst), R, b, 'transmute:%s->%s' % (
                        src.rsplit('::', 1)[-1][:40], dst.rsplit('::', 1)[-1][:40]), '%s -> %s' % (src, dst),
                        'mem::transmute from `%s` to `%s`: the two types are not related by identity, a '
                        'repr(transparent) newtype, or a container of such (layout not guaranteed: a wrapper lost '
                        'repr(transparent) or gained a field)' % (src, dst), s['ln'])
    return n


DOCUMENTED = {
    'PySort': {'shards': 4, 'bbox_history': 1, 'max_idle_epochs': 5, 'min_confidence': 0.05,
               'kalman_position_weight': 1.0 / 20.0, 'kalman_velocity_weight': 1.0 / 160.0, 'method': None,
               'spatio_temporal_constraints': None},
    'PyBatchSort': {'distance_shards': 4, 'voting_shards': 4, 'bbox_history': 1, 'max_idle_epochs': 5,
                    'min_confidence': 0.05, 'kalman_position_weight': 1.0 / 20.0,
                    'kalman_velocity_weight': 1.0 / 160.0, 'method': None, 'spatio_temporal_constraints': None},
    'PyUniversal2DBoxKalmanFilter': {'position_weight': 1.0 / 20.0, 'velocity_weight': 1.0 / 160.0},
    'PyPoint2DKalmanFilter': {'position_weight': 1.0 / 20.0, 'velocity_weight': 1.0 / 160.0},
    'PyVec2DKalmanFilter': {'position_weight': 1.0 / 20.0, 'velocity_weight': 1.0 / 160.0},
}


def num(e):
    """numeric value of a constant expression (const, Div/Mul of consts), None for Option::None, else 'unknown'"""
    if e.kind == 'const':
        try:
            return float(e.const_value())
        except Exception:
            return 'unknown'
    if e.kind == 'bin' and e.name in ('Div', 'Mul', 'Add', 'Sub'):
        a, b = num(e.args[0]), num(e.args[1])
        if isinstance(a, float) and isinstance(b, float):
            return {'Div': a / b if b else 'unknown', 'Mul': a * b, 'Add': a + b, 'Sub': a - b}[e.name]
        return 'unknown'
    if e.kind == 'agg' and e.name.endswith('Option::None'):
        return None
    if e.kind == 'call' and e.args:
        return num(e.args[0])
    return 'unknown'


def defaults(ctx, R):
    F = ctx.F
    n = 0
    found = {}
    for b in F.fn_bodies():
        m = re.match(r'.*::(Py\w+)::__pymethod___new____$', b.npath)
        if not m or b.kind == 'Closure':
            continue
        cls = m.group(1)
        eb = ExprBuilder(b)
        for c in b.find_calls('pyo3::impl_::extract_argument::extract_argument_with_default',
                              'pyo3::impl_::extract_argument::extract_optional_argument'):
            nm, cl = eb.arg(c, 2), eb.arg(c, 3)
            name = (nm.const.get('s') or '').strip('"') if nm.kind == 'const' else repr(nm)
            val = 'unknown'
            if cl.kind == 'agg' and cl.name.startswith('closure:'):
                cb = F.closure_body(cl.name[len('closure:'):])
                if cb is not None:
                    val = num(ExprBuilder(cb).place(0, ()))
            found.setdefault(cls, {})[name] = val
        ctx.read(b)
    for cls, table in DOCUMENTED.items():
        got = found.get(cls)
        if got is None:
            ctx.fail(R, cls, 'constructor-defaults', 'ANCHOR-MISSING: no generated constructor argument extractor for %s' % cls)
            continue
        for p, want in table.items():
            n += 1
            g = got.get(p, 'absent')
            ok = (g is None and want is None) or (isinstance(g, float) and want is not None and abs(g - want) < 1e-9)
            ctx.check(ok, R, cls, 'default:%s.%s' % (cls, p), '%s' % g,
                      'default of %s(%s=...) is %s, documented default is %s' % (cls, p, g, want))
    # PySort == PyBatchSort on shared parameters
    a, b_ = found.get('PySort', {}), found.get('PyBatchSort', {})
    for p in sorted(set(a) & set(b_)):
        n += 1
        ctx.check(a[p] == b_[p], R, 'PySort/PyBatchSort', 'same-default:' + p, str(a[p]),
                  'PySort and PyBatchSort disagree on the default of `%s`: %s vs %s' % (p, a[p], b_[p]))
    # Rust-side counterparts
    for path, want in (('<utils::kalman::kalman_2d_box::Universal2DBoxKalmanFilter as std::default::Default>::default', (0.05, 0.00625)),
                       ('<utils::kalman::kalman_2d_point::Point2DKalmanFilter as std::default::Default>::default', (0.05, 0.00625))):
        db = F.one(path)
        if db is None:
            continue
        eb = ExprBuilder(db)
        cs = [c for c in db.find_calls() if c.name == 'new']
        if cs:
            vals = (num(eb.arg(cs[0], 0)), num(eb.arg(cs[0], 1)))
            n += 1
            ctx.check(all(isinstance(v, float) and abs(v - w) < 1e-9 for v, w in zip(vals, want)), R, db,
                      'rust-default-equals-python-default', str(vals), 'Rust Default %s differs from the Python default '
                      '%s' % (vals, want))
    # a default that is applied in the body of the binding (`method=None` -> Mahalanobis, documented in the Python
    # signature of Sort / BatchSort): the value handed to the Rust constructor when the parameter is None
    import wiring
    from lib import expand_calls
    for b in F.fn_bodies():
        if 'python' not in b.npath or '__py' in b.npath or b.kind == 'Closure':
            continue
        for c in b.find_calls('trackers::sort::simple_api::Sort::new', 'trackers::sort::batch_api::BatchSort::new'):
            cbs = F.get(c.callee)
            if len(cbs) != 1:
                continue
            pn = wiring.param_names(cbs[0])
            ks = [k for k, v in pn.items() if v == 'method']
            if not ks or ks[0] - 1 >= len(c.args):
                continue
            e = ExprBuilder(b).arg(c, ks[0] - 1)
            dflt = []
            for y in e.walk():
                if y.kind == 'call' and y.name.rsplit('::', 1)[-1] in ('unwrap_or', 'unwrap_or_else', 'map_or') and len(y.args) >= 2:
                    dflt.append(expand_calls(F, y.args[1], depth=2))
                if y.kind == 'call' and y.name.rsplit('::', 1)[-1] == 'unwrap_or_default':
                    ty = [x for x in F.fn_bodies() if x.npath.endswith('PyPositionalMetricType as std::default::Default>::default')
                          or x.npath.endswith('PositionalMetricType as std::default::Default>::default')]
                    dflt += [expand_calls(F, ExprBuilder(x).place(0, ()), depth=2) for x in ty] or [y]
                if y.kind == 'phi':
                    dflt += [expand_calls(F, a, depth=2) for a in y.args if not a.places()]
            def unproj(d_):
                # `maha().0`: the projected constructor call, expanded without its projection
                if d_.kind == 'call' and d_.proj:
                    from lib import E as _E
                    return expand_calls(F, _E('call', name=d_.name, args=d_.args, site=d_.site, extra=d_.extra), depth=2)
                return d_
            dflt = [unproj(d_) for d_ in dflt]
            n += 1
            txt = ' | '.join(repr(d) for d in dflt)
            ctx.read(b)
            ctx.check(bool(dflt) and all('Mahalanobis' in repr(d) and 'IoU' not in repr(d) for d in dflt), R, b,
                      'default:%s.method=None->Mahalanobis' % b.npath.rsplit('::', 2)[-2], txt[:100],
                      '%s builds the tracker with %s when `method` is not given; the documented default is the '
                      'Mahalanobis metric' % (b.npath.rsplit('::', 2)[-2] + '::' + b.npath.rsplit('::', 1)[-1],
                                              txt[:200] or 'no visible default'), c.ln)
    cb = F.one('trackers::sort::metric::DEFAULT_MINIMAL_SORT_CONFIDENCE')
    if cb is not None:
        v = num(ExprBuilder(cb).place(0, ()))
        n += 1
        ctx.check(isinstance(v, float) and abs(v - 0.05) < 1e-9, R, cb, 'DEFAULT_MINIMAL_SORT_CONFIDENCE==python-default',
                  str(v), 'DEFAULT_MINIMAL_SORT_CONFIDENCE (%s) differs from the Python default min_confidence 0.05' % v)
    return n


# which Rust routine(s) a free #[pyfunction] is the projection of (one line of reason each)
FREE_DELEGATES = {
    # Python `intersection_area(subject, clipping)` is documented as the area of sutherland_hodgman_clip(subject, clipping)
    'intersection_area_py': ('sutherland_hodgman_clip', 'unsigned_area'),
    'sutherland_hodgman_clip_py': ('sutherland_hodgman_clip',),   # same name minus the _py suffix
    'nms_py': ('nms',),                                           # same name minus the _py suffix
    'parallel_nms_py': ('nms',),
}


def free_functions(ctx, R):
    """R18.7 free #[pyfunction]s hand their parameters to the Rust function they project, in order, through
    value-preserving conversions only (newtype field `.0`, transmute / into / clone / as_ref, or a map whose closure
    only re-packs projections of its element) — no value is computed or defaulted in the binding."""
    from lib import subst_upvars, closure_args_of_call
    F = ctx.F
    n = 0
    pyf = sorted(set(b.npath.rsplit('::__pyfunction_', 1)[1] for b in F.fn_bodies()
                     if '::__pyfunction_' in b.npath and b.kind != 'Closure'))
    TRANSP = ('clone', 'into', 'from', 'as_ref', 'deref', 'as_slice', 'to_vec', 'to_owned', 'borrow', 'as_mut',
              'deref_mut', 'unwrap', 'collect', 'into_iter', 'iter', 'cloned', 'copied')

    def projection(e, owner):
        """param index when e is a value-preserving projection of exactly one parameter, else None"""
        x = e
        while True:
            if x.kind == 'cast' and x.args:
                x = x.args[0]
            elif x.kind == 'call' and x.name.rsplit('::', 1)[-1] in TRANSP and x.args:
                x = x.args[0]
            elif x.kind == 'call' and x.name.rsplit('::', 1)[-1] == 'map' and len(x.args) == 2:
                # the mapping closure only re-packs projections of its element
                clo = x.args[1]
                ok = False
                if clo.kind == 'agg' and clo.name.startswith('closure:'):
                    for cb in F.get(clo.name.split(':', 1)[1]):
                        r = ExprBuilder(cb).place(0, ())
                        leaves_ok = all(y.kind in ('place', 'agg', 'cast') or
                                        (y.kind == 'call' and y.name.rsplit('::', 1)[-1] in TRANSP)
                                        for y in r.walk())
                        ok = leaves_ok and all(pl.root == ('param', 2) for pl in r.places())
                if not ok:
                    return None
                x = x.args[0]
            else:
                break
        if x.kind == 'place' and x.root[0] == 'param' and all(f.isdigit() or f in ('0',) for f in x.fields):
            return x.root[1]
        return None
    for fn in pyf:
        bs = [b for b in F.fn_bodies() if b.npath.endswith('::' + fn) and b.kind != 'Closure']
        for b in bs:
            if b.nargs == 0:
                continue
            ctx.read(b)
            delegates = []
            for ob in [b] + all_closures(F, b):
                eb = ExprBuilder(ob)
                for c in ob.find_calls():
                    if not F.get(c.callee) or c.callee.startswith('<') or 'pyo3' in c.callee:
                        continue
                    args = [subst_upvars(F, ob, eb.arg(c, i)) for i in range(len(c.args))]
                    delegates.append((c, args))
            n += 1
            ctx.check(len(delegates) >= 1, R, b, fn + ':delegates', '%d call(s) into the crate' % len(delegates),
                      '#[pyfunction] %s does not call any function of the crate' % fn)
            # every answer of the binding comes out of the Rust routine (P13): a result the binding builds itself on some
            # path (a 'nothing to do for fewer than two boxes' fast path) applies other rules than the Rust API does
            from lib import backward_locals
            carrier, ccalls = set(), []
            for c_ in b.find_calls():
                if c_.dest is not None and (c_.name in ('with_gil', 'allow_threads') or any(c_ is d_[0] for d_ in delegates)):
                    ccalls.append(c_)
                    if c_.dest['l'] != 0:
                        carrier.add(c_.dest['l'])
            if ccalls and delegates:
                for d_ in b.defs().get(0, []):
                    if d_[1] not in b.live_blocks():
                        continue
                    if d_[0] == 'call' and any(d_[2] is c_ for c_ in ccalls):
                        derived = True
                    else:
                        derived = bool(backward_locals(b, [d_]) & carrier)
                    n += 1
                    ctx.check(derived, R, b, fn + ':every-answer-comes-from-the-rust-routine', 'bb%d' % d_[1],
                              '#[pyfunction] %s has a result (bb%d) that does not come out of the Rust routine it projects: on that '
                              'path the binding answers by its own rules (e.g. a fast path that skips the validity filter of '
                              'the Rust function)' % (fn, d_[1]), d_[3].get('ln', '') if d_[0] == 'assign' else d_[2].ln)
            want = FREE_DELEGATES.get(fn)
            if want:
                names = {c.name for c, _ in delegates} | {c.name for ob in [b] + all_closures(F, b) for c in ob.find_calls()}
                n += 1
                ctx.check(all(any(x in (w, w + '_py') for x in names) for w in want), R, b,
                          fn + ':projects->' + '+'.join(want), str(sorted(names))[:100],
                          '#[pyfunction] %s no longer goes through %s (it calls %s): it answers with another routine than '
                          'the Rust API it is the projection of' % (fn, ' and '.join(want), sorted(names)))
            for c, args in delegates[:1]:
                got = [projection(a, b) for a in args]
                n += 1
                ctx.check(got == list(range(1, len(args) + 1)) and len(args) == b.nargs, R, b,
                          fn + ':arguments-forwarded-unchanged->' + c.name, str(got),
                          '#[pyfunction] %s calls %s with %s: every argument must be the like-positioned parameter '
                          'through value-preserving conversions only (a value computed, defaulted or reordered in the '
                          'binding makes Python and Rust disagree)' % (fn, c.callee, [repr(a)[:80] for a in args]), c.ln)
    return n


TRACKER_CTORS = ('trackers::sort::simple_api::Sort::new', 'trackers::sort::batch_api::BatchSort::new',
                 'trackers::visual_sort::simple_api::VisualSort::new', 'trackers::visual_sort::batch_api::BatchVisualSort::new')
CTOR_CONV = ('try_into', 'try_from', 'expect', 'unwrap', 'into', 'from', 'clone', 'unwrap_or', 'unwrap_or_default', 'as_ref',
             'deref', 'to_owned', 'maha', 'iou', 'default', 'map', 'cloned', 'copied', 'unwrap_or_else')


def tracker_constructors(ctx, R):
    """R18.9 the Python constructors of the four trackers hand every argument to the Rust constructor as the caller gave it:
    the like-positioned parameter through conversions only (integer width, newtype field, the documented default of a
    missing option). A value adjusted in the binding (a shard count capped to the number of cores) makes `Sort(shards=N)`
    another tracker than `Sort::new(N, ..)` - shard statistics, shard placement."""
    F = ctx.F
    n = 0
    for tgt in TRACKER_CTORS:
        for b in F.fn_bodies():
            if '::python::' not in b.npath or '__pymethod' in b.npath or b.kind == 'Closure':
                continue
            for c in b.find_calls(tgt):
                eb = ExprBuilder(b)
                ctx.read(b)
                for i in range(len(c.args)):
                    e = eb.arg(c, i)
                    calls = [y.name.rsplit('::', 1)[-1] for y in e.walk() if y.kind == 'call']
                    bad = [x for x in calls if x not in CTOR_CONV]
                    roots_ = {p_.root for p_ in e.places() if p_.root[0] == 'param'}
                    n += 1
                    ctx.check(not bad and roots_ == {('param', i + 1)} and not any(y.kind in ('bin', 'un') for y in e.walk()), R, b,
                              'ctor-argument-%d-forwarded-unchanged->%s' % (i, tgt.rsplit('::', 2)[-2]), repr(e)[:80],
                              'the Python constructor %s passes %r as argument %d of %s: expected parameter %d through conversions '
                              'only (adjusted through %s)' % (b.npath.rsplit('::', 2)[-2], e, i, tgt, i + 1,
                                                              bad or 'arithmetic / another parameter'), c.ln)
    return n


def run(ctx):
    _wiring(ctx)
    ctx.rule('R18.9', 'the Python constructors of the four trackers forward every argument unchanged to the Rust constructor')
    ctx.floor('R18.9', tracker_constructors(ctx, 'R18.9'), 22)
    import metriclib
    ctx.rule('R18.10', 'the wasted-track records the Python wrappers expose carry the whole kept history in order (conversion '
                       'Track -> WastedSortTrack / WastedVisualSortTrack copies the deques front to back; clause R13.4 of C13)')
    ctx.floor('R18.10', metriclib.rule_wasted_conversions(ctx, 'R18.10'), 17)
    ctx.rule('R18.1', 'getters / setters return / assign the field they name')
    ctx.floor('R18.1', getters(ctx, 'R18.1'), 47)
    ctx.rule('R18.2', 'delegation: same-named (aliased) method of the wrapped value, wrapped value as receiver')
    n = delegation(ctx, 'R18.2')
    n += options_effects(ctx, 'R18.2')
    ctx.floor('R18.2', n, 90)
    ctx.rule('R18.3', 'every pyclass / pyfunction is registered in the pymodule')
    ctx.floor('R18.3', registration(ctx, 'R18.3'), 25)
    ctx.rule('R18.4', 'transmutes relate layout-compatible types')
    ctx.floor('R18.4', transmutes(ctx, 'R18.4'), 10)
    ctx.rule('R18.7', 'free #[pyfunction]s forward their parameters unchanged, in order, to the Rust function')
    ctx.floor('R18.7', free_functions(ctx, 'R18.7'), 6)
    import misclib
    ctx.rule('R18.8', 'the Rust conversion the bindings project is one rule: KalmanState -> BoundingBox composes the two steps '
                      'the Python bbox() takes')
    ctx.floor('R18.8', misclib.rule_state_to_ltwh_delegates(ctx, 'R18.8'), 1)
    ctx.rule('R18.5', 'default arguments equal the documented table and their Rust counterparts')
    ctx.floor('R18.5', defaults(ctx, 'R18.5'), 30)


def _wiring(ctx):
    """name-agreement wiring of the configuration values this property depends on (rules/wiring.py)"""
    import wiring
    ctx.rule('R18.6', 'configuration plumbing: same-named fields / parameters / setters / call arguments are not crossed')
    ctx.floor('R18.6', wiring.run(ctx, 'R18.6', {'xc', 'yc', 'angle', 'aspect', 'height', 'confidence', 'left', 'top', 'width', 'shards', 'history_length', 'max_idle_epochs', 'method', 'min_confidence', 'position_weight', 'velocity_weight', 'scene_id', 'custom_object_id'}), 150)
