"""C06 — batch trackers refine simple trackers; one result per scene; no deadlock (protocol, locks, sibling skeleton)."""
import collections
import locklib
import metriclib as M
import trackerlib as T
from lib import (Cond, ExprBuilder, all_closures, as_cmp, closure_args_of_call, count_on_paths, orient,
                 path_conditions, result_assignments)

EXPLANATION = (
    "Decided on MIR: (R06.1) monitor protocol - BatchX::predict waits on the previous batch's monitor with a "
    "re-checked predicate `count > 0` before it advances any epoch, computes distances or submits jobs; the new "
    "monitor is initialised from batch_request.batch_size() (= number of scenes, maintained by add()); exactly one "
    "job is sent per scene of the batch; each voting job sends exactly one result and performs exactly one decrement "
    "of the monitor under its mutex followed by a notify on the same condvar; Exit leaves the loop; Drop sends Exit to "
    "every voting thread before joining it; (R06.2) lock/blocking discipline - guard-liveness dataflow with "
    "interprocedural may-acquire/may-block summaries: the held->acquired lock graph over {store, wasted_store, shard, "
    "epoch_db, track_id, monitor, batch_size} is acyclic, no shard mutex is held while waiting for a store worker, no "
    "store/shard/track_id lock is held while waiting for voting threads (wait_while, join), and no lock at all is held "
    "while a voting thread blocks on the bounded result channel; (R06.3) simple <-> batch sibling agreement - the "
    "multiset of semantic operations with their constant arguments (candidate construction, distance query, voting "
    "constructor arguments, decision skeleton set_track_id/add_track | [add_observation(VotingType)] "
    "merge_external(.., [0], false), record constructor) is equal between Sort::predict_with_scene and "
    "BatchSort::predict + its voting thread, and between the VisualSORT pair, modulo an explicit difference table; "
    "own-area shares are computed and indexed identically in both front ends."
    ' (R06.7) channels that carry commands to store workers / voting threads are unbounded (submission never blocks while results are read afterwards by the submitting thread); (R06.8) one entry - hence one job and one epoch step - per scene id of a batch.'
    ' (R06.9) both front ends reach the same assignment and the same shards whatever the store holds: winners come from the one maximising assignment (no size-dependent shortcut) and shards / workers are selected by id % n.')
NOT_DECIDED = ["equivalence of outputs under all schedules as an input-output statement",
               "liveness when the consumer never retrieves results (excluded by the property's proviso)"]
ASSUMPTIONS = ["std Mutex/RwLock/Condvar and crossbeam channels behave as documented", "panics (lock poisoning) out of scope",
               "rustc nightly MIR construction"]

SEND = 'crossbeam::crossbeam_channel::Sender::send'


def run(ctx):
    ctx.rule('R06.1', 'monitor protocol of the batch trackers')
    ctx.floor('R06.1', protocol(ctx, 'R06.1'), 22)
    ctx.rule('R06.2', 'lock order acyclic; nothing forbidden held while blocking')
    ctx.floor('R06.2', locks(ctx, 'R06.2'), 20)
    ctx.rule('R06.3', 'simple <-> batch sibling agreement')
    ctx.floor('R06.3', sibling(ctx, 'R06.3'), 6)
    # fresh ids under concurrency: a duplicate id makes add_track fail inside a voting thread (no result, poisoned
    # store lock), so the id-counter discipline is a necessary condition of "one result per scene, no deadlock"
    from props import C01
    C01.r3(ctx, 'R06.4')
    C01.shared_counter(ctx, 'R06.4')
    import wiring
    ctx.rule('R06.5', 'both front ends configure the shared components identically (constructor plumbing)')
    ctx.floor('R06.5', wiring.run(ctx, 'R06.5', {'max_idle_epochs', 'history_length', 'position_weight',
                                                 'velocity_weight', 'spatio_temporal_constraints', 'method',
                                                 'min_confidence', 'shards'}), 60)
    ctx.rule('R06.4', 'shared id counter: increment and read under one write access (necessary for one result per scene)')
    import storelib as S
    ctx.rule('R06.6', 'both front ends see the complete distance stream (lazy into_iter() consumer of the batch path '
             'included) and size the assignment by the tracks stored at voting time')
    n = S.rule_consumers(ctx, 'R06.6')
    n += M.rule_voting_threshold(ctx, 'R06.6')
    ctx.floor('R06.6', n, 8)
    import locklib
    ctx.rule('R06.7', 'submitting never blocks: channels that carry commands to store workers / voting threads are unbounded')
    ctx.floor('R06.7', locklib.rule_command_channels(ctx, 'R06.7'), 3)
    import votinglib as V_
    ctx.rule('R06.9', 'both front ends reach the same assignment and the same shards whatever the store holds: winners from '
                      'the one maximising assignment (no size-dependent shortcut), shards and workers selected by id % n')
    n = V_.rule_hungarian(ctx, 'R06.9')
    n += S.rule_shard_index(ctx, 'R06.9')
    ctx.floor('R06.9', n, 8)
    import trackerlib as T_
    ctx.rule('R06.8', 'one job per scene of a batch: the request keeps one entry per scene id (entries selected by id)')
    ctx.floor('R06.8', T_.rule_batch_request(ctx, 'R06.8'), 2)


def sent_agg(body, eb, c, suffix):
    v = eb.arg(c, 1)
    for x in v.walk():
        if x.kind == 'agg' and x.name.endswith(suffix):
            return x
    return None


def protocol(ctx, R):
    F = ctx.F
    n = 0
    for tname, t in T.TRACKERS.items():
        if not t['batch']:
            continue
        pb = ctx.anchor(R, t['predict'])
        vt = ctx.anchor(R, t['loop'])
        if pb is None or vt is None:
            continue
        eb = ExprBuilder(pb)
        # the field of the tracker that holds the batch monitor: the one predict stores a fresh Mutex into (private
        # field: its name is discovered, not assumed)
        MON = set()
        for i_ in sorted(pb.live_blocks()):
            for si_, s_ in enumerate(pb.blocks[i_]['st']):
                if s_['k'] == 'assign' and s_['lhs']['l'] == 1 and s_['lhs']['p'] and \
                        isinstance(s_['lhs']['p'][-1], dict) and s_['lhs']['p'][-1].get('n'):
                    v_ = eb._rvalue(s_['rv'], (), 0, (i_, si_))
                    if any(x.kind == 'call' and x.name == 'std::sync::Mutex::new' for x in v_.walk()):
                        MON.add(s_['lhs']['p'][-1]['n'])
        if not MON:
            ctx.fail(R, pb, tname + ':monitor=batch_size()', 'ANCHOR-MISSING: predict does not store a new batch '
                     'monitor (a Mutex-protected count) in the tracker')
            continue

        def is_mon(e, MON=MON):
            return any(e.has_field(m_) for m_ in MON)
        # ---- wait on the previous monitor
        ww = pb.find_calls('std::sync::Condvar::wait_while')
        plain = pb.find_calls('std::sync::Condvar::wait')
        waits = ww + plain
        n += 1
        ok = False
        detail = ''
        if ww:
            for c in ww:
                for cb in closure_args_of_call(F, pb, c):
                    e = ExprBuilder(cb).place(0, ())
                    cm = as_cmp(e, True)
                    detail = repr(e)
                    if cm and ((cm[0] == 'Gt' and cm[2].const_value() == '0') or (cm[0] == 'Ne' and cm[2].const_value() == '0')):
                        ok = True
        elif plain:
            # accepted only as a re-checking loop: while *guard > 0 { guard = cvar.wait(guard) }
            for c in plain:
                detail = 'Condvar::wait at %s' % c.ln
                for h, blks in pb.loops().items():
                    if c.bb in blks:
                        for k in path_conditions(pb, c.bb, h):
                            cm = k.cmp()
                            if cm and cm[0] in ('Gt', 'Ne') and cm[2].const_value() == '0':
                                ok = True
        ctx.check(ok, R, pb, tname + ':waits-until-previous-batch-count-is-zero', detail,
                  'predict does not wait on the previous batch monitor with a re-checked predicate `count > 0` (%s): '
                  'a single wake-up after the first finished scene lets the next batch start while voting threads of '
                  'the previous one are still running' % (detail or 'no wait on the monitor'),
                  waits[0].ln if waits else '')
        # the wait dominates epoch advance / distance query / job submission
        ne = pb.find_calls(T.EPOCH + '::next_epoch')
        ftd = pb.find_calls('track::store::TrackStore::foreign_track_distances')
        jobs = [c for c in pb.find_calls(SEND) if sent_agg(pb, eb, c, 'VotingCommands::Distances') is not None]
        # `if let Some(m) = &self.monitor { wait }`: the join point after the optional wait dominates the work
        n += 1
        okd = bool(waits) and bool(ne) and bool(ftd) and bool(jobs)
        if okd:
            w = waits[0]
            wbb = w.bb
            if not ww:
                # re-checking loop form: the loop header (where the predicate is evaluated) is the mandatory point
                hs = [h for h, blks in pb.loops().items() if w.bb in blks]
                if hs:
                    wbb = min(hs, key=lambda h: len(pb.loops()[h]))
            for c in ne + ftd + jobs:
                # every path to c either passes the wait or goes through the `monitor is None` edge
                conds_none = False
                from lib import every_path_passes
                if not every_path_passes(pb, 0, c.bb, [wbb]):
                    # allowed only if the bypass is exactly the `self.monitor is None` branch
                    byp = [k for k in path_conditions(pb, wbb) if k.kind == 'discr' and k.variants == {'Some'} and
                           is_mon(k.expr)]
                    others = [k for k in path_conditions(pb, wbb) if not (k.kind == 'discr' and k.variants == {'Some'}
                                                                          and is_mon(k.expr))]
                    okd = okd and bool(byp) and not others
        ctx.check(okd, R, pb, tname + ':wait-precedes-epoch/distances/jobs', '',
                  'epoch advance, distance queries or job submission can happen before the previous batch was waited '
                  'for (or the wait is skipped under a condition other than "no previous batch")')
        # ---- new monitor initialised from batch_size()
        n += 1
        okm = False
        detail = ''
        for i in sorted(pb.live_blocks()):
            for si, s in enumerate(pb.blocks[i]['st']):
                if s['k'] == 'assign' and s['lhs']['p'] and isinstance(s['lhs']['p'][-1], dict) and \
                        s['lhs']['p'][-1].get('n') in MON and s['lhs']['l'] == 1:
                    v = eb._rvalue(s['rv'], (), 0, (i, si))
                    detail = repr(v)[:140]
                    mn = [x for x in v.walk() if x.kind == 'call' and x.name == 'std::sync::Mutex::new']
                    okm = bool(mn) and mn[0].args[0].strip().kind == 'call' and mn[0].args[0].strip().name.endswith(
                        'PredictionBatchRequest::batch_size')
        ctx.check(okm, R, pb, tname + ':monitor=batch_size()', detail,
                  'the busy monitor of a batch is not initialised with batch_request.batch_size(): %s' % detail)
        # ---- one job per scene iteration
        n += 1
        okj = len(jobs) == 1
        detail = '%d job send sites' % len(jobs)
        if okj:
            c = jobs[0]
            hs = [h for h, blks in pb.loops().items() if c.bb in blks]
            okj = len(hs) == 1
            if okj:
                h = hs[0]
                nx = [x for x in pb.find_calls('std::iter::Iterator::next') if x.bb in pb.loops()[h] and eb.arg(x, 0).has_call('get_batch')]
                okj = bool(nx)
                if okj:
                    start = None
                    tb = pb.blocks[nx[0].target]['t']
                    if tb['k'] == 'switch':
                        for tg in set(tg for _, tg in pb.switch_edges(nx[0].target)):
                            if tg in pb.diverging():
                                continue
                            k = Cond(pb, nx[0].target, tg)
                            if k.kind == 'discr' and k.variants == {'Some'}:
                                start = tg
                    r = count_on_paths(pb, start, [nx[0].bb], [c.bb]) if start is not None else None
                    detail = 'per scene %s' % (r,)
                    okj = r == (1, 1)
        ctx.check(okj, R, pb, tname + ':one-job-per-scene', detail,
                  'predict does not submit exactly one voting job per scene of the batch (%s): the monitor count and '
                  'the number of results no longer match the number of scenes' % detail)
        # job payload: monitor = the new monitor, channel = request sender, tracks = candidates of this scene
        if jobs:
            a = sent_agg(pb, eb, jobs[0], 'VotingCommands::Distances')
            # the payload values, however the job is packaged (struct variant, tuple variant around a job struct):
            # recognised by what they are, not by the names of the (private) fields that carry them
            leaves = []

            def flat_payload(x, depth=0):
                x2 = x.strip() if x.kind == 'call' and not x.proj else x
                if x2.kind == 'agg' and not x2.proj and depth < 3 and isinstance(x2.extra, dict) and \
                        x2.extra.get('ak') in ('adt', 'tuple') and not x2.name.startswith('std::'):
                    for y in x2.args:
                        flat_payload(y, depth + 1)
                else:
                    leaves.append(x)
            for y in a.args:
                flat_payload(y)
            n += 1
            # "this batch's monitor": self.monitor as set by this call, or the very Arc that this call stores there
            stored = []
            for i_ in sorted(pb.live_blocks()):
                for si_, s_ in enumerate(pb.blocks[i_]['st']):
                    if s_['k'] == 'assign' and s_['lhs']['l'] == 1 and any(
                            isinstance(p_, dict) and p_.get('n') in MON for p_ in s_['lhs']['p']):
                        re_ = eb._rvalue(s_['rv'], (), 0, (i_, si_))
                        stored += [x.extra for x in re_.walk() if x.kind == 'call' and x.name.endswith('Arc::new')]
            mon_ok = any(is_mon(l_) or any(
                x.kind == 'call' and x.name.endswith('Arc::new') and any(x.extra is y for y in stored)
                for x in l_.walk()) for l_ in leaves)
            okp = mon_ok and any(l_.has_call('get_sender') for l_ in leaves) and \
                any(l_.has_call('foreign_track_distances') for l_ in leaves) and \
                any(l_.has_call('collect') for l_ in leaves)
            ctx.check(okp, R, pb, tname + ':job-payload', '', 'the voting job does not carry (this batch\'s monitor, '
                      'the request\'s result sender, the distances of this scene, the candidates of this scene)')
            # round-robin over existing threads
            recv = eb.arg(jobs[0], 0)
            n += 1
            okr = any(x.kind == 'bin' and x.name == 'Rem' and x.args[1].has_call('len') and x.args[1].has_field('voting_threads')
                      for x in recv.walk())
            ctx.check(okr, R, pb, tname + ':job-goes-to-an-existing-voting-thread', '', 'the voting thread is not '
                      'selected as index % voting_threads.len()')
        # ---- voting thread
        ebv = ExprBuilder(vt)
        arms = {}
        for x in sorted(vt.live_blocks()):
            tt = vt.blocks[x]['t']
            if tt['k'] != 'switch':
                continue
            for tg in set(tg for _, tg in vt.switch_edges(x)):
                if tg in vt.diverging():
                    continue
                k = Cond(vt, x, tg)
                if k.kind == 'discr' and 'VotingCommands' in getattr(k, 'enum_ty', '') and len(k.variants) == 1:
                    arms[list(k.variants)[0]] = tg
        recvs = vt.find_calls('crossbeam::crossbeam_channel::Receiver::recv')
        n += 1
        if 'Distances' not in arms or not recvs:
            ctx.fail(R, vt, tname + ':voting-thread-dispatch', 'ANCHOR-MISSING: voting thread no longer dispatches on '
                     'VotingCommands::Distances after a recv')
            continue
        ctx.ok(R, vt, tname + ':voting-thread-dispatch', 'arms: %s' % sorted(arms))
        ends = [c.bb for c in recvs] + vt.returns()
        res_sends = [c for c in vt.find_calls(SEND) if 'SortTrack' in ' '.join(c.ga) or (
            ebv.arg(c, 1).kind == 'agg' and ebv.arg(c, 1).name == 'tuple')]
        r = count_on_paths(vt, arms['Distances'], ends, [c.bb for c in res_sends])
        n += 1
        ctx.check(r == (1, 1), R, vt, tname + ':one-result-per-job', str(r),
                  'a voting job sends %s results (expected exactly one per scene)' % (r,))
        # decrement under the monitor mutex, followed by notify
        decs = []
        for i in sorted(vt.live_blocks()):
            for si, s in enumerate(vt.blocks[i]['st']):
                if s['k'] == 'assign' and s['lhs']['p'] == ['*'] and vt.locals[s['lhs']['l']] == '&mut usize':
                    tgt = ebv.place(s['lhs']['l'], (), 0, (i, si))
                    val = ebv._rvalue(s['rv'], (), 0, (i, si))
                    # the count of the monitor that came with the job (the only Mutex<usize> a job carries)
                    if tgt.has_call('lock') and tgt.has_call('recv'):
                        decs.append((i, val, s['ln']))
        r = count_on_paths(vt, arms['Distances'], ends, [d[0] for d in decs])
        n += 1
        okdec = r == (1, 1) and len(decs) == 1 and decs[0][1].kind == 'bin' and decs[0][1].name == 'Sub' and \
            decs[0][1].args[1].const_value() == '1'
        ctx.check(okdec, R, vt, tname + ':one-decrement-per-job', '%s %s' % (r, [repr(d[1]) for d in decs]),
                  'a voting job decrements the batch monitor %s times by %s (expected exactly once by 1): predict of '
                  'the next batch waits forever or starts too early' % (r, [repr(d[1]) for d in decs]))
        notes = vt.find_calls('std::sync::Condvar::notify_one', 'std::sync::Condvar::notify_all')
        n += 1
        okn = bool(decs) and bool(notes) and any(vt.postdominates(c.bb, decs[0][0]) or count_on_paths(
            vt, decs[0][0], ends, [c.bb]) == (1, 1) for c in notes)
        if okn:
            okn = any(ebv.arg(c, 0).has_call('recv') for c in notes)
        ctx.check(okn, R, vt, tname + ':decrement-followed-by-notify', '',
                  'the decrement of the batch monitor is not followed by a notify on the monitor\'s condvar on every '
                  'path: a waiting predict is never woken')
        # the result is sent before the monitor is released
        if res_sends and decs:
            n += 1
            ctx.check(vt.dominates(res_sends[0].bb, decs[0][0]), R, vt, tname + ':result-sent-before-decrement', '',
                      'the monitor is decremented before the scene result is sent')
        # Exit leaves the loop
        if 'Exit' in arms:
            n += 1
            back = any(rb in vt.reach_from(arms['Exit']) for rb in [c.bb for c in recvs])
            ctx.check(not back, R, vt, tname + ':exit-leaves-the-loop', '', 'VotingCommands::Exit does not terminate '
                      'the voting thread')
        # Drop: Exit to every thread, then join
        db = ctx.anchor(R, '<%s as std::ops::Drop>::drop' % t['ty'])
        if db is not None:
            ebd = ExprBuilder(db)
            from lib import effective_sites, iteration_context
            ex = [(s_, c, o) for s_, c, o in effective_sites(F, db, SEND)
                  if sent_agg(o, ExprBuilder(o), c, 'VotingCommands::Exit') is not None]
            jn = effective_sites(F, db, 'std::thread::JoinHandle::join')
            n += 1
            okx = len(ex) == 1 and len(jn) == 1 and ex[0][2] is jn[0][2] and \
                ex[0][2].dominates(ex[0][1].bb, jn[0][1].bb)
            if okx:
                # both happen once per voting thread: inside the same loop, or in the closure run per thread
                o = ex[0][2]
                if o is db:
                    hs_e = [h for h, blks in db.loops().items() if ex[0][1].bb in blks]
                    hs_j = [h for h, blks in db.loops().items() if jn[0][1].bb in blks]
                    okx = bool(hs_e) and hs_e == hs_j
                else:
                    okx = bool(iteration_context(F, db, o, ex[0][1].bb))
            ctx.check(okx, R, db, tname + ':drop-sends-exit-then-joins-each-thread', '',
                      'Drop does not send Exit to every voting thread before joining it: shutdown can block forever')
    # batch_size bookkeeping
    ab = ctx.anchor(R, 'trackers::batch::PredictionBatchRequest::add')
    if ab is not None:
        eb = ExprBuilder(ab)
        okb = False
        for i in sorted(ab.live_blocks()):
            for si, s in enumerate(ab.blocks[i]['st']):
                if s['k'] == 'assign' and s['lhs']['p'] == ['*'] and ab.locals[s['lhs']['l']] == '&mut usize':
                    v = eb._rvalue(s['rv'], (), 0, (i, si))
                    okb = v.has_call('len') and v.has_field('batch')
        n += 1
        ctx.check(okb, R, ab, 'request:batch_size=number-of-scenes', '', 'PredictionBatchRequest::add does not keep '
                  'batch_size equal to the number of scenes in the batch')
    return n


def locks(ctx, R):
    F = ctx.F
    LA = locklib.LockAnalysis(F)
    edges, viol = [], []
    bodies = 0
    n = 0
    for b in F.fn_bodies():
        if b.npath.startswith('examples') or b.npath.startswith('<examples') or b.d.get('expn'):
            continue
        bodies += 1
        e, v = LA.check_body(b)
        edges += e
        viol += v
        if e or v:
            ctx.read(b)
    pairs = collections.Counter((h, a) for h, a, ln, p in edges)
    for (h, a), k in sorted(pairs.items()):
        n += 1
        if h == a:
            sites = [(ln, p) for hh, aa, ln, p in edges if (hh, aa) == (h, a)]
            ctx.fail(R, sites[0][1], 'reacquire:%s' % h, 'lock class `%s` is acquired while it is already held (%d '
                     'sites): self-deadlock / reader-writer deadlock' % (h, k), sites[0][0])
        else:
            ctx.ok(R, '<crate>', 'order:%s->%s' % (h, a), '%d site(s)' % k)
    cyc = locklib.find_cycle(edges)
    n += 1
    ctx.check(cyc is None, R, '<crate>', 'lock-order-acyclic', 'held->acquired graph: %s' % sorted(pairs),
              'the held->acquired lock graph has a cycle %s: two threads taking the locks in opposite order deadlock' %
              (cyc,))
    for kind, held, callee, ln, path in viol:
        n += 1
        ctx.fail(R, path, 'held-while-blocking:%s:%s' % (kind, '+'.join(held)),
                 'lock(s) %s are held while the thread blocks on %s (%s): the party waited for needs them (or the '
                 'bounded result channel blocks the voting thread while it holds them)' % (held, callee, {
                     'worker': 'a store worker', 'voter': 'voting threads', 'consumer': 'the result consumer'}.get(
                         kind, kind)), ln)
    # blocking sites examined
    for tname, t in T.TRACKERS.items():
        for key in ('predict', 'loop'):
            b = ctx.anchor(R, t[key])
            if b is None:
                continue
            alive = LA.alive_at_calls(b)
            for c in b.find_calls():
                k = locklib.blocking_kind(b, c)
                acq, blk = set(), set()
                from lib import local_callee_bodies
                for cb in local_callee_bodies(F, c):
                    a2, b2 = LA.summary(cb)
                    blk |= b2
                if k or blk:
                    held = {LA.guard_class(b, l) for l in alive.get(c.bb, set())}
                    n += 1
                    ctx.ok(R, b, '%s:blocking-site:%s@%s' % (tname, c.name, c.ln.rsplit(':', 1)[-1]),
                           'may wait for %s while holding %s' % (sorted(blk | ({k} if k else set())), sorted(held) or 'nothing'))
    ctx.note(R, 'bodies analysed for lock discipline: %d' % bodies)
    return n


VOCAB = {
    'track::store::TrackStore::new_track', 'track::builder::ObservationBuilder::new',
    'track::builder::ObservationBuilder::observation_attributes', 'track::builder::ObservationBuilder::observation',
    'track::builder::ObservationBuilder::track_attributes_update', 'track::builder::ObservationBuilder::build',
    'track::builder::TrackBuilder::observation', 'track::builder::TrackBuilder::build',
    'trackers::sort::SortAttributesUpdate::new_with_scene',
    'trackers::visual_sort::track_attributes::VisualAttributesUpdate::new_init_with_scene',
    'trackers::visual_sort::track_attributes::VisualAttributesUpdate::new_voting_type',
    'track::store::TrackStore::foreign_track_distances', 'trackers::sort::voting::SortVoting::new',
    'trackers::visual_sort::voting::VisualVoting::new', 'track::voting::Voting::winners',
    'track::Track::get_track_id', 'track::Track::set_track_id', 'track::store::TrackStore::add_track',
    'track::store::TrackStore::merge_external', 'track::Track::add_observation', 'std::convert::From::from',
    'track::store::TrackStore::get_store', 'trackers::epoch_db::EpochDb::next_epoch',
    'utils::clipping::bbox_own_areas::exclusively_owned_areas',
    'utils::clipping::bbox_own_areas::exclusively_owned_areas_normalized_shares',
    'trackers::visual_sort::observation_attributes::VisualObservationAttributes::with_own_area_percentage',
    'trackers::visual_sort::observation_attributes::VisualObservationAttributes::new',
    'track::utils::FromVec::from_vec', 'track::store::TrackStore::shard_stats',
    'track::store::track_distance::TrackDistanceOk::all', 'track::store::track_distance::TrackDistanceErr::all',
    'rand::Rng::gen', 'rand::Rng::r#gen', 'std::iter::Extend::extend', 'std::vec::Vec::extend_from_slice',
    'std::vec::Vec::append', 'std::vec::Vec::clear',
    # capacity management (reserve / with_capacity / shrink_to_fit) is not behaviour: not in the vocabulary
}
# semantic differences that are part of the design of the batch variant (explicit difference table)
DIFF_ALLOWED = {
    # the batch variant hands the lazy iterator to the voting thread instead of materialising the Ok stream
    ('track::store::track_distance::TrackDistanceOk::all', ()): 'batch passes dists.into_iter() to the voting thread',
    # ids: gen_track_id (simple) vs shared counter (batch) are not in the vocabulary
}


COUNTED = {'trackers::epoch_db::EpochDb::next_epoch', 'track::store::TrackStore::foreign_track_distances',
           'track::voting::Voting::winners', 'trackers::sort::voting::SortVoting::new',
           'trackers::visual_sort::voting::VisualVoting::new'}


def op_multiset(F, bodies):
    ms = collections.Counter()
    for b in bodies:
        eb = ExprBuilder(b)
        for c in b.find_calls():
            name = c.res if (c.res and c.res in VOCAB) else c.callee
            if name not in VOCAB:
                continue
            if name == 'std::convert::From::from' and 'SortTrack' not in b.locals[c.dest['l']]:
                continue
            consts = []
            for i in range(len(c.args)):
                e = eb.arg(c, i)
                if e.kind == 'const' and e.const.get('item'):
                    # a named constant stands for its value (`FEATURE_CLASS` and `0` are the same argument)
                    from lib import resolve_const_item
                    e = resolve_const_item(F, e)
                if e.kind == 'const' and 'fn' not in e.const:
                    consts.append('%d=%s' % (i, e.const.get('item') or e.const.get('v')))
                elif e.kind == 'agg' and e.name.endswith('Option::None'):
                    consts.append('%d=None' % i)
            ms[(name, tuple(consts))] += 1
    return ms


def sibling(ctx, R, pairs=(('Sort', 'BatchSort'), ('VisualSort', 'BatchVisualSort'))):
    F = ctx.F
    n = 0
    for s_name, b_name in pairs:
        sb = ctx.anchor(R, T.TRACKERS[s_name]['predict'])
        bp = ctx.anchor(R, T.TRACKERS[b_name]['predict'])
        bv = ctx.anchor(R, T.TRACKERS[b_name]['loop'])
        if sb is None or bp is None or bv is None:
            continue
        simple = [sb] + all_closures(F, sb)
        batch = [bp, bv] + all_closures(F, bp) + all_closures(F, bv)
        ms, mb = op_multiset(F, simple), op_multiset(F, batch)
        diff = {}
        for k in set(ms) | set(mb):
            if k in DIFF_ALLOWED:
                continue
            # presence matters for every operation; multiplicity only for the once-per-call steps (a branch written
            # twice or merged into one arm is the same pipeline)
            if (ms.get(k, 0) > 0) != (mb.get(k, 0) > 0) or (k[0] in COUNTED and ms.get(k, 0) != mb.get(k, 0)):
                diff[k] = (ms.get(k, 0), mb.get(k, 0))
        n += 1
        ctx.check(not diff, R, bv, '%s<->%s:same-operations-and-constants' % (s_name, b_name),
                  '%d distinct operations compared' % len(set(ms) | set(mb)),
                  'the batch tracker and the simple tracker no longer perform the same semantic operations with the '
                  'same constant arguments; (operation, constant args): (simple count, batch count) = %s. One of the '
                  'two pipelines was changed without its sibling' % {('%s%s' % (k[0].rsplit('::', 2)[-2] + '::' + k[0].rsplit('::', 1)[-1], list(k[1]))): v for k, v in diff.items()})
        # decision skeleton: set_track_id -> add_track on the new-track branches; merge on winner != source
        for body, label in ((ctx.anchor(R, T.result_path(T.TRACKERS[s_name])) or sb, s_name), (bv, b_name)):
            eb = ExprBuilder(body)
            me = body.find_calls('track::store::TrackStore::merge_external')
            n += 1
            ok = len(me) == 1
            if ok:
                cls = eb.arg(me[0], 3)
                hist = eb.arg(me[0], 4)
                ok = hist.kind == 'const' and hist.const.get('v') is False and cls.kind == 'agg' and cls.name.endswith('Option::Some')
            ctx.check(ok, R, body, label + ':merge_external(dest, candidate, Some([0]), false)', '',
                      'the continuation branch does not merge class [0] without history')
    # own-area front-end agreement (computed flag and indexing) - shared implementation with C13 R13.3
    n += M.rule_collect_gate(ctx, R, R + 'u') and 0
    return n
