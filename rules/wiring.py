"""Name-agreement wiring rules (contradiction rules in the sense of Engler et al.): configuration values reach the
component they are named after.
 W1  struct literal `A { f: x.g }` where g is also a field of A            => g == f
 W2  struct literal `A { f: param }` where the parameter's name is a field of A => name == f
 W3  `self.f = param` in a method named `f` / `set_f` where f is a field of Self => the field written is f
 W6  call of a crate-local function whose parameter j is named (modulo synonyms) like a field g' of an options
     struct, with argument j read from ANOTHER field g of that same struct          => g == g'
 W4  call of a crate-local function with argument i taken from a parameter / field whose name (modulo the synonym
     table) is the name of the callee's parameter j                            => j == i
Only instances that involve the field names given by the calling property are counted."""
import re
from lib import ExprBuilder
from mir import norm

SYN = {
    'history_length': {'history_length', 'bbox_history', 'kept_history_length'},
    'position_weight': {'position_weight', 'kalman_position_weight', 'std_position_weight'},
    'velocity_weight': {'velocity_weight', 'kalman_velocity_weight', 'std_velocity_weight'},
    'max_idle_epochs': {'max_idle_epochs'},
    'spatio_temporal_constraints': {'spatio_temporal_constraints'},
    'min_confidence': {'min_confidence'},
    'method': {'method'},
    'shards': {'shards', 'distance_shards'},
    'min_votes': {'min_votes', 'visual_min_votes', 'min_winner_feature_votes'},
}


def canon(name):
    for k, v in SYN.items():
        if name in v:
            return k
    return name


def adt_fields(F, adt_path):
    a = F.adts.get(norm(adt_path))
    if not a or len(a['variants']) != 1:
        return []
    return [f['name'] for f in a['variants'][0]['fields']]


def param_names(body):
    out = {}
    for v in body.d['dbg']:
        if v.get('arg') and not v['pl']['p']:
            out[v['pl']['l']] = v['name']
    return out


def skip_body(b):
    return b.d.get('expn') or '__pymethod' in b.npath or '__pyfunction' in b.npath or b.npath.startswith('examples') \
        or b.npath.startswith('<examples') or '::tests::' in b.npath


def last_name(e, pnames):
    """name of the source of a simple copy expression: last field, or the parameter's name"""
    s = e.strip()
    if s.kind == 'place':
        if s.fields:
            f = s.fields[-1]
            return f if not f.isdigit() and not f.startswith('as ') else None
        if s.root[0] == 'param':
            return pnames.get(s.root[1])
    return None


def run(ctx, R, names):
    """names: set of canonical field names this property cares about"""
    F = ctx.F
    names = {canon(n) for n in names}
    n = 0
    for b in F.fn_bodies():
        if skip_body(b) or b.kind == 'Closure':
            continue
        pn = param_names(b)
        eb = None
        # W1 / W2: aggregates
        for i in sorted(b.live_blocks()):
            for si, s in enumerate(b.blocks[i]['st']):
                if s['k'] != 'assign':
                    continue
                rv = s['rv']
                if rv['k'] == 'agg' and rv['ak'] == 'adt' and len(rv['fields']) > 1:
                    fields = rv['fields']
                    eb = eb or ExprBuilder(b)
                    for f, op in zip(fields, rv['ops']):
                        e = eb.operand(op, at=(i, si))
                        g = last_name(e, pn)
                        if g is None or (g not in fields and canon(g) not in {canon(x) for x in fields}):
                            continue
                        if canon(f) not in names and canon(g) not in names:
                            continue
                        n += 1
                        ctx.read(b)
                        ctx.check(canon(g) == canon(f), R, b, 'field:%s::%s<-%s' % (norm(rv['adt']).rsplit('::', 1)[-1], f, g),
                                  '', 'struct literal %s sets field `%s` from `%s`, which is the name of another field '
                                  'of the same struct: two configuration values are crossed' % (
                                      norm(rv['adt']).rsplit('::', 1)[-1], f, g), s['ln'])
                # W3: self.f = param in method f / set_f
                if s['lhs']['l'] == 1 and s['lhs']['p'] and b.kind == 'AssocFn':
                    flds = [p.get('n') for p in s['lhs']['p'] if isinstance(p, dict) and p.get('n')]
                    if len(flds) != 1:
                        continue
                    m = b.d.get('name', '')
                    target = re.sub(r'^set_', '', m)
                    self_ty = norm(b.d.get('impl_self', ''))
                    sf = adt_fields(F, self_ty)
                    if target not in sf or (canon(target) not in names and canon(flds[0]) not in names):
                        continue
                    eb = eb or ExprBuilder(b)
                    v = eb._rvalue(rv, (), 0, (i, si)).strip()
                    if v.kind == 'place' and v.root[0] == 'param' and v.root[1] >= 2 and not v.fields:
                        n += 1
                        ctx.read(b)
                        ctx.check(flds[0] == target, R, b, 'setter:%s::%s' % (self_ty.rsplit('::', 1)[-1], m), '',
                                  'method `%s` of %s stores its argument in field `%s` (expected `%s`)' % (
                                      m, self_ty.rsplit('::', 1)[-1], flds[0], target), s['ln'])
        # W5: accessor `get_f` / `f` of a struct that has field f (or whose delegate struct has it) returns field f
        if b.kind == 'AssocFn' and b.nargs == 1:
            m = b.d.get('name', '')
            target = canon(re.sub(r'^get_', '', m))
            if target in names:
                eb = eb or ExprBuilder(b)
                e = eb.place(0, ()).strip()
                if e.kind == 'place' and e.root == ('param', 1) and e.fields:
                    got = canon(e.fields[-1])
                    # only when the returned field has a sibling named like the accessor
                    owner = None
                    for adt_path, a in F.adts.items():
                        fs = [canon(f['name']) for v in a['variants'] for f in v['fields']]
                        if got in fs and target in fs:
                            owner = adt_path
                    if owner is not None:
                        n += 1
                        ctx.read(b)
                        ctx.check(got == target, R, b, 'getter:%s' % m, 'returns field %s' % e.fields[-1],
                                  'accessor `%s` returns field `%s` although a field `%s` exists next to it: two '
                                  'configuration values are crossed' % (m, e.fields[-1], target))
        # W4: call sites
        for c in b.find_calls():
            cbs = F.get(c.callee) or (F.get(c.res) if c.res else [])
            if len(cbs) != 1 or skip_body(cbs[0]):
                continue
            cp = param_names(cbs[0])
            if len(cp) < 2:
                continue
            cnames = {canon(v): k for k, v in cp.items()}
            eb = eb or ExprBuilder(b)
            # W6: parameter named like a sibling field of the struct the argument is read from
            for k, pname in cp.items():
                cpn = canon(pname)
                if cpn not in names or k - 1 >= len(c.args):
                    continue
                e = eb.arg(c, k - 1).strip()
                if e.kind != 'place' or not e.fields:
                    continue
                g = e.fields[-1]
                if g.isdigit() or g.startswith('as '):
                    continue
                owner = None
                for adt_path, a in F.adts.items():
                    fs = [f['name'] for v in a['variants'] for f in v['fields']]
                    if g in fs and cpn in {canon(x) for x in fs}:
                        owner = adt_path
                if owner is None:
                    continue
                n += 1
                ctx.read(b)
                ctx.check(canon(g) == cpn, R, b, 'callarg:%s(%s)' % (c.callee.rsplit('::', 2)[-2] + '::' + c.name, pname),
                          '', 'parameter `%s` of %s is fed from field `%s` although %s has a field for `%s`: two '
                          'configuration values are crossed' % (pname, c.callee, g, owner.rsplit('::', 1)[-1], cpn), c.ln)
            for idx in range(len(c.args)):
                e = eb.arg(c, idx)
                g = last_name(e, pn)
                if g is None:
                    continue
                cg = canon(g)
                if cg not in names or cg not in cnames:
                    continue
                want = cnames[cg] - 1
                n += 1
                ctx.read(b)
                ctx.check(want == idx, R, b, 'call:%s(%s)' % (c.callee.rsplit('::', 2)[-2] + '::' + c.name, cg), '',
                          '`%s` is passed as argument #%d of %s, whose parameter #%d is `%s` (parameter `%s` is #%d): '
                          'arguments crossed' % (g, idx + 1, c.callee, idx + 1, cp.get(idx + 1), cp.get(want + 1), want + 1),
                          c.ln)
    return n


_WRAP = ('map', 'clone', 'into', 'from', 'to_owned', 'to_vec', 'cloned', 'copied', 'as_ref', 'deref', 'Borrowed', 'Owned',
         'Some', 'as_deref', 'borrow')


_BODY = [None]


def _none_from_source(a, root):
    """the `None` alternative of a mapped option stands for the source being None (built on the source's None arm) - not
    for a predicate that rejected a present value (`opt.filter(..)` desugars to the same phi shape)"""
    body = _BODY[0]
    if body is None or not a.site:
        return True
    from lib import path_conditions
    conds = path_conditions(body, a.site[0])
    for c in conds:
        if c.kind == 'discr' and c.variants == {'None'} and c.expr is not None and any(
                p.root == root for p in c.expr.places()):
            return True
    # no test of the source on the way to this None: it was produced by something else
    return not any(c.kind == 'bool' for c in conds) and not conds


def _is_identity(x, root, top=True, field=None):
    """x is the value rooted at `root` (optionally: its field `field`) itself, seen through value-preserving wrappers
    and Option::map of such"""
    if x.kind == 'place':
        fl = list(x.fields)
        if field is not None:
            if not fl or fl[0] != field:
                return False
            fl = fl[1:]
        return x.root == root and all(f.startswith('as ') or f.isdigit() for f in fl)
    if x.kind == 'cast':
        return False
    if x.kind == 'call':
        return x.name.rsplit('::', 1)[-1] in _WRAP and len(x.args) >= 1 and _is_identity(x.args[0], root, False, field) and \
            all(a.kind == 'agg' and a.name.startswith('closure') or _is_identity(a, root, False, field) for a in x.args[1:])
    if x.kind == 'agg':
        leaf = x.name.rsplit('::', 1)[-1]
        if leaf == 'None' and not x.args:
            return not top
        if leaf in ('Some', 'Borrowed', 'Owned') and len(x.args) == 1:
            return _is_identity(x.args[0], root, False, field)
        return False
    if x.kind == 'phi':
        alts = x.args
        return any(not (a.kind == 'agg' and a.name.endswith('None')) for a in alts) and \
            all(_is_identity(a, root, False, field) for a in alts) and \
            all(_none_from_source(a, root) for a in alts if a.kind == 'agg' and a.name.endswith('None'))
    return False


def identity_ctor(ctx, R, path, fields=None, alias=None):
    """W7 a constructor that stores its like-named parameters stores them UNCHANGED: `Self { f, g, .. }` - field f of
    the struct literal is parameter f itself (looked at through value-preserving wrappers: clone, into, Some, and
    `opt.map(Cow::Borrowed / Cow::Owned / <tuple-struct ctor>)`); a constant, a comparison or a branch in between
    (defaulting a missing value, clamping, sanitising) changes what the consumers of that field see - they apply the
    documented defaults themselves."""
    bs = ctx.F.get(path)
    if not bs:
        ctx.fail(R, path, 'ANCHOR-MISSING', 'constructor %s not found' % path)
        return 0
    n = 0
    for b in bs:
        if b.kind == 'Closure':
            continue
        pn = param_names(b)
        byname = {v: k for k, v in pn.items()}
        for f_, p_ in (alias or {}).items():
            # field f_ is fed by the differently named parameter p_
            if p_ in byname:
                byname[f_] = byname[p_]
        e = ExprBuilder(b).place(0, ())
        aggs = [x for x in e.walk() if x.kind == 'agg' and x.extra and x.extra.get('ak') == 'adt' and x.extra.get('fields')
                and len(set(x.extra['fields']) & set(byname)) >= (1 if alias else 2)]
        if not aggs:
            ctx.note(R, '%s does not build its result as a struct literal over its parameters: identity wiring not evaluated' % path)
            continue
        ctx.read(b)
        _BODY[0] = b
        for a in aggs[:1]:
            m = dict(zip(a.extra['fields'], a.args))
            for f, x in m.items():
                if f not in byname or (fields and f not in fields):
                    continue
                ok = _is_identity(x, ('param', byname[f]))
                # every definition of the stored value that is `None` was built on the parameter's own None arm (the phi
                # the expression builder shows merges equal alternatives, so the definitions are read from the MIR)
                ops_ = a.extra.get('ops') or []
                idx_ = a.extra['fields'].index(f)
                if ok and idx_ < len(ops_) and ops_[idx_].get('k') in ('copy', 'move') and not ops_[idx_]['pl']['p']:
                    from lib import path_conditions
                    for d_ in b.defs().get(ops_[idx_]['pl']['l'], []):
                        if d_[0] == 'assign' and d_[3]['rv'].get('k') == 'agg' and d_[3]['rv'].get('v') == 'None' and \
                                d_[1] in b.live_blocks():
                            cs_ = path_conditions(b, d_[1])
                            if any(c_.kind == 'bool' for c_ in cs_) and not any(
                                    c_.kind == 'discr' and c_.variants == {'None'} for c_ in cs_):
                                ok = False
                n += 1
                ctx.check(ok, R, b, 'ctor:%s-stored-unchanged' % f, repr(x)[:80],
                          '%s stores %r in `%s`: not the parameter `%s` itself - a value the caller did not pass (a default '
                          'for a missing value, a clamped or sanitised one) reaches the consumers of the field' % (
                              path.rsplit('::', 2)[-2] + '::' + path.rsplit('::', 1)[-1], x, f, f))
    return n


def identity_from_self(ctx, R, path, adt_suffix, fields):
    """W8 a builder hands the configured values to the component it builds UNCHANGED: in `path`, the struct literal of
    `adt_suffix` gets, for every listed field f, `self.f` itself (through clone / Arc / Some wrappers) - not a value
    combined with another option (max with a sibling, a clamp, a default)."""
    bs = [b for b in (ctx.F.get(path) or []) if b.kind != 'Closure']
    if not bs:
        ctx.fail(R, path, 'ANCHOR-MISSING', 'builder %s not found' % path)
        return 0
    n = 0
    for b in bs:
        e = ExprBuilder(b).place(0, ())
        aggs = [x for x in e.walk() if x.kind == 'agg' and x.name.rsplit('::', 1)[-1] == adt_suffix and x.extra and
                x.extra.get('fields')]
        if len(aggs) != 1:
            ctx.note(R, '%s: %d struct literals of %s: identity wiring not evaluated' % (path, len(aggs), adt_suffix))
            continue
        ctx.read(b)
        m = dict(zip(aggs[0].extra['fields'], aggs[0].args))
        for f in fields:
            if f not in m:
                continue
            n += 1
            ctx.check(_is_identity(m[f], ('param', 1), True, f), R, b, 'builder:%s-handed-over-unchanged' % f, repr(m[f])[:80],
                      '%s configures `%s` of %s with %r, not with the configured `%s` itself: the component works with '
                      'another value than the one the user set' % (path.rsplit('::', 2)[-2] + '::' + path.rsplit('::', 1)[-1],
                                                                    f, adt_suffix, m[f], f))
    return n
