"""Rules over the positional parts of the two metrics (C02) and the visual gates (C12/C13)."""
from lib import (ExprBuilder, all_closures, as_cmp, closure_args_of_call, orient, path_conditions, result_assignments,
                 upvar_expr, count_on_paths)

SORT_METRIC = '<trackers::sort::metric::SortMetric as track::ObservationMetric>'
VIS_METRIC = '<trackers::visual_sort::metric::VisualMetric as track::ObservationMetric>'
VIS = 'trackers::visual_sort::metric::VisualMetric'
BOXF = 'utils::kalman::kalman_2d_box::Universal2DBoxKalmanFilter'

HELPER = {
    'usable': VIS + '::feature_can_be_used',
    'visual': VIS + '::visual_metric',
    'positional': VIS + '::positional_metric',
    'gallery': VIS + '::optimize_observations',
}

POSITIONAL = {
    'sort': SORT_METRIC + '::metric',
    'visual': VIS + '::positional_metric',
}


def last_field(e):
    if e.kind == 'place':
        return e.fields[-1] if e.fields else None
    if e.kind in ('call', 'agg'):
        return e.proj[-1] if e.proj else None
    return None


def leaves(e):
    """alternatives of an expression looking through phi and Option::Some wrappers"""
    if e.kind == 'phi':
        out = []
        for a in e.args:
            out += leaves(a)
        return out
    if e.kind == 'agg' and e.name.endswith('Option::Some') and e.args:
        return leaves(e.args[0])
    return [e]


ROLE = {
    'sort': {'candidate': lambda e: e.has_field('candidate_observation'), 'track': lambda e: e.has_field('track_observation')},
    'visual': {'candidate': lambda e: e.has_place(root=('param', 2)), 'track': lambda e: e.has_place(root=('param', 3))},
}


def resolve_upvar(F, cb, e):
    e = e.strip()
    if e.kind == 'place' and e.root[0] == 'upvar' and cb.kind == 'Closure':
        pb, pe = upvar_expr(F, cb, e.root[1])
        if pe is not None:
            return pe
    return e


def rule_positional(ctx, R):
    """IoU gate, confidence floor, Mahalanobis cost, too_far guard in both positional metrics"""
    F = ctx.F
    n = 0
    for kind, path in POSITIONAL.items():
        b = ctx.anchor(R, path)
        if b is None:
            continue
        eb = ExprBuilder(b)
        minconf = 'min_confidence' if kind == 'sort' else 'positional_min_confidence'
        # ---- confidence floor: conf = if c < min { min } else { c }   (or max/clamp)
        floor_ok = None
        detail = ''
        cands = {}
        for i in sorted(b.live_blocks()):
            for si, s in enumerate(b.blocks[i]['st']):
                if s['k'] != 'assign' or s['lhs']['p'] or b.locals[s['lhs']['l']] != 'f32':
                    continue
                v = eb._rvalue(s['rv'], (), 0, (i, si))
                vs = v.strip()
                if v.kind in ('place', 'call') and last_field(v) == minconf:
                    cands.setdefault(s['lhs']['l'], {})['min'] = i
                elif v.kind in ('place', 'call') and last_field(v) == 'confidence':
                    cands.setdefault(s['lhs']['l'], {})['own'] = i
                elif vs.kind == 'call' and vs.name.rsplit('::', 1)[-1] in ('max', 'clamp') and vs.has_field(
                        minconf) and vs.has_field('confidence'):
                    floor_ok = True
                    detail = repr(vs)
        for l, d in cands.items():
            if 'min' in d and 'own' in d:
                def need(bb, op_needed):
                    for c in path_conditions(b, bb):
                        o = orient(c.cmp(), lambda e: e.has_field('confidence') and not e.has_field(minconf))
                        if o and o[2].has_field(minconf):
                            return o[0] in op_needed, '%r %s %r' % (o[1], o[0], o[2])
                    return False, 'no comparison'
                a, da = need(d['min'], ('Lt', 'Le'))
                c_, dc = need(d['own'], ('Ge', 'Gt'))
                floor_ok = a and c_
                detail = 'min when %s; own when %s' % (da, dc)
        n += 1
        ctx.check(bool(floor_ok), R, b, kind + ':confidence-raised-to-minimum', detail,
                  'the detection confidence is not raised to the configured minimum (conf = max(confidence, '
                  '%s)): %s' % (minconf, detail or 'pattern not found'))
        # ---- the confidence is the DETECTION's (candidate's), never the track's
        role = {}          # param index -> 'candidate' | 'track'   (helper form: roles come from the call site)
        if kind != 'sort':
            for cb, call in F.callers().get(b.npath, []):
                ceb = ExprBuilder(cb)
                for k in range(len(call.args)):
                    a = ceb.arg(call, k)
                    if a.has_field('candidate_observation') and not a.has_field('track_observation'):
                        role[k + 1] = 'candidate'
                    elif a.has_field('track_observation') and not a.has_field('candidate_observation'):
                        role[k + 1] = 'track'
        reads = {}
        for i in sorted(b.live_blocks()):
            for si, s in enumerate(b.blocks[i]['st']):
                if s['k'] != 'assign':
                    continue
                v = eb._rvalue(s['rv'], (), 0, (i, si))
                for e in v.walk():
                    if (e.kind == 'place' and e.fields[-1:] == ('confidence',)) or (
                            e.kind in ('call', 'agg') and e.proj[-1:] == ('confidence',)):
                        if e.has_field('candidate_observation') and not e.has_field('track_observation'):
                            r = 'candidate'
                        elif e.has_field('track_observation') and not e.has_field('candidate_observation'):
                            r = 'track'
                        else:
                            roots = {pl.root[1] for pl in e.places() if pl.root[0] == 'param'}
                            rs = {role.get(k) for k in roots if k != 1}
                            r = rs.pop() if len(rs) == 1 else None
                        reads[repr(e)] = (r, s['ln'])
        n += 1
        bad = {k: v for k, v in reads.items() if v[0] != 'candidate'}
        ctx.check(bool(reads) and not bad, R, b, kind + ':confidence-of-the-detection', '; '.join(sorted(reads)),
                  'the positional metric weighs with a confidence that is not the candidate detection\'s: %s' % (
                      {k: v[0] or 'unknown source' for k, v in bad.items()} or 'no confidence read found'),
                  (list(bad.values()) or [(None, None)])[0][1])
        # ---- too_far guard on every Some result
        tf = False
        somes = 0
        for d in b.defs().get(0, []) + [x for l in range(len(b.locals)) for x in []]:
            pass
        for i in sorted(b.live_blocks()):
            for si, s in enumerate(b.blocks[i]['st']):
                if s['k'] == 'assign' and s['rv']['k'] == 'agg' and s['rv'].get('v') == 'Some' and \
                        s['rv'].get('adt', '').endswith('Option') and 'f32' in b.locals[s['lhs']['l']]:
                    somes += 1
            c = b.call_at(i)
        weight_sites = [c for c in b.find_calls(BOXF + '::calculate_cost', 'utils::bbox::Universal2DBox::calculate_metric_object',
                                                'track::ObservationAttributes::calculate_metric_object')]
        n += 1
        okg = bool(weight_sites)
        for c in weight_sites:
            conds = path_conditions(b, c.bb)
            g = [k for k in conds if k.kind == 'bool' and k.expr.kind == 'call' and k.expr.name.endswith('too_far')]
            okg = okg and bool(g) and all(k.truth is False for k in g)
            for k in g:
                a0, a1 = k.expr.args[0].strip(), k.expr.args[1].strip()
                okg = okg and repr(a0) != repr(a1)
        ctx.check(okg, R, b, kind + ':weights-only-within-bounding-circle-reach',
                  'every positional weight is computed on the too_far()==false side',
                  'a positional weight can be produced although Universal2DBox::too_far(candidate, track box) holds '
                  '(or the pre-check was removed / applied to the wrong boxes)')
        # ... and the pre-check is the ONLY reason for which metric() gives no record at all for a pair: every `None`
        # definition of the result sits on the too_far()==true side. An early `return None` decided by something else
        # (the raw confidence against the threshold, before it is raised to the configured minimum) drops pairs that
        # pass the gate
        for d_ in (b.defs().get(0, []) if '(std::option::Option<f32>' in str(b.locals[0]) else []):
            if d_[0] != 'assign' or d_[1] not in b.live_blocks() or d_[3]['rv'].get('k') != 'agg' or d_[3]['rv'].get('v') != 'None':
                continue
            conds = path_conditions(b, d_[1])
            g = [k for k in conds if k.kind == 'bool' and k.expr.kind == 'call' and k.expr.name.endswith('too_far')]
            n += 1
            ctx.check(bool(g) and all(k.truth is True for k in g), R, b, kind + ':no-record-only-beyond-bounding-circle-reach',
                      'None result on the too_far()==true side',
                      'metric() can answer None (no record for the pair, neither weight nor gate) on a path that is not '
                      'decided by the bounding-circle pre-check (conditions: %s): pairs that would pass the gate are '
                      'dropped' % [str(k)[:80] for k in conds if k not in g][:3], d_[3].get('ln', ''))
        # ---- Mahalanobis: calculate_cost(distance(state, candidate), true) / conf
        for c in b.find_calls(BOXF + '::calculate_cost'):
            dist = eb.arg(c, 0)
            inv = eb.arg(c, 1)
            n += 1
            okm = inv.kind == 'const' and inv.const.get('v') is True and dist.has_call('distance') and \
                dist.has_call('get_state')
            ctx.check(okm, R, b, kind + ':mahalanobis-inverted-cost-of-filter-distance', 'calculate_cost(%r, %r)' % (
                dist.strip() if dist.kind != 'call' else 'distance(..)', inv),
                'the Mahalanobis weight is calculate_cost(%r, %r): expected the inverted cost (true) of the distance '
                "between the track's filter state and the detection" % (dist, inv), c.ln)
            # divided by conf
            divs = []
            for i in sorted(b.live_blocks()):
                for si, s in enumerate(b.blocks[i]['st']):
                    if s['k'] == 'assign' and s['rv']['k'] == 'bin' and s['rv']['op'] == 'Div':
                        e = eb._rvalue(s['rv'], (), 0, (i, si))
                        if any(y.kind == 'call' and y.extra is c for y in e.args[0].walk()):
                            divs.append(e)
            n += 1
            okd = len(divs) == 1 and (divs[0].args[1].has_field('confidence') or divs[0].args[1].has_field(minconf))
            ctx.check(okd, R, b, kind + ':mahalanobis-weight-divided-by-confidence', repr(divs[0].args[1]) if divs else '',
                      'the Mahalanobis weight is not divided by the (floored) detection confidence')
            dcall = dist.calls('distance')
            if dcall:
                st = dcall[0].args[1]
                meas = dcall[0].args[2].strip()
                n += 1
                ctx.check(st.has_call('get_state') and ROLE[kind]['candidate'](meas) and not ROLE[kind]['track'](meas), R, b,
                          kind + ':distance(track state, candidate box)', '%r, %r' % (st.strip(), meas),
                          'the Mahalanobis distance is not taken between the track filter state and the candidate box')
                # the filter that measures the distance carries the noise weights of THIS track: it is built from the
                # track attributes' position / velocity weight on every alternative - never a filter kept in the
                # metric object from an earlier call (whose weights belong to whatever was optimised first)
                alts_ = []
                for dc_ in dcall:
                    flt = dc_.args[0]
                    alts_ += flt.args if flt.kind == 'phi' else [flt]
                okf = True
                for a_ in alts_:
                    news = [y for y in a_.walk() if y.kind == 'call' and y.name == BOXF + '::new']
                    okf = okf and len(news) == 1 and len(news[0].args) == 2 and \
                        news[0].args[0].has_call('get_position_weight') and news[0].args[1].has_call('get_velocity_weight') and \
                        not any(p_.root == ('param', 1) and p_.fields and p_.fields[0] != 'opts' for p_ in a_.places()
                                if not any(p_ in z.places() for z in news))
                n += 1
                flt = [a_ for a_ in alts_ if not any(y.kind == 'call' and y.name == BOXF + '::new' for y in a_.walk())] or alts_
                flt = flt[0]
                ctx.check(okf, R, b, kind + ':filter-built-from-the-track-weights', repr(flt)[:100],
                          'the filter that computes the Mahalanobis distance is %r: expected, on every path, '
                          'Universal2DBoxKalmanFilter::new(track position weight, track velocity weight) built for this '
                          'pair (a filter stored in the metric carries the weights of another track)' % flt, dcall[0].extra.ln
                          if hasattr(dcall[0].extra, 'ln') else '')
        # ---- IoU: map(|e| e * conf).filter(|e| *e >= threshold) on calculate_metric_object(candidate, track)
        cmo = b.find_calls('calculate_metric_object')
        for c in cmo:
            a0, a1 = eb.arg(c, 0), eb.arg(c, 1)
            n += 1
            ctx.check(ROLE[kind]['candidate'](a0) and ROLE[kind]['track'](a1) and not ROLE[kind]['track'](a0), R, b,
                      kind + ':iou(candidate, track-estimate)', '',
                      'IoU is not computed between the candidate box and the track observation box')
        gate_found = mul_found = False
        for cb in all_closures(F, b):
            ebc = ExprBuilder(cb)
            if cb.locals[0] == 'bool':
                for bb, knd, payload in result_assignments(cb):
                    if knd != 'expr':
                        continue
                    cm = as_cmp(payload, True)
                    if not cm:
                        continue
                    l, r = resolve_upvar(F, cb, cm[1]), resolve_upvar(F, cb, cm[2])
                    lt = any('IoU' in f for f in (l.fields if l.kind == 'place' else ())) or 'IoU' in repr(l)
                    rt = any('IoU' in f for f in (r.fields if r.kind == 'place' else ())) or 'IoU' in repr(r)
                    if not (lt or rt):
                        continue
                    op = cm[0] if rt else {'Lt': 'Gt', 'Gt': 'Lt', 'Le': 'Ge', 'Ge': 'Le'}.get(cm[0], cm[0])
                    gate_found = True
                    n += 1
                    ctx.check(op == 'Ge', R, cb, kind + ':iou-gate-at-least-threshold', 'kept iff weight %s threshold' % op,
                              'a pair passes the IoU gate when `weight %s threshold` (expected >=: "at least the IoU '
                              'threshold")' % op)
            elif cb.locals[0] == 'f32':
                e = ebc.place(0, ())
                if e.kind == 'bin' and e.name == 'Mul':
                    a, c_ = e.args
                    up = [x for x in (a, c_) if x.strip().kind == 'place' and x.strip().root[0] == 'upvar']
                    pr = [x for x in (a, c_) if x.strip().kind == 'place' and x.strip().root[0] == 'param']
                    if up and pr:
                        src = resolve_upvar(F, cb, up[0])
                        mul_found = True
                        n += 1
                        ctx.check(src.has_field('confidence') or src.has_field(minconf), R, cb,
                                  kind + ':iou-multiplied-by-confidence', repr(src)[:100],
                                  'IoU is multiplied by %r instead of the (floored) detection confidence' % src)
        inline_order = False
        if cmo:
            # the ordering clause is read from the desugared control flow in every case
            from lib import orient as _orient0
            for i_ in sorted(b.live_blocks()):
                for k_ in path_conditions(b, i_):
                    cm = k_.cmp()
                    o_ = _orient0(cm, lambda x: x.has_call('calculate_metric_object')) if cm else None
                    if o_ and 'IoU' in repr(o_[2]) and any(x.kind == 'bin' and x.name == 'Mul' for x in o_[1].walk()):
                        inline_order = True
        if cmo and not (gate_found and mul_found):
            # inline form: `match iou_opt { Some(iou) => { let w = iou * conf; if w >= threshold { Some(w) } .. } }`
            from lib import orient as _orient
            for i_ in sorted(b.live_blocks()):
                for si_, s_ in enumerate(b.blocks[i_]['st']):
                    if s_['k'] == 'assign' and s_['rv']['k'] == 'bin' and s_['rv']['op'] == 'Mul' and \
                            'f32' in b.locals[s_['lhs']['l']]:
                        e_ = eb._rvalue(s_['rv'], (), 0, (i_, si_))
                        fa = [x for x in e_.args if x.has_call('calculate_metric_object')]
                        fo = [x for x in e_.args if not x.has_call('calculate_metric_object')]
                        if len(fa) == 1 and len(fo) == 1:
                            mul_found = True
                            n += 1
                            ctx.check(fo[0].has_field('confidence') or fo[0].has_field(minconf), R, b,
                                      kind + ':iou-multiplied-by-confidence', repr(fo[0])[:100],
                                      'IoU is multiplied by %r instead of the (floored) detection confidence' % fo[0])
                for k_ in path_conditions(b, i_):
                    cm = k_.cmp()
                    if not cm:
                        continue
                    o_ = _orient(cm, lambda x: x.has_call('calculate_metric_object'))
                    if o_ and 'IoU' in repr(o_[2]) and not gate_found:
                        gate_found = True
                        inline_order = any(x.kind == 'bin' and x.name == 'Mul' for x in o_[1].walk())
                        n += 1
                        ctx.check(o_[0] == 'Ge', R, b, kind + ':iou-gate-at-least-threshold',
                                  'kept iff weight %s threshold' % o_[0],
                                  'a pair passes the IoU gate when `weight %s threshold` (expected >=: "at least the '
                                  'IoU threshold")' % o_[0])
        if cmo:
            n += 1
            ctx.check(gate_found and mul_found, R, b, kind + ':iou-weight=iou*conf-then-gate', '',
                      'the IoU branch no longer computes iou * confidence followed by the >= threshold gate '
                      '(gate found: %s, product found: %s)' % (gate_found, mul_found))
            # order: gate applied after the product
            e0 = eb.place(0, ())
            flt = e0.calls('filter')
            okord = inline_order or any((x.has_call('map') or any(y.kind == 'bin' and y.name == 'Mul' for y in x.walk()))
                                        and x.has_call('calculate_metric_object') for f_ in flt for x in [f_.args[0]])
            n += 1
            ctx.check(okord, R, b, kind + ':gate-after-product', '', 'the threshold gate is not applied to the '
                      'confidence-weighted IoU')
    return n


def rule_estimate_kept(ctx, R):
    """both optimize(): the kept observation carries the filter estimate (make_prediction), the class keeps exactly
    that one positional observation (sort), and make_prediction stores the updated state"""
    n = 0
    b = ctx.anchor(R, SORT_METRIC + '::optimize')
    if b is not None:
        eb = ExprBuilder(b)
        pops = b.find_calls('std::vec::Vec::pop')
        clears = b.find_calls('std::vec::Vec::clear')
        pushes = b.find_calls('std::vec::Vec::push')
        n += 1
        ok = len(pops) == 1 and len(pushes) == 1 and len(clears) >= 1 and all(
            b.dominates(pops[0].bb, c.bb) and b.dominates(c.bb, pushes[0].bb) for c in clears)
        ctx.check(ok, R, b, 'sort:single-estimate-kept', 'pop -> clear -> push',
                  'SortMetric::optimize no longer reduces the positional class to exactly the newest estimate (pop / '
                  'clear / push: %d/%d/%d): stale estimated boxes of the track stay comparable with new detections' % (
                      len(pops), len(clears), len(pushes)))
        # the attribute written into the pushed observation originates from make_prediction
        mp = b.find_calls('trackers::kalman_prediction::TrackAttributesKalmanPrediction::make_prediction')
        wrote = False
        for i in sorted(b.live_blocks()):
            for si, s in enumerate(b.blocks[i]['st']):
                if s['k'] == 'assign' and s['lhs']['p'] and s['lhs']['p'][0] == '*':
                    tgt = eb.place(s['lhs']['l'], (), 0, (i, si))
                    if tgt.has_call('attr_mut'):
                        v = eb._rvalue(s['rv'], (), 0, (i, si))
                        wrote = True
                        n += 1
                        ctx.check(all(x.kind == 'call' and x.name.endswith('make_prediction') for x in leaves(v)), R, b,
                                  'sort:kept-box-is-filter-estimate', repr(v)[:120],
                                  'the box kept for future comparisons is %r, not the Kalman estimate returned by '
                                  'make_prediction' % v, s['ln'])
        if not wrote:
            ctx.fail(R, b, 'sort:kept-box-is-filter-estimate', 'ANCHOR-MISSING: optimize does not write the observation attribute')
        n += 1
        okp = len(mp) == 1 and eb.arg(mp[0], 1).has_call('pop')
        ctx.check(okp, R, b, 'sort:prediction-from-newest-observation', '',
                  'make_prediction is not fed with the newest observation box')
    vb = ctx.anchor(R, VIS_METRIC + '::optimize')
    if vb is not None:
        eb = ExprBuilder(vb)
        for i in sorted(vb.live_blocks()):
            for si, s in enumerate(vb.blocks[i]['st']):
                if s['k'] == 'assign' and s['lhs']['p'] and s['lhs']['p'][0] == '*':
                    tgt = eb.place(s['lhs']['l'], (), 0, (i, si))
                    if tgt.has_call('attr_mut'):
                        v = eb._rvalue(s['rv'], (), 0, (i, si))
                        n += 1
                        ctors = [x for x in v.walk() if x.kind == 'call' and x.name.rsplit('::', 1)[-1] in (
                            'new', 'with_own_area_percentage')]
                        okv = bool(ctors) and all(all(x.kind == 'call' and x.name.endswith('make_prediction')
                                                      for x in leaves(c.args[1])) for c in ctors)
                        ctx.check(okv, R, vb, 'visual:kept-box-is-filter-estimate', '',
                                  'the box stored with the kept observation is not the Kalman estimate returned by '
                                  'make_prediction', s['ln'])
    mb = ctx.anchor(R, 'trackers::kalman_prediction::TrackAttributesKalmanPrediction::make_prediction')
    if mb is not None:
        eb = ExprBuilder(mb)
        ss = mb.find_calls('set_state')
        n += 1
        okm = len(ss) == 1
        detail = ''
        if okm:
            st = eb.arg(ss[0], 1)
            detail = repr(st)[:200]
            upd = st.calls('update')
            okm = bool(upd) and upd[0].args[1].has_call('predict') and upd[0].args[2].strip().kind == 'place' and \
                upd[0].args[2].strip().root == ('param', 2)
            pred = upd[0].args[1].calls('predict') if upd else []
            okm = okm and bool(pred) and (pred[0].args[1].has_call('get_state') or pred[0].args[1].has_call('initiate'))
            r = count_on_paths(mb, 0, mb.returns(), [ss[0].bb])
            okm = okm and r == (1, 1)
        ctx.check(okm, R, mb, 'make_prediction:state=update(predict(state|initiate(obs)), obs) stored once', detail,
                  'make_prediction does not store update(predict(current state or initiate(observation)), observation) '
                  'exactly once: %s' % detail)
        e = eb.place(0, ())
        n += 1
        ctx.check(e.has_call('try_from') or e.has_call('update'), R, mb, 'make_prediction:returns-updated-estimate', '',
                  'make_prediction does not return the box of the updated state')
    return n


def rule_voting_threshold(ctx, R):
    """the "start a new track" weight handed to the assignment is the configured threshold (IoU) / the Mahalanobis
    constant in all four trackers"""
    import trackerlib as T
    n = 0
    for tname, t in T.TRACKERS.items():
        lb = ctx.anchor(R, t['loop'])
        if lb is None:
            continue
        eb = ExprBuilder(lb)
        ctor = 'trackers::visual_sort::voting::VisualVoting::new' if t['visual'] else 'trackers::sort::voting::SortVoting::new'
        cs = lb.find_calls(ctor)
        n += 1
        if len(cs) != 1:
            ctx.fail(R, lb, tname + ':voting-constructor', 'expected one %s call, found %d' % (ctor, len(cs)))
            continue
        thr = eb.arg(cs[0], 0)
        alts = thr.args if thr.kind == 'phi' else [thr]
        has_iou = any('IoU' in repr(a) and a.kind != 'const' for a in alts)
        has_maha = any(a.kind == 'const' and 'MAHALANOBIS_NEW_TRACK_THRESHOLD' in (a.const.get('item') or '') for a in
                       alts)
        ctx.check(has_iou and has_maha and len(alts) == 2, R, lb, tname + ':new-track-weight=configured-threshold',
                  repr(thr)[:120],
                  'the voting threshold (weight of leaving a detection unmatched) is %r: expected the configured IoU '
                  'threshold, or MAHALANOBIS_NEW_TRACK_THRESHOLD in Mahalanobis mode' % thr, cs[0].ln)
        if not t['visual']:
            cn = eb.arg(cs[0], 1)
            tn = eb.arg(cs[0], 2)
            n += 1
            ctx.check(cn.has_call('len') and tn.has_call('shard_stats') and tn.has_call('sum'), R, lb,
                      tname + ':matrix-dimensions', '', 'SortVoting is not sized by (number of candidates, number of '
                      'stored tracks)')
    return n


# ---------------------------------------------------------------------------
# C13: histories and galleries

DEQUE = 'std::collections::VecDeque'


def rule_histories(ctx, R):
    """both update_history(): one push_back per deque per call; trimming by pop_front of all deques together, guarded
    by history_length > 0 && len > history_length"""
    import trackerlib as T
    n = 0
    for kind, deques in (('sort', ['observed_boxes', 'predicted_boxes']),
                         ('visual', ['observed_boxes', 'predicted_boxes', 'observed_features'])):
        b = ctx.anchor(R, T.UPDATE_HISTORY[kind])
        if b is None:
            continue
        eb = ExprBuilder(b)

        def which(c):
            r = eb.arg(c, 0).strip()
            return r.fields[-1] if r.kind == 'place' and r.fields else None
        ops = {}
        bad_ops = []
        for c in b.find_calls():
            if DEQUE not in c.callee:
                continue
            w = which(c)
            if w in deques:
                ops.setdefault((w, c.name), []).append(c)
                if c.name in ('push_front', 'pop_back', 'truncate', 'clear', 'drain', 'retain', 'split_off', 'resize',
                              'remove', 'swap_remove_back', 'swap_remove_front', 'rotate_left', 'rotate_right'):
                    bad_ops.append((w, c.name, c.ln))
        n += 1
        ctx.check(not bad_ops, R, b, kind + ':history-only-push_back/pop_front', '',
                  'history deques are modified with %s: the histories no longer hold the most recent entries in '
                  'arrival order' % bad_ops, bad_ops[0][2] if bad_ops else '')
        pop_conds = {}
        for d in deques:
            pb = ops.get((d, 'push_back'), [])
            r = count_on_paths(b, 0, b.returns(), [c.bb for c in pb])
            n += 1
            ctx.check(r == (1, 1), R, b, '%s:%s:one-push_back-per-detection' % (kind, d), str(r),
                      'history `%s` receives %s push_back per attached detection (expected exactly one)' % (d, r))
            pf = ops.get((d, 'pop_front'), [])
            r = count_on_paths(b, 0, b.returns(), [c.bb for c in pf])
            n += 1
            ctx.check(r == (0, 1) and len(pf) == 1, R, b, '%s:%s:trimmed-by-one-pop_front' % (kind, d), str(r),
                      'history `%s` is trimmed by %s pop_front calls per update (expected at most one, present): the '
                      'bound min(track length, history length) is not maintained' % (d, r))
            if pf:
                pop_conds[d] = sorted(str(c) for c in path_conditions(b, pf[0].bb))
                # push precedes the trim
                ctx.check(bool(pb) and b.dominates(pb[0].bb, pf[0].bb), R, b, '%s:%s:push-before-trim' % (kind, d), '',
                          'history `%s` is trimmed before the new entry is pushed' % d)
                n += 1
        n += 1
        same = len(set(map(tuple, pop_conds.values()))) == 1 and len(pop_conds) == len(deques)
        ctx.check(same, R, b, kind + ':histories-trimmed-in-lock-step', str(list(pop_conds.values())[:1])[:200],
                  'the history deques are not trimmed under the same condition (%s): observed boxes, predicted boxes '
                  'and features get out of step' % pop_conds)
        # the guard
        if pop_conds:
            d0 = deques[0]
            pf = ops[(d0, 'pop_front')][0]
            cmps = [c.cmp() for c in path_conditions(b, pf.bb) if c.cmp()]
            ok_len = ok_pos = False
            for cm in cmps:
                o = orient(cm, lambda e: e.has_call('len'))
                if o and o[2].has_field('history_length'):
                    ok_len = o[0] == 'Gt' and any(o[1].has_field(d) for d in deques)
                o2 = orient(cm, lambda e: e.has_field('history_length') and not e.has_call('len'))
                if o2 and o2[2].kind == 'const' and o2[2].const_value() == '0':
                    ok_pos = o2[0] == 'Gt'
            n += 1
            ctx.check(ok_len, R, b, kind + ':trim-iff-len>history_length', str([('%r %s %r' % (c[1], c[0], c[2])) for c in cmps])[:200],
                      'the histories are trimmed under %s (expected `len > history_length`): they keep more or fewer '
                      'than the most recent history_length entries' % [('%r %s %r' % (c[1], c[0], c[2])) for c in cmps])
    return n


def rule_gallery(ctx, R):
    """optimize_observations: retain(feature present) -> sort by decreasing quality -> if len >= max truncate(len-1);
    optimize(): trim, then push the new observation, swap it to the front, then recount"""
    F = ctx.F
    n = 0
    b = ctx.anchor(R, HELPER['gallery'])
    if b is not None:
        eb = ExprBuilder(b)
        import votinglib as V
        ret = b.find_calls('std::vec::Vec::retain', 'std::vec::Vec::retain_mut')
        srt = V.sort_calls(b)
        trn = b.find_calls('std::vec::Vec::truncate')
        n += 1
        ok = len(ret) == 1 and len(srt) == 1 and len(trn) == 1
        ctx.check(ok, R, b, 'gallery:retain/sort/truncate-present', '%d/%d/%d' % (len(ret), len(srt), len(trn)),
                  'optimize_observations no longer has exactly one retain, one sort and one truncate (%d/%d/%d)' % (
                      len(ret), len(srt), len(trn)))
        if ok:
            n += 1
            ctx.check(b.dominates(ret[0].bb, srt[0].bb) and b.dominates(srt[0].bb, trn[0].bb), R, b,
                      'gallery:order(retain,sort,truncate)', '',
                      'the gallery is truncated before it is sorted by quality (or sorted before feature-less entries '
                      'are removed): the entry evicted is not the lowest-quality one', trn[0].ln)
            for cb in closure_args_of_call(F, b, srt[0]):
                d, f = V.comparator_direction(cb)
                if d is None:
                    e = ExprBuilder(cb).place(0, ())
                    pc = [x for x in e.walk() if x.kind == 'call' and x.name.endswith('partial_cmp')]
                    if pc:
                        l, r = pc[0].args
                        lq = l.has_call('visual_quality')
                        rq = r.has_call('visual_quality')
                        lr = [p.root for p in l.places() if p.root[0] == 'param']
                        rr = [p.root for p in r.places() if p.root[0] == 'param']
                        if lq and rq and lr and rr:
                            d = 'desc' if (lr[0], rr[0]) == (('param', 3), ('param', 2)) else (
                                'asc' if (lr[0], rr[0]) == (('param', 2), ('param', 3)) else None)
                            f = 'visual_quality'
                n += 1
                ctx.check(d == 'desc' and f == 'visual_quality', R, cb, 'gallery:sorted-by-decreasing-quality',
                          '%s on %s' % (d, f), 'stored features are sorted %s on %s (expected decreasing visual '
                          'quality so that truncation evicts the lowest quality)' % (d, f))
            for cb in closure_args_of_call(F, b, ret[0]):
                e = ExprBuilder(cb).place(0, ())
                n += 1
                ctx.check(e.kind == 'call' and e.name.endswith('is_some') and e.has_call('feature'), R, cb,
                          'gallery:retain-feature-bearing', repr(e)[:80], 'retain keeps %r (expected entries whose '
                          'feature is present)' % e)
            conds = path_conditions(b, trn[0].bb)
            okg = False
            detail = [str(c) for c in conds]
            for c in conds:
                o = orient(c.cmp(), lambda e: e.has_call('len'))
                if o and o[2].has_field('visual_max_observations'):
                    okg = o[0] == 'Ge'
            n += 1
            ctx.check(okg, R, b, 'gallery:evict-iff-len>=max', str(detail)[:160],
                      'an entry is evicted under %s (expected `len >= visual_max_observations`, so that after the new '
                      'feature is pushed at most visual_max_observations remain)' % detail)
            arg = eb.arg(trn[0], 1)
            n += 1
            ctx.check(arg.kind == 'bin' and arg.name == 'Sub' and arg.args[0].has_call('len') and
                      arg.args[1].const_value() == '1', R, b, 'gallery:evict-exactly-one(the last)', repr(arg),
                      'truncate(%r) does not drop exactly the last (lowest-quality) entry' % arg)
    ob = ctx.anchor(R, VIS_METRIC + '::optimize')
    if ob is not None:
        eb = ExprBuilder(ob)
        oo = ob.find_calls(HELPER['gallery'])
        ps = ob.find_calls('std::vec::Vec::push')
        sw = [c for c in ob.find_calls() if c.name == 'swap' and 'slice' in c.callee]
        n += 1
        ok = len(oo) == 1 and len(ps) == 1 and ob.dominates(oo[0].bb, ps[0].bb)
        ctx.check(ok, R, ob, 'optimize:trim-before-push', '', 'the gallery is not trimmed (optimize_observations) '
                  'before the new observation is pushed')
        # count assigned after the push, from a count of feature-bearing entries of the same vector
        found = False
        for i in sorted(ob.live_blocks()):
            for si, s in enumerate(ob.blocks[i]['st']):
                if s['k'] == 'assign' and s['lhs']['p'] and isinstance(s['lhs']['p'][-1], dict) and \
                        s['lhs']['p'][-1].get('n') == 'visual_features_collected_count':
                    v = eb._rvalue(s['rv'], (), 0, (i, si))
                    found = True
                    n += 1
                    okc = v.has_call('count') and v.has_call('filter') and ps and ob.dominates(ps[0].bb, i) and \
                        v.has_place(root=('param', 5))
                    pred_ok = False
                    for c in ob.find_calls('std::iter::Iterator::filter'):
                        for cb in closure_args_of_call(F, ob, c):
                            e = ExprBuilder(cb).place(0, ())
                            pred_ok = pred_ok or (e.kind == 'call' and e.name.endswith('is_some') and e.has_call('feature'))
                    if not (okc and pred_ok):
                        # loop form: `let mut k = 0; for o in observations { if o.feature().is_some() { k += 1 } }`
                        adds = [x for x in v.walk() if x.kind == 'bin' and x.name == 'Add' and x.site and
                                x.args[1].kind == 'const' and x.args[1].const.get('v') == '1']
                        for a in adds:
                            abb = a.site[0]
                            hs = [h for h, blks in ob.loops().items() if abb in blks]
                            if not hs or not ps:
                                continue
                            h = hs[0]
                            nx = [x for x in ob.find_calls('std::iter::Iterator::next') if x.bb in ob.loops()[h]]
                            over_obs = any(eb.arg(x, 0).has_place(root=('param', 5)) for x in nx)
                            conds = path_conditions(ob, abb)
                            feat = any((k.kind == 'bool' and k.truth is True and k.expr.kind == 'call' and
                                        k.expr.name.endswith('is_some') and k.expr.has_call('feature')) or
                                       (k.kind == 'discr' and k.variants == {'Some'} and k.expr.has_call('feature'))
                                       for k in conds)
                            zero_init = any(x.kind == 'const' and x.const.get('v') == '0' for x in v.walk())
                            from lib import count_per_iteration
                            once = count_per_iteration(ob, h, [abb])
                            if over_obs and feat and zero_init and ob.dominates(ps[0].bb, h) and once is not None and \
                                    once[1] == 1:
                                okc = pred_ok = True
                    ctx.check(okc and pred_ok, R, ob, 'optimize:count=stored-features-after-push', repr(v)[:100],
                              'visual_features_collected_count is set to %r (expected the number of feature-bearing '
                              'observations counted after the new one was pushed)' % v, s['ln'])
        if not found:
            ctx.fail(R, ob, 'optimize:count=stored-features-after-push', 'the collected-features count is never updated')
    return n


def rule_collect_gate(ctx, R_collect, R_use):
    """feature_can_be_used is evaluated with the *_collect thresholds (and only for merges) in optimize() and with the
    *_use thresholds in metric(); its three conjuncts use >="""
    F = ctx.F
    n = 0
    fb = ctx.anchor(R_use, HELPER['usable'])
    if fb is not None:
        eb = ExprBuilder(fb)
        facts = []
        for bb, knd, payload in result_assignments(fb):
            if knd == 'const' and payload is False:
                continue
            for c in path_conditions(fb, bb):
                if c.kind == 'bool' and c.truth is True:
                    facts.append(c.expr)
            if knd == 'expr':
                facts.append(payload)
        cmps = []
        for e in facts:
            for x in e.walk():
                cm = as_cmp(x, True)
                if cm:
                    cmps.append(cm)
        # closure for the percentage
        for cb in all_closures(F, fb):
            e = ExprBuilder(cb).place(0, ())
            cm = as_cmp(e, True)
            if cm:
                r = cm[2].strip()
                if r.kind == 'place' and r.root[0] == 'upvar':
                    pb, pe = upvar_expr(F, cb, r.root[1])
                    if pe is not None and pe.strip().kind == 'place' and pe.strip().root == ('param', 6):
                        cmps.append((cm[0], cm[1], pe.strip()))
        want = {'quality': ('param', 3, ('param', 4)), 'own-area': (None, None, ('param', 6)),
                'area': (None, None, 'visual_minimal_area')}
        got = {}
        for op, l, r in cmps:
            r_ = r.strip()
            if r_.kind == 'place' and r_.root == ('param', 4):
                got['quality'] = (op, l.strip().kind == 'place' and l.strip().root == ('param', 3))
            elif r_.kind == 'place' and r_.root == ('param', 6):
                got['own-area'] = (op, True)
            elif r.has_field('visual_minimal_area'):
                got['area'] = (op, l.has_call('area'))
        for k in ('quality', 'own-area', 'area'):
            n += 1
            g = got.get(k)
            ctx.check(g is not None and g[0] == 'Ge' and g[1], R_use, fb, 'usable:%s>=threshold' % k, str(g),
                      'the %s condition of a usable feature is %s (expected value >= threshold: "at or above")' % (k, g))
        # conjunction: all three necessary
        uo = [x for e in facts for x in e.walk() if x.kind == 'call' and x.name.endswith('unwrap_or')]
        n += 1
        passes = any(x.args[1].const_value() is True for x in uo)
        if not passes:
            # match / if-let form: some path on which the helper can return true goes through "own-area share is None"
            from lib import eval_bool_paths_ex
            for conds_, val_, _site in eval_bool_paths_ex(fb):
                if val_ is False:
                    continue
                if any(k.kind == 'discr' and k.variants == {'None'} and k.expr.strip().kind == 'place' and
                       k.expr.strip().root[0] == 'param' for k in conds_):
                    passes = True
        ctx.check(passes, R_use, fb, 'usable:missing-own-area-passes', '',
                  'a detection without an own-area share is not treated as passing the own-area condition')
    mb = ctx.anchor(R_use, VIS_METRIC + '::metric')
    if mb is not None:
        eb = ExprBuilder(mb)
        cs = mb.find_calls(HELPER['usable'])
        n += 1
        ok = len(cs) == 1
        if ok:
            q, a = eb.arg(cs[0], 3).strip(), eb.arg(cs[0], 5).strip()
            ok = q.fields[-1:] == ('visual_minimal_quality_use',) and a.fields[-1:] == (
                'visual_minimal_own_area_percentage_use',)
            fq = eb.arg(cs[0], 2)
            fa = eb.arg(cs[0], 4)
            ok = ok and fq.has_call('visual_quality') and fa.has_call('own_area_percentage_opt') and \
                fq.has_field('candidate_observation') and fa.has_field('candidate_observation')
            vm = mb.find_calls(HELPER['visual'])
            g = all(any(k.kind == 'bool' and k.truth is True and k.expr.kind == 'call' and k.expr.extra is cs[0]
                        for k in path_conditions(mb, v.bb)) for v in vm) and bool(vm)
            ok = ok and g
        ctx.check(ok, R_use, mb, 'metric:appearance-only-if-usable(use-thresholds, candidate values)', '',
                  'metric() does not gate the appearance distance by feature_can_be_used(candidate box, candidate '
                  'quality, visual_minimal_quality_use, candidate own-area share, '
                  'visual_minimal_own_area_percentage_use)')
    ob = ctx.anchor(R_collect, VIS_METRIC + '::optimize')
    if ob is not None:
        eb = ExprBuilder(ob)
        cs = ob.find_calls(HELPER['usable'])
        n += 1
        ok = len(cs) == 1
        if ok:
            q, a = eb.arg(cs[0], 3).strip(), eb.arg(cs[0], 5).strip()
            ok = q.fields[-1:] == ('visual_minimal_quality_collect',) and a.fields[-1:] == (
                'visual_minimal_own_area_percentage_collect',)
        ctx.check(ok, R_collect, ob, 'optimize:collect-thresholds', '',
                  'optimize() does not evaluate the collect decision with visual_minimal_quality_collect / '
                  'visual_minimal_own_area_percentage_collect')
        if len(cs) == 1:
            # the values judged are the DETECTION's own: its box, its quality, its own-area share - never the
            # filter-smoothed (predicted) box of the track
            box, qual, share = eb.arg(cs[0], 1), eb.arg(cs[0], 2), eb.arg(cs[0], 4)
            n += 1
            from_obs = all(x.has_call('pop') or x.has_call('last') or x.has_call('last_mut') for x in (box, qual, share))
            smoothed = [nm for x in (box, qual, share) for nm in ('make_prediction', 'predict', 'update')
                        if x.has_call(nm)]
            ctx.check(from_obs and not smoothed, R_collect, ob, 'optimize:collect-decision-on-the-detection-itself',
                      'box / quality / share of the newest observation',
                      'the collect decision is taken on %r / %r / %r: expected the box, quality and own-area share of '
                      'the newest observation itself (not a predicted / smoothed box)' % (box, qual, share), cs[0].ln)
        # the feature is cleared exactly when is_merge && !usable
        cleared = False
        for i in sorted(ob.live_blocks()):
            for si, s in enumerate(ob.blocks[i]['st']):
                if s['k'] == 'assign' and s['lhs']['p'] and s['lhs']['p'][0] == '*':
                    tgt = eb.place(s['lhs']['l'], (), 0, (i, si))
                    if tgt.has_call('feature_mut'):
                        v = eb._rvalue(s['rv'], (), 0, (i, si))
                        from lib import expand_conditions
                        conds = path_conditions(ob, i)
                        merge = notok = True
                        for cv in expand_conditions(ob, conds):
                            merge = merge and any(k.kind == 'bool' and k.truth is True and k.expr.strip().kind == 'place'
                                                  and k.expr.strip().root == ('param', 7) for k in cv)
                            notok = notok and any(k.kind == 'bool' and k.truth is False and k.expr.kind == 'call' and
                                                  k.expr.name == HELPER['usable'] for k in cv)
                        cleared = True
                        n += 1
                        ctx.check(merge and notok and v.kind == 'agg' and v.name.endswith('Option::None'), R_collect, ob,
                                  'optimize:feature-dropped-iff-merge-and-below-collect-thresholds',
                                  str([str(k) for k in conds])[:160],
                                  'the feature of a continuing detection is dropped under %s (expected exactly: it '
                                  'continues a track (is_merge) and fails the collect thresholds)' % [str(k) for k in conds],
                                  s['ln'])
        if not cleared:
            ctx.fail(R_collect, ob, 'optimize:feature-dropped-iff-merge-and-below-collect-thresholds',
                     'features of detections below the collect thresholds are no longer dropped')
    # both front ends compute own-area shares whenever either threshold is positive
    import trackerlib as T
    for tname, t in T.TRACKERS.items():
        if not t['visual']:
            continue
        pb = ctx.anchor(R_collect, t['predict'])
        if pb is None:
            continue
        oa = pb.find_calls('utils::clipping::bbox_own_areas::exclusively_owned_areas')
        n += 1
        ok = bool(oa)
        detail = ''
        if ok:
            C_, U_ = 'visual_minimal_own_area_percentage_collect', 'visual_minimal_own_area_percentage_use'
            conds = [k for k in path_conditions(pb, oa[0].bb) if k.kind == 'bool' and k.truth is True]
            ok = False
            for k in conds:
                e = k.expr
                alts = e.args if e.kind == 'phi' else [e]
                cm = [as_cmp(a, True) for a in alts if as_cmp(a, True)]
                consts = [a.const_value() for a in alts if a.kind == 'const']
                detail = repr(e)[:160]
                for c_ in cm:
                    o = orient(c_, lambda x: x.has_field(C_) or x.has_field(U_))
                    if o and o[0] == 'Gt' and o[1].has_field(C_) and o[1].has_field(U_) and any(
                            y.kind == 'bin' and y.name == 'Add' for y in o[1].walk()) and not consts:
                        ok = True     # form A: collect + use > 0
                if True in consts and False not in consts and cm:
                    # form B: a || b  (short-circuit yields a `true` alternative)
                    seen = set()
                    for c_ in cm:
                        for f in (C_, U_):
                            if c_[1].has_field(f) or c_[2].has_field(f):
                                seen.add(f)
                    ebp = ExprBuilder(pb)
                    for i in sorted(pb.live_blocks()):
                        for kk in path_conditions(pb, i):
                            pass
                    # the other field is tested on the path to the `true` alternative
                    for i in sorted(pb.live_blocks()):
                        for si, s_ in enumerate(pb.blocks[i]['st']):
                            if s_['k'] == 'assign' and s_['rv']['k'] == 'bin' and s_['rv']['op'] in ('Gt', 'Lt', 'Ge', 'Le'):
                                x = ebp._rvalue(s_['rv'], (), 0, (i, si))
                                for f in (C_, U_):
                                    if x.has_field(f):
                                        seen.add(f)
                    ok = ok or seen == {C_, U_}
        ctx.check(ok, R_collect, pb, tname + ':own-area-shares-computed-if-either-threshold-set', detail,
                  'own-area shares are computed under `%s` (expected: whenever the collect OR the use threshold is '
                  'positive, i.e. collect + use > 0); with only one threshold set the share is missing and a missing '
                  'share is treated as passing' % detail)
        # percentages[i] indexed by the detection's own position
        for cb in all_closures(ctx.F, pb):
            for c in cb.find_calls('with_own_area_percentage'):
                e = ExprBuilder(cb).arg(c, 2)
                idxs = [x for x in e.walk() if x.kind == 'call' and x.name.rsplit('::', 1)[-1] == 'index']
                n += 1
                okp = bool(idxs) and idxs[0].args[1].strip().kind == 'place' and idxs[0].args[1].strip().root == ('param', 2)
                ctx.check(okp, R_collect, cb, tname + ':share-of-this-detection', repr(idxs[0].args[1]) if idxs else '',
                          "a detection's own-area share is taken at index %s (expected the detection's own position "
                          'in its scene)' % (repr(idxs[0].args[1]) if idxs else '?'), c.ln)
    return n


def rule_wasted_conversions(ctx, R):
    n = 0
    for path in ('<trackers::sort::WastedSortTrack as std::convert::From>::from',
                 '<trackers::visual_sort::WastedVisualSortTrack as std::convert::From>::from'):
        bs = ctx.anchor(R, path, multi=True)
        for b in bs:
            e = ExprBuilder(b).place(0, ())
            if e.kind != 'agg':
                ctx.fail(R, b, 'aggregate', 'wasted-track record is not a struct literal')
                continue
            m = dict(zip(e.extra['fields'], e.args))
            want = {
                'id': lambda x: x.strip().kind == 'call' and x.strip().name.endswith('get_track_id'),
                'epoch': lambda x: x.has_field('last_updated_epoch'),
                'scene_id': lambda x: x.has_field('scene_id'),
                'length': lambda x: x.has_field('track_length'),
                'observed_bbox': lambda x: x.has_call('back') and x.has_field('observed_boxes') and not x.has_field('predicted_boxes'),
                'predicted_bbox': lambda x: x.has_call('back') and x.has_field('predicted_boxes') and not x.has_field('observed_boxes'),
                'observed_boxes': lambda x: x.has_call('collect') and x.has_field('observed_boxes') and not x.has_field('predicted_boxes') and not x.has_call('rev'),
                'predicted_boxes': lambda x: x.has_call('collect') and x.has_field('predicted_boxes') and not x.has_field('observed_boxes') and not x.has_call('rev'),
            }
            if 'observed_features' in m:
                want['observed_features'] = lambda x: x.has_call('collect') and x.has_field('observed_features') and not x.has_call('rev')
            for f, pred in want.items():
                n += 1
                ctx.check(f in m and pred(m[f]), R, b, 'wasted.%s' % f, repr(m.get(f))[:80],
                          'wasted-track field `%s` is built from %r' % (f, m.get(f)))
    return n
