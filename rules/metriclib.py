"""Rules over the positional parts of the two metrics (C02) and the visual gates (C12/C13)."""
from lib import (ExprBuilder, all_closures, as_cmp, closure_args_of_call, orient, path_conditions, result_assignments,
                 upvar_expr, count_on_paths)

SORT_METRIC = '<trackers::sort::metric::SortMetric as track::ObservationMetric>'
VIS_METRIC = '<trackers::visual_sort::metric::VisualMetric as track::ObservationMetric>'
VIS = 'trackers::visual_sort::metric::VisualMetric'
BOXF = 'utils::kalman::kalman_2d_box::Universal2DBoxKalmanFilter'

POSITIONAL = {
    'sort': SORT_METRIC + '::metric',
    'visual': VIS + '::positional_metric',
}


def last_field(e):
    if e.kind == 'place':
        return e.fields[-1] if e.fields else None
    if e.kind in ('call', 'agg'):
        return e.proj[-1] if e.proj else None
    return None


def leaves(e):
    """alternatives of an expression looking through phi and Option::Some wrappers"""
    if e.kind == 'phi':
        out = []
        for a in e.args:
            out += leaves(a)
        return out
    if e.kind == 'agg' and e.name.endswith('Option::Some') and e.args:
        return leaves(e.args[0])
    return [e]


ROLE = {
    'sort': {'candidate': lambda e: e.has_field('candidate_observation'), 'track': lambda e: e.has_field('track_observation')},
    'visual': {'candidate': lambda e: e.has_place(root=('param', 2)), 'track': lambda e: e.has_place(root=('param', 3))},
}


def resolve_upvar(F, cb, e):
    e = e.strip()
    if e.kind == 'place' and e.root[0] == 'upvar' and cb.kind == 'Closure':
        pb, pe = upvar_expr(F, cb, e.root[1])
        if pe is not None:
            return pe
    return e


def rule_positional(ctx, R):
    """IoU gate, confidence floor, Mahalanobis cost, too_far guard in both positional metrics"""
    F = ctx.F
    n = 0
    for kind, path in POSITIONAL.items():
        b = ctx.anchor(R, path)
        if b is None:
            continue
        eb = ExprBuilder(b)
        minconf = 'min_confidence' if kind == 'sort' else 'positional_min_confidence'
        # ---- confidence floor: conf = if c < min { min } else { c }   (or max/clamp)
        floor_ok = None
        detail = ''
        cands = {}
        for i in sorted(b.live_blocks()):
            for si, s in enumerate(b.blocks[i]['st']):
                if s['k'] != 'assign' or s['lhs']['p'] or b.locals[s['lhs']['l']] != 'f32':
                    continue
                v = eb._rvalue(s['rv'], (), 0, (i, si))
                vs = v.strip()
                if v.kind in ('place', 'call') and last_field(v) == minconf:
                    cands.setdefault(s['lhs']['l'], {})['min'] = i
                elif v.kind in ('place', 'call') and last_field(v) == 'confidence':
                    cands.setdefault(s['lhs']['l'], {})['own'] = i
                elif vs.kind == 'call' and vs.name.rsplit('::', 1)[-1] in ('max', 'clamp') and vs.has_field(
                        minconf) and vs.has_field('confidence'):
                    floor_ok = True
                    detail = repr(vs)
        for l, d in cands.items():
            if 'min' in d and 'own' in d:
                def need(bb, op_needed):
                    for c in path_conditions(b, bb):
                        o = orient(c.cmp(), lambda e: e.has_field('confidence') and not e.has_field(minconf))
                        if o and o[2].has_field(minconf):
                            return o[0] in op_needed, '%r %s %r' % (o[1], o[0], o[2])
                    return False, 'no comparison'
                a, da = need(d['min'], ('Lt', 'Le'))
                c_, dc = need(d['own'], ('Ge', 'Gt'))
                floor_ok = a and c_
                detail = 'min when %s; own when %s' % (da, dc)
        n += 1
        ctx.check(bool(floor_ok), R, b, kind + ':confidence-raised-to-minimum', detail,
                  'the detection confidence is not raised to the configured minimum (conf = max(confidence, '
                  '%s)): %s' % (minconf, detail or 'pattern not found'))
        # ---- too_far guard on every Some result
        tf = False
        somes = 0
        for d in b.defs().get(0, []) + [x for l in range(len(b.locals)) for x in []]:
            pass
        for i in sorted(b.live_blocks()):
            for si, s in enumerate(b.blocks[i]['st']):
                if s['k'] == 'assign' and s['rv']['k'] == 'agg' and s['rv'].get('v') == 'Some' and \
                        s['rv'].get('adt', '').endswith('Option') and 'f32' in b.locals[s['lhs']['l']]:
                    somes += 1
            c = b.call_at(i)
        weight_sites = [c for c in b.find_calls(BOXF + '::calculate_cost', 'utils::bbox::Universal2DBox::calculate_metric_object',
                                                'track::ObservationAttributes::calculate_metric_object')]
        n += 1
        okg = bool(weight_sites)
        for c in weight_sites:
            conds = path_conditions(b, c.bb)
            g = [k for k in conds if k.kind == 'bool' and k.expr.kind == 'call' and k.expr.name.endswith('too_far')]
            okg = okg and bool(g) and all(k.truth is False for k in g)
            for k in g:
                a0, a1 = k.expr.args[0].strip(), k.expr.args[1].strip()
                okg = okg and repr(a0) != repr(a1)
        ctx.check(okg, R, b, kind + ':weights-only-within-bounding-circle-reach',
                  'every positional weight is computed on the too_far()==false side',
                  'a positional weight can be produced although Universal2DBox::too_far(candidate, track box) holds '
                  '(or the pre-check was removed / applied to the wrong boxes)')
        # ---- Mahalanobis: calculate_cost(distance(state, candidate), true) / conf
        for c in b.find_calls(BOXF + '::calculate_cost'):
            dist = eb.arg(c, 0)
            inv = eb.arg(c, 1)
            n += 1
            okm = inv.kind == 'const' and inv.const.get('v') is True and dist.has_call('distance') and \
                dist.has_call('get_state')
            ctx.check(okm, R, b, kind + ':mahalanobis-inverted-cost-of-filter-distance', 'calculate_cost(%r, %r)' % (
                dist.strip() if dist.kind != 'call' else 'distance(..)', inv),
                'the Mahalanobis weight is calculate_cost(%r, %r): expected the inverted cost (true) of the distance '
                "between the track's filter state and the detection" % (dist, inv), c.ln)
            # divided by conf
            divs = []
            for i in sorted(b.live_blocks()):
                for si, s in enumerate(b.blocks[i]['st']):
                    if s['k'] == 'assign' and s['rv']['k'] == 'bin' and s['rv']['op'] == 'Div':
                        e = eb._rvalue(s['rv'], (), 0, (i, si))
                        if any(y.kind == 'call' and y.extra is c for y in e.args[0].walk()):
                            divs.append(e)
            n += 1
            okd = len(divs) == 1 and (divs[0].args[1].has_field('confidence') or divs[0].args[1].has_field(minconf))
            ctx.check(okd, R, b, kind + ':mahalanobis-weight-divided-by-confidence', repr(divs[0].args[1]) if divs else '',
                      'the Mahalanobis weight is not divided by the (floored) detection confidence')
            dcall = dist.calls('distance')
            if dcall:
                st = dcall[0].args[1]
                meas = dcall[0].args[2].strip()
                n += 1
                ctx.check(st.has_call('get_state') and ROLE[kind]['candidate'](meas) and not ROLE[kind]['track'](meas), R, b,
                          kind + ':distance(track state, candidate box)', '%r, %r' % (st.strip(), meas),
                          'the Mahalanobis distance is not taken between the track filter state and the candidate box')
        # ---- IoU: map(|e| e * conf).filter(|e| *e >= threshold) on calculate_metric_object(candidate, track)
        cmo = b.find_calls('calculate_metric_object')
        for c in cmo:
            a0, a1 = eb.arg(c, 0), eb.arg(c, 1)
            n += 1
            ctx.check(ROLE[kind]['candidate'](a0) and ROLE[kind]['track'](a1) and not ROLE[kind]['track'](a0), R, b,
                      kind + ':iou(candidate, track-estimate)', '',
                      'IoU is not computed between the candidate box and the track observation box')
        gate_found = mul_found = False
        for cb in all_closures(F, b):
            ebc = ExprBuilder(cb)
            if cb.locals[0] == 'bool':
                for bb, knd, payload in result_assignments(cb):
                    if knd != 'expr':
                        continue
                    cm = as_cmp(payload, True)
                    if not cm:
                        continue
                    l, r = resolve_upvar(F, cb, cm[1]), resolve_upvar(F, cb, cm[2])
                    lt = any('IoU' in f for f in (l.fields if l.kind == 'place' else ())) or 'IoU' in repr(l)
                    rt = any('IoU' in f for f in (r.fields if r.kind == 'place' else ())) or 'IoU' in repr(r)
                    if not (lt or rt):
                        continue
                    op = cm[0] if rt else {'Lt': 'Gt', 'Gt': 'Lt', 'Le': 'Ge', 'Ge': 'Le'}.get(cm[0], cm[0])
                    gate_found = True
                    n += 1
                    ctx.check(op == 'Ge', R, cb, kind + ':iou-gate-at-least-threshold', 'kept iff weight %s threshold' % op,
                              'a pair passes the IoU gate when `weight %s threshold` (expected >=: "at least the IoU '
                              'threshold")' % op)
            elif cb.locals[0] == 'f32':
                e = ebc.place(0, ())
                if e.kind == 'bin' and e.name == 'Mul':
                    a, c_ = e.args
                    up = [x for x in (a, c_) if x.strip().kind == 'place' and x.strip().root[0] == 'upvar']
                    pr = [x for x in (a, c_) if x.strip().kind == 'place' and x.strip().root[0] == 'param']
                    if up and pr:
                        src = resolve_upvar(F, cb, up[0])
                        mul_found = True
                        n += 1
                        ctx.check(src.has_field('confidence') or src.has_field(minconf), R, cb,
                                  kind + ':iou-multiplied-by-confidence', repr(src)[:100],
                                  'IoU is multiplied by %r instead of the (floored) detection confidence' % src)
        if cmo:
            n += 1
            ctx.check(gate_found and mul_found, R, b, kind + ':iou-weight=iou*conf-then-gate', '',
                      'the IoU branch no longer computes iou * confidence followed by the >= threshold gate '
                      '(gate found: %s, product found: %s)' % (gate_found, mul_found))
            # order: gate applied after the product
            e0 = eb.place(0, ())
            flt = e0.calls('filter')
            okord = any(x.has_call('map') and x.has_call('calculate_metric_object') for f_ in flt for x in [f_.args[0]])
            n += 1
            ctx.check(okord, R, b, kind + ':gate-after-product', '', 'the threshold gate is not applied to the '
                      'confidence-weighted IoU')
    return n


def rule_estimate_kept(ctx, R):
    """both optimize(): the kept observation carries the filter estimate (make_prediction), the class keeps exactly
    that one positional observation (sort), and make_prediction stores the updated state"""
    n = 0
    b = ctx.anchor(R, SORT_METRIC + '::optimize')
    if b is not None:
        eb = ExprBuilder(b)
        pops = b.find_calls('std::vec::Vec::pop')
        clears = b.find_calls('std::vec::Vec::clear')
        pushes = b.find_calls('std::vec::Vec::push')
        n += 1
        ok = len(pops) == 1 and len(pushes) == 1 and len(clears) >= 1 and all(
            b.dominates(pops[0].bb, c.bb) and b.dominates(c.bb, pushes[0].bb) for c in clears)
        ctx.check(ok, R, b, 'sort:single-estimate-kept', 'pop -> clear -> push',
                  'SortMetric::optimize no longer reduces the positional class to exactly the newest estimate (pop / '
                  'clear / push: %d/%d/%d): stale estimated boxes of the track stay comparable with new detections' % (
                      len(pops), len(clears), len(pushes)))
        # the attribute written into the pushed observation originates from make_prediction
        mp = b.find_calls('trackers::kalman_prediction::TrackAttributesKalmanPrediction::make_prediction')
        wrote = False
        for i in sorted(b.live_blocks()):
            for si, s in enumerate(b.blocks[i]['st']):
                if s['k'] == 'assign' and s['lhs']['p'] and s['lhs']['p'][0] == '*':
                    tgt = eb.place(s['lhs']['l'], (), 0, (i, si))
                    if tgt.has_call('attr_mut'):
                        v = eb._rvalue(s['rv'], (), 0, (i, si))
                        wrote = True
                        n += 1
                        ctx.check(all(x.kind == 'call' and x.name.endswith('make_prediction') for x in leaves(v)), R, b,
                                  'sort:kept-box-is-filter-estimate', repr(v)[:120],
                                  'the box kept for future comparisons is %r, not the Kalman estimate returned by '
                                  'make_prediction' % v, s['ln'])
        if not wrote:
            ctx.fail(R, b, 'sort:kept-box-is-filter-estimate', 'ANCHOR-MISSING: optimize does not write the observation attribute')
        n += 1
        okp = len(mp) == 1 and eb.arg(mp[0], 1).has_call('pop')
        ctx.check(okp, R, b, 'sort:prediction-from-newest-observation', '',
                  'make_prediction is not fed with the newest observation box')
    vb = ctx.anchor(R, VIS_METRIC + '::optimize')
    if vb is not None:
        eb = ExprBuilder(vb)
        for i in sorted(vb.live_blocks()):
            for si, s in enumerate(vb.blocks[i]['st']):
                if s['k'] == 'assign' and s['lhs']['p'] and s['lhs']['p'][0] == '*':
                    tgt = eb.place(s['lhs']['l'], (), 0, (i, si))
                    if tgt.has_call('attr_mut'):
                        v = eb._rvalue(s['rv'], (), 0, (i, si))
                        n += 1
                        ctors = [x for x in v.walk() if x.kind == 'call' and x.name.rsplit('::', 1)[-1] in (
                            'new', 'with_own_area_percentage')]
                        okv = bool(ctors) and all(all(x.kind == 'call' and x.name.endswith('make_prediction')
                                                      for x in leaves(c.args[1])) for c in ctors)
                        ctx.check(okv, R, vb, 'visual:kept-box-is-filter-estimate', '',
                                  'the box stored with the kept observation is not the Kalman estimate returned by '
                                  'make_prediction', s['ln'])
    mb = ctx.anchor(R, 'trackers::kalman_prediction::TrackAttributesKalmanPrediction::make_prediction')
    if mb is not None:
        eb = ExprBuilder(mb)
        ss = mb.find_calls('set_state')
        n += 1
        okm = len(ss) == 1
        detail = ''
        if okm:
            st = eb.arg(ss[0], 1)
            detail = repr(st)[:200]
            upd = st.calls('update')
            okm = bool(upd) and upd[0].args[1].has_call('predict') and upd[0].args[2].strip().kind == 'place' and \
                upd[0].args[2].strip().root == ('param', 2)
            pred = upd[0].args[1].calls('predict') if upd else []
            okm = okm and bool(pred) and (pred[0].args[1].has_call('get_state') or pred[0].args[1].has_call('initiate'))
            r = count_on_paths(mb, 0, mb.returns(), [ss[0].bb])
            okm = okm and r == (1, 1)
        ctx.check(okm, R, mb, 'make_prediction:state=update(predict(state|initiate(obs)), obs) stored once', detail,
                  'make_prediction does not store update(predict(current state or initiate(observation)), observation) '
                  'exactly once: %s' % detail)
        e = eb.place(0, ())
        n += 1
        ctx.check(e.has_call('try_from') or e.has_call('update'), R, mb, 'make_prediction:returns-updated-estimate', '',
                  'make_prediction does not return the box of the updated state')
    return n


def rule_voting_threshold(ctx, R):
    """the "start a new track" weight handed to the assignment is the configured threshold (IoU) / the Mahalanobis
    constant in all four trackers"""
    import trackerlib as T
    n = 0
    for tname, t in T.TRACKERS.items():
        lb = ctx.anchor(R, t['loop'])
        if lb is None:
            continue
        eb = ExprBuilder(lb)
        ctor = 'trackers::visual_sort::voting::VisualVoting::new' if t['visual'] else 'trackers::sort::voting::SortVoting::new'
        cs = lb.find_calls(ctor)
        n += 1
        if len(cs) != 1:
            ctx.fail(R, lb, tname + ':voting-constructor', 'expected one %s call, found %d' % (ctor, len(cs)))
            continue
        thr = eb.arg(cs[0], 0)
        alts = thr.args if thr.kind == 'phi' else [thr]
        has_iou = any('IoU' in repr(a) and a.kind != 'const' for a in alts)
        has_maha = any(a.kind == 'const' and 'MAHALANOBIS_NEW_TRACK_THRESHOLD' in (a.const.get('item') or '') for a in
                       alts)
        ctx.check(has_iou and has_maha and len(alts) == 2, R, lb, tname + ':new-track-weight=configured-threshold',
                  repr(thr)[:120],
                  'the voting threshold (weight of leaving a detection unmatched) is %r: expected the configured IoU '
                  'threshold, or MAHALANOBIS_NEW_TRACK_THRESHOLD in Mahalanobis mode' % thr, cs[0].ln)
        if not t['visual']:
            cn = eb.arg(cs[0], 1)
            tn = eb.arg(cs[0], 2)
            n += 1
            ctx.check(cn.has_call('len') and tn.has_call('shard_stats') and tn.has_call('sum'), R, lb,
                      tname + ':matrix-dimensions', '', 'SortVoting is not sized by (number of candidates, number of '
                      'stored tracks)')
    return n
