"""P7 linear(value of type T): a local whose type matches a tracked pattern must not be destroyed on a normal path.
Works on elaborated drops: a remaining `drop(_x)` in a live normal block executes unless it is guarded by a drop flag
that is provably false there (constant-set dataflow on the flag)."""
import re
from lib import necessary_edges


def bool_const_flags(body):
    """bool locals that are only ever assigned constants (drop flags)"""
    out = {}
    for l, defs in body.defs().items():
        if isinstance(l, tuple) or body.locals[l] != 'bool':
            continue
        ok = True
        for d in defs:
            if d[0] != 'assign' or d[3]['rv']['k'] != 'use' or d[3]['rv']['op']['k'] != 'const':
                ok = False
                break
        if ok and defs:
            out[l] = defs
    return out


def flag_values(body, flag):
    """possible values of a constant-only bool local at block entry: {bb: set}"""
    succ = body.succ()
    state = {0: frozenset([None])}   # None = unassigned
    work = [0]

    def transfer(bb, s):
        cur = set(s)
        for st in body.blocks[bb]['st']:
            if st['k'] == 'assign' and st['lhs']['l'] == flag and not st['lhs']['p']:
                cur = {bool(st['rv']['op']['c'].get('v'))}
        return cur

    out_of = {}
    while work:
        bb = work.pop()
        o = transfer(bb, state[bb])
        out_of[bb] = o
        t = body.blocks[bb]['t']
        for s in succ[bb]:
            vals = set(o)
            # refine on switches over the flag itself
            if t['k'] == 'switch' and t['discr']['k'] in ('copy', 'move') and t['discr']['pl']['l'] == flag and not \
                    t['discr']['pl']['p']:
                zero_targets = [tg for v, tg in t['targets'] if v == '0']
                if s in zero_targets and s != t['otherwise']:
                    vals = {v for v in vals if v is False or v is None}
                elif s == t['otherwise'] and s not in zero_targets:
                    vals = {v for v in vals if v is True}
            if not vals:
                continue
            cur = state.get(s)
            new = frozenset(vals) | (cur or frozenset())
            if new != cur:
                state[s] = new
                work.append(s)
    return state


def destroyed(body, type_rx):
    """[(bb, local, type, how, ln)] normal-path destructions of locals whose type matches type_rx"""
    rx = re.compile(type_rx)
    flags = bool_const_flags(body)
    out = []
    live = body.live_blocks()
    fv_cache = {}
    for bb in sorted(live):
        t = body.blocks[bb]['t']
        if t['k'] == 'drop' and not t['pl']['p']:
            l = t['pl']['l']
            ty = body.locals[l]
            if not rx.search(ty):
                continue
            # guarded by a drop flag?
            guarded_false = False
            for (x, tg) in necessary_edges(body, bb):
                tx = body.blocks[x]['t']
                d = tx['discr']
                if d['k'] in ('copy', 'move') and not d['pl']['p'] and d['pl']['l'] in flags:
                    f = d['pl']['l']
                    if f not in fv_cache:
                        fv_cache[f] = flag_values(body, f)
                    vals = fv_cache[f].get(bb)
                    if vals is None or True not in vals:
                        guarded_false = True
            if bb not in (fv_cache.get(None) or live):
                continue
            if guarded_false:
                continue
            out.append((bb, l, ty, 'drop', t.get('ln', '')))
        c = body.call_at(bb)
        if c and c.is_('std::mem::drop', 'core::mem::drop', 'std::mem::forget', 'core::mem::forget'):
            for a in c.args:
                if a['k'] == 'move' and not a['pl']['p'] and rx.search(body.locals[a['pl']['l']]):
                    out.append((bb, a['pl']['l'], body.locals[a['pl']['l']], c.name, c.ln))
    # unreachable-by-flag refinement: a drop block reachable only with flag false was skipped above
    return out
